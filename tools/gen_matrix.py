#!/usr/bin/env python3
"""Print the markdown table 'which check catches which seeded change' from seeded/*/meta.json."""
import json
import pathlib
import re

HERE = pathlib.Path(__file__).resolve().parent.parent
print("| change | property clause broken (short) | files | caught by (obligations reported on the changed tree) | kind |")
print("|---|---|---|---|---|")
for d in sorted((HERE / "seeded").iterdir()):
    m = json.loads((d / "meta.json").read_text())
    obs = []
    for ln in m.get("check_lines", []):
        mm = re.search(r"obligation=(\S+)", ln)
        if ln.startswith("VIOLATION") and mm and mm.group(1) not in obs:
            obs.append(mm.group(1))
    kinds = sorted({"bounded" if ".bounded." in o else "deductive" for o in obs})
    clause = re.sub(r"\s+", " ", m.get("breaks_clause", "")).replace("|", "/")
    clause = clause[:140] + ("…" if len(clause) > 140 else "")
    files = ", ".join(pathlib.Path(f).name for f in m.get("files", []))
    if not obs:
        caught = m.get("note", "not detected")[:260].replace("|", "/")
    else:
        caught = "<br>".join(f"`{o.split('.', 1)[1]}`" for o in obs[:4]) + (f" (+{len(obs) - 4} more)" if len(obs) > 4 else "")
    print(f"| {m['id']} | {clause} | {files} | {caught} | {' + '.join(kinds) or '—'} |")
