#!/usr/bin/env python3
"""Write seeded/<name>/meta.json from the sub-agent's report (meta.agent.json) and my own confirmation run
(confirm.json, written by tools/confirm_seeded.sh).  Hand-written fields of an existing meta.json (notes,
detected_on) are kept."""
import json
import pathlib
import sys

HERE = pathlib.Path(__file__).resolve().parent.parent


def main():
    for d in sorted((HERE / "seeded").iterdir()):
        if not (d / "confirm.json").exists():
            continue
        agent = json.loads((d / "meta.agent.json").read_text()) if (d / "meta.agent.json").exists() else {}
        conf = json.loads((d / "confirm.json").read_text())
        old = json.loads((d / "meta.json").read_text()) if (d / "meta.json").exists() else {}
        rnd = 1 if d.name.endswith("-a") else 2
        meta = {
            "id": d.name,
            "property": conf["property"],
            "origin": old.get("origin") or (
                f"fresh sub-agent, given only the property record and its own scratch worktree (round {rnd})"),
            "breaks_clause": old.get("breaks_clause") or agent.get("clause") or agent.get("breaks_clause", ""),
            "needs_to_manifest": old.get("needs_to_manifest") or agent.get("needs") or agent.get("needs_to_manifest", ""),
            "files": old.get("files") or agent.get("files", []),
            "patch": conf["patch"],
            "demonstration": sorted(p.name for p in d.glob("demo_*.py"))[0],
            "what_i_ran": [
                f"tools/confirm_seeded.sh {d.name}  (scratch worktree of /repo HEAD: patch applied, full unedited suite, "
                "demo with and without the change, ./check <property> --tier quick with VF_REPO=<worktree>)"],
            "confirmed_by_me": bool(conf["confirmed"]) or (old.get("confirmed_by_me") if not conf["applies_to_repo_head"]
                                                             else False),
            "suite_with_change": conf["suite_with_change"],
            "demo_exit_with_change": conf["demo_exit_with_change"],
            "demo_exit_without_change": conf["demo_exit_without_change"],
            "repo_head_when_confirmed": conf["repo_head"],
            "check_detects": bool(conf["detected"]),
            "check_exit_on_changed_tree": conf["check_exit_on_changed_tree"],
            "check_lines": conf["check_lines"],
            "agent_report": agent.get("ran") or old.get("agent_report", []),
        }
        for k in ("note", "notes", "detected_on", "strengthened"):
            if k in old:
                meta[k] = old[k]
        ab = d / "at_base.json"
        if ab.exists():
            # the patch no longer applies to /repo HEAD: detection judged on the newest commit it applies to, by the
            # obligations that are reported with the patch but not without it (tools/diff_at_base.py)
            a = json.loads(ab.read_text())
            chk = a["checks"].get(conf["property"], {})
            meta["confirmed_by_me"] = bool(old.get("confirmed_by_me", meta["confirmed_by_me"]))
            for k in ("suite_with_change", "demo_exit_with_change", "demo_exit_without_change",
                      "repo_head_when_confirmed"):
                if k in old and not conf["applies_to_repo_head"]:
                    meta[k] = old[k]
            meta["rechecked_at_base"] = {"base_commit": a["base_commit"], "repo_head": a["head"],
                                         "new_violations": chk.get("new_violations", []),
                                         "new_undecided": chk.get("new_undecided", [])}
            meta["check_detects"] = bool(chk.get("new_violations"))
            meta["check_exit_on_changed_tree"] = chk.get("with_patch", {}).get("exit")
            meta["check_lines"] = [f"VIOLATION property={conf['property']} obligation={o} (new with the patch at "
                                   f"{a['base_commit']})" for o in chk.get("new_violations", [])[:8]]
            meta["what_i_ran"] = meta["what_i_ran"] + [
                f"tools/diff_at_base.py seeded/{d.name}  (patch no longer applies to HEAD {a['head']}: check on "
                f"{a['base_commit']} without and with the patch, new obligations only)"]
        (d / "meta.json").write_text(json.dumps(meta, indent=1) + "\n")
        print(d.name, "confirmed" if meta["confirmed_by_me"] else "NOT-CONFIRMED",
              "detected" if meta["check_detects"] else "missed")


if __name__ == "__main__":
    sys.exit(main())
