#!/usr/bin/env python3
"""usage: tools/diff_at_base.py <seeded-or-harmless dir> [PROP ...]

For a patch that no longer applies to /repo HEAD (a later "fix:" commit rewrote the same lines) and cannot be carried
forward mechanically: run the property's quick check on the newest commit of /repo the patch applies to, once without
and once with the patch, and compare the sets of reported obligations.  Violations that the base commit shows on its
own are defects repaired later (the checks demand the repaired behaviour) and are not attributed to the patch:

  seeded change:   detected   iff  VIOLATION lines (with patch) - VIOLATION lines (base)  is not empty
  harmless change: false alarm iff the same difference is not empty; "undecided" if only UNDECIDED lines are new

Writes <dir>/at_base.json.  Scratch copies live under /tmp and are removed.
"""
import json
import os
import pathlib
import re
import shutil
import subprocess
import sys
import tempfile

HERE = pathlib.Path(__file__).resolve().parent.parent


def sh(*a, **k):
    return subprocess.run(a, capture_output=True, text=True, **k)


def find_base(patch):
    for c in sh("git", "-C", "/repo", "log", "--format=%h", "-n", "60").stdout.split():
        wt = tempfile.mkdtemp(prefix="vf-base-")
        try:
            sh("bash", "-c", f"git -C /repo archive {c} src | tar -x -C {wt}")
            r = sh("git", "init", "-q", ".", cwd=wt)
            if sh("git", "apply", "--check", str(patch), cwd=wt).returncode == 0:
                return c
        finally:
            shutil.rmtree(wt, ignore_errors=True)
    return None


def run(commit, patch, prop):
    wt = tempfile.mkdtemp(prefix="vf-base-")
    try:
        sh("bash", "-c", f"git -C /repo archive {commit} src tests pyproject.toml | tar -x -C {wt}")
        shutil.copy("/repo/src/nanite/_version.py", f"{wt}/src/nanite/_version.py")
        sh("git", "init", "-q", ".", cwd=wt)
        if patch is not None:
            assert sh("git", "apply", str(patch), cwd=wt).returncode == 0
        env = dict(os.environ, VF_REPO=wt, VF_JOBS="6")
        out = sh(str(HERE / "check"), prop, "--tier", "quick", cwd=str(HERE), env=env)
        lines = [ln for ln in out.stdout.splitlines() if re.match(r"^(VIOLATION|UNDECIDED|INTERNAL)", ln)
                 and "vanished" not in ln]
        # (a bounded clause is identified together with its witness -- the replay file name carries it -- so that a
        #  different failing input of the same clause counts as new)
        def key(ln):
            ob = re.search(r"obligation=(\S+)", ln).group(1)
            rp = re.search(r"replay=(\S+)", ln)
            wit = ""
            if rp and ".bounded." in ob:
                base_ = os.path.basename(rp.group(1))[:-5]
                wit = base_[len(ob):].lstrip(".")
            return ob + ("#" + wit if wit else "")
        viol = sorted({key(ln) for ln in lines if ln.startswith("VIOLATION")})
        und = sorted({re.search(r"obligation=(\S+)", ln).group(1) for ln in lines if ln.startswith("UNDECIDED")})
        internal = [ln for ln in lines if ln.startswith("INTERNAL")]
        return {"exit": out.returncode, "violations": viol, "undecided": und, "internal": internal}
    finally:
        shutil.rmtree(wt, ignore_errors=True)


def main():
    d = pathlib.Path(sys.argv[1]).resolve()
    props = sys.argv[2:] or [d.name.split("-")[0]]
    patch = d / "patch.diff"
    if (d / "patch.rebased.diff").exists():
        # a hand-rebased version exists (it applied to a later commit than the original)
        patch = d / "patch.rebased.diff"
    base = find_base(patch)
    if base is None:
        print(d.name, "no base commit found")
        return 3
    res = {"base_commit": base, "head": sh("git", "-C", "/repo", "log", "--format=%h", "-n1").stdout.strip(), "checks": {}}
    for prop in props:
        a, b = run(base, None, prop), run(base, patch, prop)
        newv = sorted(set(b["violations"]) - set(a["violations"]))
        newu = sorted(set(b["undecided"]) - set(a["undecided"]))
        res["checks"][prop] = {"base": a, "with_patch": b, "new_violations": newv, "new_undecided": newu,
                               "new_internal": [x for x in b["internal"] if x not in a["internal"]]}
        print(d.name, prop, "base", base, "new violations:", newv[:4], "new undecided:", newu[:3],
              "internal" if res["checks"][prop]["new_internal"] else "")
    (d / "at_base.json").write_text(json.dumps(res, indent=1) + "\n")
    return 0


if __name__ == "__main__":
    sys.exit(main())
