"""Regenerate MANIFEST.json from the table below (run with .venv/bin/python)."""
import importlib
import json
import pathlib
import sys

HERE = pathlib.Path(__file__).resolve().parent.parent
sys.path.insert(0, str(HERE))

TRUST = ("Trusted: the pyvc generator (vf/engine: AST->z3 symbolic executor written for this task), z3 5.1 / "
         "cvc5 1.0.3, floats read as mathematical reals (+NaN flag), the library models of numpy/lmfit/"
         "afmformats/h5py primitives named in the evidence (trusted_base), elementary-function axioms for "
         "pow/sqrt/tan. Bounded stand-ins are labelled as such in the evidence and never counted as proved.")

# property -> (level category, technique, level text, design section)
CLAIMED = {
    "C02": ("proof", "contract-based deductive verification: sidecar pre/postconditions on the 5 real model "
            "functions, VCs generated from the AST by symbolic execution over a symbolic-length pointwise array, "
            "discharged by z3/cvc5; bounded numeric stand-in for the 1e-4 clause",
            "Every clause nanite's code decides (shape, frame, exact baseline off contact, published closed form "
            "in contact, no division by zero) is a discharged obligation for all in-bounds parameters and all "
            "arrays of any length; the 1e-4 distance to the implicit exact Sneddon solution involves ln() and is "
            "a bounded grid check, reported separately.", "3 C02"),
    "C13": ("proof", "contract-based deductive verification: contracts on model_direction_agnostic, the two default "
            "wrappers, residual and compute_contact_point_weights with the user's model function uninterpreted; "
            "call-site obligation 'user function sees approach-ordered data'; per-model algebraic lemmas over the "
            "C02 postconditions (z3 nlsat); bounded stand-ins for Clifford monotonicity and harness models",
            "All structural clauses that nanite's code decides hold for EVERY model function (uninterpreted G, "
            "order-sensitive allowed) and every abscissa of either orientation and any length; translation, "
            "baseline additivity, modulus scaling, continuity and monotonicity follow as lemmas from the proved C02 "
            "postconditions. Clifford monotonicity and models run through the real registry are bounded and "
            "labelled so.", "3 C13"),
    "C14": ("proof", "contract-based deductive verification by complete case analysis: the real autosort/check_order/"
            "available/apply are symbolically executed over lists of symbolic identifiers (distinct members of the "
            "6-step universe bound the length, so unrolling is complete); every leaf is decided against an "
            "independently written specification of the order rules",
            "All 1957 ordered selections (1424 complete ones for autosort) plus lists with an unknown identifier are "
            "covered exhaustively on the real AST: permutation, validity, idempotence, unchanged valid orders, "
            "input not modified, check_order/apply accept iff the stated rule holds, unknown identifiers rejected, "
            "apply restarts from raw data and runs steps in the given order.", "3 C14"),
    "C18": ("proof", "contract-based deductive verification: map contracts (symbolic registry pre-state) on "
            "register_model/deregister_model, exceptional postconditions, complete single-fault rejection table of "
            "NaniteFitModel._module_check, load_model_from_file with sys.path as an unbounded z3 sequence and "
            "try/finally semantics, ancillary-seeding contract of guess_initial_parameters; bounded stand-in for a "
            "model loaded from a file",
            "Every clause is a discharged obligation on the real bodies for every registry state (own key / any "
            "other key present or absent), every single-fault mutant of a valid module, every sys.path content of "
            "any length and every ancillary dictionary incl. NaN values; 'behaves like shipped code' for a file "
            "model composes with C13 and is additionally exercised bounded.", "3 C18"),
    "C12": ("other", "contract-based deductive verification: the real _hash and obj2bytes are symbolically executed "
            "(bytes as typed chunk lists, md5 assumed injective); pre-image coverage / don't-care / representation "
            "/ totality obligations by z3, purity by a syntactic whitelist, concatenation unambiguity as a z3 "
            "string lemma (refuted: known finding); bounded run across processes and hash seeds",
            "Discharged for all setting values: equal effective settings and data give equal pre-images, a change "
            "of any single setting, parameter attribute or data sample changes the pre-image, the documented "
            "don't-cares do not enter, int/float/bool, tuple/list and dict/Parameters order do not matter. NOT "
            "proved as a whole: list items are concatenated without separators, which is ambiguous (genuine "
            "defect, recorded in KNOWN_FINDINGS.txt, replayed as an actual fit-hash collision); therefore level "
            "'other' rather than 'proof'.", "3 C12"),
    "C03": ("other", "contract-based deductive verification of a representation invariant: whole-map postconditions on "
            "FitProperties.__setitem__/reset/restore (one case per key, symbolic presence of every key), invariant "
            "'results only for the stored settings' with ghost state on Indentation.fit_model and "
            "apply_preprocessing (fitter under an assumed functional contract), normal and exceptional exits",
            "Every finite operation sequence preserves the invariant because each public operation is proved to "
            "preserve it for all states and arguments (real bodies, z3): changed settings drop results, unchanged "
            "ones change nothing, a fitter is built exactly when something fit-relevant changed and its results "
            "are the ones stored. What the fitter computes numerically is outside the contracts, hence 'other'.",
            "3 C03"),
    "C06": ("other", "contract-based deductive verification: remember/apply protocol of "
            "Indentation.apply_preprocessing with ghost 'pipeline the columns hold' on normal and exceptional "
            "exits, restart/deep-copy/order clauses of preproc.apply, syntactic raw-data obligation; bounded "
            "bit-for-bit comparison of pipeline pairs on a recorded curve",
            "For all requests (steps, options incl. None/empty) and all curve states: the same request is a no-op, "
            "a changed one runs preproc.apply exactly once with this curve and the request, what is remembered is "
            "what was applied, a rejected request is not remembered; preproc.apply restarts from raw data and "
            "hands each step a deep copy of its options. Bit-identical columns are additionally exercised bounded.",
            "3 C06"),
    "C09": ("other", "contract-based deductive verification: case postcondition and totality of "
            "Indentation.rate_quality over all curve states and argument kinds (get_rater under contract), per-curve "
            "decision of IndentationRater.rate with uninterpreted features/pipeline, frame contract of get_rater "
            "on the shipped hyper-parameters, totality of the feature predicates; syntactic/data obligations; "
            "bounded runs over curve states x regressors x training sets",
            "rate_quality never raises, returns -1 for 'none', reuses the cache exactly while hash, regressor, "
            "training set (by content), names and LDA flag are unchanged and otherwise rates once with the given "
            "arguments; rate() gives 0 / -1 / prediction as stated. The prediction's range and determinism rest on "
            "scikit-learn (assumed) plus fixed random_state and shipped responses in 0..10 (checked).", "3 C09"),
    "C04": ("other", "contract-based deductive verification: data-flow/write-back postconditions of the real "
            "IndentationFitter._fit under an assumed lmfit.minimize contract and uninterpreted model callables; "
            "pointwise contracts of residual and compute_contact_point_weights; bounded numeric consistency on "
            "real fits",
            "For all arrays, masks, k > 0, weights and parameter records: the fit column is the model of the "
            "fitted parameters on the whole segment in corrected coordinates and NaN elsewhere, residuals "
            "likewise with the contact-point weights, fixed parameters keep their value, the reported contact "
            "point is converted back exactly once, an unsuccessful fit leaves NaN columns and success False and "
            "writes nothing else. chi-square = sum of squares and bounds are lmfit's assumed contract, checked "
            "numerically (bounded).", "3 C04"),
    "C05": ("other", "contract-based deductive verification: mask postcondition of IndentationFitter.fit (absolute and "
            "contact-point-relative ranges and the modulus-plateau search; the fitter built by the real __init__, _fit "
            "under contract with ghost pass log), the plateau scan compute_emodulus_vs_mindelta (loop verified for one "
            "arbitrary iteration), use/xmin/xmax clauses of _fit with definitional min/max axioms; bounded stand-in "
            "for the plateau detection (filters, labelling)",
            "For every curve, segment, interval (closed, inverted, zero-width, ends on samples) the points handed "
            "to the optimiser are exactly segment AND interval; relative ranges are anchored at the previously "
            "fitted contact point in every refinement pass; xmin/xmax are attained extreme abscissae in uncorrected "
            "units; with the plateau search the scan has the requested number of samples on a monotonic grid inside "
            "the measured depths, every scan fit uses [depth, upper bound], and the final fit starts at the reported "
            "optimal indentation, which lies inside the scanned depths. Which depth the plateau detection picks "
            "(Butterworth filter, labelling) is assumed to lie between the scan's extremes and is bounded.",
            "3 C05"),
    "C10": ("proof", "contract-based deductive verification: frame (mutation log) and ownership (object identity) "
            "obligations generated by the symbolic executor on the real bodies of every API function taking a "
            "mutable argument; bounded in-place-edit scenarios on a recorded curve",
            "For all argument values: nothing reachable from an argument is written to by fit/_fit, "
            "apply_preprocessing, preproc.apply, autosort, rate_quality, the model, residual and weight "
            "functions; everything stored (fit properties, remembered pipeline, rating key) or handed out "
            "(initial parameters) is a fresh copy, so an in-place edit is noticed when passed again.", "3 C10"),
    "C11": ("proof", "contract-based deductive verification: homogeneity lemma per power-law model over the C02 "
            "postconditions (z3 nlsat with a pow-multiplicativity instance) plus unit and frame obligations on the "
            "real _fit/fit (fitter built by the real __init__) under the assumed lmfit.minimize contract, and the "
            "plateau scan grid as a function of the measured abscissa only; bounded k-vs-1 fits incl. plateau search",
            "For all k > 0: M(k x; E k^-p, k cp, b) = M(x; E, cp, b), so minimisers correspond; lmfit gets x*k "
            "and the initial contact point scaled exactly once in every pass (initial parameters are never "
            "written to), reported cp, xmin, xmax are converted back to measured units, the fit column is the "
            "model at k*x, the plateau scan depths do not depend on k. That the optimiser returns corresponding "
            "minimisers is assumed and exercised bounded.",
            "3 C11"),
    "C20": ("other", "contract-based deductive verification of nanite's glue code: progress arithmetic of load_data for a "
            "symbolic file index (loop body executed once for an arbitrary iteration), append precondition, "
            "unit/NaN/warning contracts of the three uncached map features; afmformats assumed; bounded runs on "
            "recorded files and maps",
            "For every number of files and every file index the value handed to the callback is (files done + "
            "fraction)/n, within [0,1], monotone within and across files, ending at 1; every load uses the "
            "Indentation class; append refuses exactly when neither spring constant nor tip position exists; the "
            "map features return cp*1e9 nm / E in Pa / the current rating or NaN with one warning and are not "
            "cached. One object per curve and pixel placement are afmformats' (assumed, exercised bounded).",
            "3 C20"),
    "C19": ("other", "contract-based deductive verification: finite-map contracts (symbolic file content, json assumed "
            "to round-trip) and a statelessness frame on the real cli.profile.Profile methods; bounded stand-ins for "
            "legacy parsing, the interactive dialogue (scripted input) and the batch statistics file",
            "For every file content and key: writes store exactly that key, reads return the stored value or the "
            "documented default and write it through, a new object changes nothing that is stored, fit parameters "
            "are the model defaults overridden by exactly the stored value/vary entries, and Profile objects keep "
            "no profile data of their own (so the clauses compose over any sequence of calls on any number of "
            "objects). The 18-prompt dialogue is out of reach of path-based symbolic execution and is bounded.",
            "3 C19"),
    "C07": ("other", "contract-based deductive verification: pointwise and frame postconditions on the real bodies of five "
            "preprocessing steps and find_turning_point (curve = finite map of symbolic-length columns; compute_poc "
            "and lmfit.LinearModel under contract), exit-condition lemmas of the monotone smoothing; bounded runs for "
            "the smoothing itself and all steps on synthetic and recorded curves",
            "For all columns of any length and every option value: tip = height + force/k; force/tip offsets are a "
            "constant shift (baseline mean / value at the contact index, exactly 0 there); slope correction removes "
            "m*(a - a_end) inside the selected region over the selected abscissa, is 0 at the region end and leaves "
            "the rest untouched; a single 0->1 switch at the turning point; only owned columns are written, nothing "
            "in place; invalid options raise before writing. Median filtering and tie-breaking are bounded.",
            "3 C07"),
    "C08": ("other", "contract-based deductive verification: index-range / fallback / frame / totality contracts on "
            "compute_poc, the clip and the two closed-form estimators (reductions by their defining axioms), and "
            "relational scale/offset invariance by self-composition (f and a*f+b in one path, lemma chain); the three "
            "piecewise fits up to and after the optimiser (lmfit.minimize under an assumed contract whose "
            "precondition 'numbers only' is the obligation; relational: the optimiser is handed the same problem "
            "for f and a*f+b); bounded stand-in for accuracy, the Nelder-Mead results and the gradient estimator",
            "For force arrays of any length: compute_poc returns a valid index of the original array, NaN falls back "
            "and so does an estimate outside the data, unknown methods raise, inputs are untouched (every estimator "
            "under the contract 'NaN or some integer'); deviation-from-baseline and the Frechet estimator give the "
            "same index for a*f+b (a>0) and are total; the piecewise fits feed no 0/0 to the optimiser and hand it "
            "the same data, initial values and bounds for f and a*f+b. Accuracy and what Nelder-Mead returns are "
            "bounded (fractions measured on the pinned tree, stated in the code).", "3 C08"),
    "C17": ("other", "contract-based deductive verification: selection/ordering contracts of get_feature_names and "
            "compute_features (feature bodies under contract, introspection modelled by the class's own methods), "
            "guard and predicate totality of all feat_* for every state of the fit properties, syntactic purity; "
            "the fifteen feat_* bodies executed symbolically on a fitted curve with symbolic approach arrays "
            "(external filters / lstsq / std under assumed contracts, numpy division semantics) for totality, "
            "no +-inf and the stated ranges; bounded numeric checks on fitted and synthetic curves",
            "For every type/name selection the names are sorted, duplicate-free and exactly the requested ones, "
            "values come in that order and indices match; without a usable fit every fit-dependent feature "
            "returns NaN without raising; accessors copy and nothing is stored into the curve; on a fitted curve "
            "with a positive, non-constant approach force no feature raises, none is +-inf, fractions lie in [0,1] "
            "and magnitudes are non-negative (for arrays of any length). Scale and segment independence involve "
            "the numeric content of gaussian filters, lstsq and std (external) and are bounded.", "3 C17"),
    "C15": ("other", "contract-based deductive verification: the cleaning pipeline of IndentationRater.load_training_set "
            "symbolically executed on a matrix with a symbolic number of rows (2-D pointwise arrays, NaN flags, "
            "infinity signs with IEEE inf-arithmetic), all flag combinations; bounded stand-ins for the text round "
            "trip, sample weights and export",
            "For every matrix and response vector: imputation uses exactly the mean of the zero-rated non-NaN "
            "entries of that feature, a row survives iff it holds no NaN afterwards, samples and responses are "
            "selected by the same predicate (alignment), infinities become +-2 x the largest finite magnitude among "
            "the kept rows, no NaN/inf remains, every ordinary entry is untouched, columns follow the sorted names. "
            "np.savetxt/loadtxt, compute_sample_weight and the export are exercised bounded.", "3 C15"),
    "C16": ("other", "contract-based deductive verification: write-set / frame / refusal postconditions and a crash "
            "invariant (exception injected at every write point, symbolically) for the real save_hdf5 on a finite-map "
            "model of the HDF5 container, the crash invariant decided by executing the real load_hdf5 on the container "
            "the interrupted save leaves behind (composition), reader/writer key correspondence for load_hdf5, string "
            "lemmas for the text codecs; bounded runs with real h5py incl. native failure injection",
            "For every container state: a new entry gets the six datasets and one attribute per fit property, "
            "the same curve again updates only the user fields, a different fit (beyond a relative tolerance) is "
            "refused without a single write, no other entry or dataset is touched, and after a failure at ANY write "
            "point (raw data, attributes, datasets) the real loader still returns every previously stored rating in "
            "both modes; the loader reads every complete entry without error. h5py/json/lmfit serialisation are assumed and exercised bounded.", "3 C16"),
}

NOT_APPLICABLE = {
    "C01": "optimizer convergence (MINPACK/Nelder-Mead through lmfit, iterative floating point) is not a pre/"
           "postcondition of any nanite function; assuming it as the contract of lmfit.minimize would assume the "
           "property. Necessary conditions that contracts can state are proved under C04/C11/C13 (DESIGN.md 3 C01).",
}
PENDING = "check under construction in this session (contracts not yet committed); see DESIGN.md section 3"


def main():
    props = [json.loads(l) for l in open(HERE / "properties.jsonl")]
    checks, na = [], []
    for p in props:
        pid = p["id"]
        if pid in CLAIMED:
            cat, tech, text, ref = CLAIMED[pid]
            mod = importlib.import_module(f"vf.contracts.{pid.lower()}")
            assert getattr(mod, "LEVEL", "proof") == cat, pid
            checks.append({
                "property_id": pid,
                "quick_cmd": f"./check {pid} --tier quick",
                "thorough_cmd": f"./check {pid} --tier thorough",
                "evidence_file": f"/verif/evidence/{pid}.json",
                "replay_cmd_template": f"./check {pid} --replay {{path}}",
                "engine": "pyvc",
                "level_claimed": {"category": cat, "text": text, "design_ref": f"DESIGN.md section {ref}"},
                "level_note": TRUST,
                "technique": tech,
            })
        else:
            na.append({"property_id": pid, "reason": NOT_APPLICABLE.get(pid, PENDING)})
    man = {
        "version": 1,
        "setup_cmd": "./check --setup",
        "hooks": {
            "guard": "NANITE_VERIF",
            "enable": "none needed: contracts are sidecar files keyed by qualified function name; /repo is only "
                      "read (AST re-extracted on every run) and imported for native replays",
            "baseline_off_cmd": "cd /repo && /venv/bin/python -m pytest -ra -q -p no:cacheprovider --timeout=900 "
                                "--continue-on-collection-errors",
            "source_commits": [],
            "add_only": True,
        },
        "engines": [{
            "name": "pyvc", "path": "vf/engine",
            "serves_properties": sorted(CLAIMED),
            "kind_free_text": "verification-condition generator: symbolic interpreter over the real AST of /repo "
                              "(re-read every run) with sidecar contracts; z3 5.1 (forked, hard timeout) and cvc5 "
                              "back ends; native replay of counter-models on the real code",
        }],
        "checks": checks,
        "notes": "exit 0 held / 1 violation (VIOLATION line, replay file) / 2 undecided / 3 internal error; "
                 "KNOWN_FINDINGS.txt lists recorded and repaired defects; tools/mutant.sh runs a check against a "
                 "patched scratch copy",
        "not_applicable": na,
    }
    (HERE / "MANIFEST.json").write_text(json.dumps(man, indent=1) + "\n")
    print("claimed:", sorted(CLAIMED), "not applicable:", [n["property_id"] for n in na])


if __name__ == "__main__":
    main()
