#!/usr/bin/env python3
"""Refresh the generated tables of DESIGN.md (between <!-- BEGIN:x --> / <!-- END:x --> markers) from
evidence/*.json (tools/gen_status.py) and seeded/*/meta.json (tools/gen_matrix.py)."""
import pathlib
import re
import subprocess
import sys

HERE = pathlib.Path(__file__).resolve().parent.parent
doc = (HERE / "DESIGN.md").read_text()
for tag, tool in (("status", "gen_status.py"), ("matrix", "gen_matrix.py")):
    out = subprocess.run([sys.executable, str(HERE / "tools" / tool)], capture_output=True, text=True, check=True).stdout
    pat = re.compile(rf"(<!-- BEGIN:{tag} -->\n).*?(<!-- END:{tag} -->)", re.S)
    assert pat.search(doc), tag
    doc = pat.sub(lambda m: m.group(1) + out + m.group(2), doc)
(HERE / "DESIGN.md").write_text(doc)
print("DESIGN.md tables refreshed")
