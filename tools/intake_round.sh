#!/usr/bin/env bash
# usage: tools/intake_round.sh <tmp prefix, e.g. s3> <suffix letter, e.g. c>
# copies finished seeded changes from /tmp/<prefix>-CNN into seeded/CNN-<suffix>, confirms them
# (tools/confirm_seeded.sh) and removes the scratch worktree of each one taken in.
set -u
PFX="$1"; SUF="$2"
HERE="$(cd "$(dirname "${BASH_SOURCE[0]}")/.." && pwd)"
for d in /tmp/$PFX-C*; do
  id="$(basename "$d" | sed "s/$PFX-//")"
  [ -f "$d/patch.diff" ] && [ -f "$d/meta.json" ] && [ -f "$d/demo_${id}${SUF}.py" ] || continue
  [ -d "$HERE/seeded/$id-$SUF" ] && continue
  mkdir -p "$HERE/seeded/$id-$SUF"
  cp "$d/patch.diff" "$HERE/seeded/$id-$SUF/patch.diff"
  cp "$d/demo_${id}${SUF}.py" "$HERE/seeded/$id-$SUF/"
  cp "$d/meta.json" "$HERE/seeded/$id-$SUF/meta.agent.json"
  "$HERE/tools/confirm_seeded.sh" "$id-$SUF"
  git -C /repo worktree remove --force "$d" >/dev/null 2>&1; rm -rf "$d"
done
