#!/usr/bin/env bash
# usage: tools/recheck_one.sh seeded/<name> | harmless/<name>
# Re-evaluates one stored change against /repo HEAD: if its patch (or the mechanically rebased one) applies, the
# usual confirmation runs; if not (a later "fix:" commit rewrote the lines), tools/diff_at_base.py compares the check
# on the newest commit the patch applies to, with and without it.
set -u
HERE="$(cd "$(dirname "${BASH_SOURCE[0]}")/.." && pwd)"; cd "$HERE"
D="${1%/}"; NAME="$(basename "$D")"; KIND="$(dirname "$D")"
"$HERE/tools/rebase_patch.sh" "$D" >/dev/null 2>&1
P="$D/patch.diff"; [ -f "$D/patch.rebased.diff" ] && P="$D/patch.rebased.diff"
ALSO="$(grep -m1 '^# also:' "$D/patch.diff" | sed 's/# also://')"
if git -C /repo apply --check "$HERE/$P" 2>/dev/null; then
  rm -f "$D/at_base.json"
  if [ "$KIND" = "seeded" ]; then
    tools/confirm_seeded.sh "$NAME" | tail -1
  else
    out="$(tools/harmless.sh "$NAME" 2>&1)"; echo "$out" | grep -v "^Processing" | head -6
    echo "$out" | grep -v "^Processing" > "$D/recheck.txt"
  fi
else
  .venv/bin/python tools/diff_at_base.py "$D" ${NAME%%-*} $ALSO 2>&1 | tail -3
fi
