#!/usr/bin/env bash
# usage: tools/intake_harmless.sh <tmp prefix, e.g. h1> <suffix, e.g. h>
# Takes finished behaviour-preserving refactors from /tmp/<prefix>-CNN into harmless/CNN-<prefix>/ (patch.diff,
# demo, meta.agent.json), confirms each in a scratch worktree (patch applies, unedited suite passes, demonstration
# passes with and without the change), runs the property's quick check against the patched worktree and writes
# confirm.json (verdict: silent / undecided / FALSE-ALARM).  The scratch worktrees are removed.
set -u
PFX="$1"; SUF="$2"
HERE="$(cd "$(dirname "${BASH_SOURCE[0]}")/.." && pwd)"
for d in /tmp/$PFX-C*; do
  id="$(basename "$d" | sed "s/$PFX-//")"
  [ -f "$d/patch.diff" ] && [ -f "$d/meta.json" ] && [ -f "$d/demo_${id}${SUF}.py" ] || continue
  T="$HERE/harmless/$id-$PFX"
  [ -d "$T" ] && continue
  mkdir -p "$T"
  cp "$d/patch.diff" "$T/patch.diff"; cp "$d/demo_${id}${SUF}.py" "$T/"; cp "$d/meta.json" "$T/meta.agent.json"
  git -C /repo worktree remove --force "$d" >/dev/null 2>&1; rm -rf "$d"
  WT="$(mktemp -d /tmp/vf-harm-XXXXXX)"; rmdir "$WT"
  git -C /repo worktree add -q --detach "$WT" HEAD || continue
  cp /repo/src/nanite/_version.py "$WT/src/nanite/_version.py"; cp "$T/demo_${id}${SUF}.py" "$WT/"
  ( cd "$WT"
    DW0=$(PYTHONPATH="$WT/src" timeout 900 /venv/bin/python "demo_${id}${SUF}.py" >/dev/null 2>&1; echo $?)
    if git apply --check "$T/patch.diff" 2>/dev/null; then AP=true; git apply "$T/patch.diff"; else AP=false; fi
    DW1=$(PYTHONPATH="$WT/src" timeout 900 /venv/bin/python "demo_${id}${SUF}.py" >/dev/null 2>&1; echo $?)
    SUITE=$(PYTHONPATH="$WT/src" /venv/bin/python -m pytest -q -p no:cacheprovider --timeout=900 tests 2>&1 | tail -1)
    cd "$HERE"
    OUT=$(VF_REPO="$WT" VF_JOBS=4 ./check "$id" --tier quick 2>&1); EX=$?
    LINES=$(echo "$OUT" | grep -E "^(VIOLATION|UNDECIDED|INTERNAL|C[0-9]+ tier)" | grep -v vanished | head -8)
    /venv/bin/python - "$T" "$id" "$AP" "$DW0" "$DW1" "$SUITE" "$EX" <<PY
import json, sys, subprocess
t, prop, ap, d0, d1, suite, ex = sys.argv[1:8]
ex = int(ex)
out = {"property": prop, "applies_to_repo_head": ap == "true",
       "repo_head": subprocess.run(["git", "-C", "/repo", "log", "--format=%h", "-n1"], capture_output=True, text=True).stdout.strip(),
       "demo_exit_without_change": int(d0), "demo_exit_with_change": int(d1), "suite_with_change": suite,
       "confirmed_harmless": ap == "true" and int(d0) == 0 and int(d1) == 0 and "176 passed" in suite,
       "check_exit_on_changed_tree": ex,
       "verdict": {0: "silent", 1: "FALSE-ALARM", 2: "undecided"}.get(ex, f"exit {ex}"),
       "check_lines": """$LINES""".splitlines()}
json.dump(out, open(t + "/confirm.json", "w"), indent=1)
print(prop, t.split("/")[-1], "harmless" if out["confirmed_harmless"] else "NOT-CONFIRMED", out["verdict"], "|", suite)
PY
  )
  git -C /repo worktree remove --force "$WT" >/dev/null 2>&1; rm -rf "$WT"
done
