#!/usr/bin/env python3
"""Every canary's anchor text must occur exactly once in the current source (run with .venv/bin/python and
PYTHONPATH=/repo/src:/verif VF_REPO=/repo); prints the stale ones."""
import importlib
import pathlib
import os
import sys

repo = pathlib.Path(os.environ.get("VF_REPO", "/repo"))
bad = 0
for i in range(2, 21):
    m = importlib.import_module(f"vf.contracts.c{i:02d}")
    for c in getattr(m, "CANARIES", []):
        t = (repo / "src" / "nanite" / c["file"]).read_text()
        if t.count(c["old"]) != 1:
            print(f"C{i:02d}", c["name"], "anchor occurs", t.count(c["old"]), "times")
            bad += 1
print("stale canaries:", bad)
sys.exit(1 if bad else 0)
