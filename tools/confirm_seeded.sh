#!/usr/bin/env bash
# usage: tools/confirm_seeded.sh <seeded dir name, e.g. C02-a>
# Confirms a seeded change in a scratch worktree of /repo (HEAD): patch applies, the unedited suite passes with
# it, the demonstration fails with it and passes without it; then runs the property's quick check against the
# patched worktree.  Writes seeded/<name>/confirm.json.  The worktree is removed afterwards.
set -u
NAME="$1"; HERE="$(cd "$(dirname "${BASH_SOURCE[0]}")/.." && pwd)"; D="$HERE/seeded/$NAME"
PROP="${NAME%%-*}"
PATCH="$D/patch.diff"; [ -f "$D/patch.rebased.diff" ] && PATCH="$D/patch.rebased.diff"
WT="$(mktemp -d /tmp/vf-seed-XXXXXX)"; rmdir "$WT"
git -C /repo worktree add -q --detach "$WT" HEAD || exit 9
trap 'git -C /repo worktree remove --force "$WT" >/dev/null 2>&1; rm -rf "$WT"' EXIT
cp /repo/src/nanite/_version.py "$WT/src/nanite/_version.py"
DEMO="$(ls "$D"/demo_*.py | head -1)"
cp "$DEMO" "$WT/"
cd "$WT"
run_demo() { PYTHONPATH="$WT/src" timeout 900 /venv/bin/python "$WT/$(basename "$DEMO")" >/tmp/$$.demo 2>&1; echo $?; }
DEMO_WITHOUT=$(run_demo)
if git apply --check "$PATCH" 2>/dev/null; then APPLIES=true; git apply "$PATCH"; else APPLIES=false; fi
if $APPLIES; then
  DEMO_WITH=$(run_demo); TAIL_WITH="$(tail -2 /tmp/$$.demo | tr '\n' ' ' | cut -c1-300)"
  SUITE=$(PYTHONPATH="$WT/src" /venv/bin/python -m pytest -q -p no:cacheprovider --timeout=900 tests 2>&1 | tail -1)
  cd "$HERE"
  VF_REPO="$WT" VF_JOBS=4 ./check "$PROP" --tier quick >/tmp/$$.check 2>&1; CHECK_EXIT=$?
  CHECK_OUT=$(grep -E "^(VIOLATION|UNDECIDED|INTERNAL|C[0-9]+ tier)" /tmp/$$.check | head -8); rm -f /tmp/$$.check
else
  DEMO_WITH=-1; TAIL_WITH=""; SUITE="patch does not apply to /repo HEAD"; CHECK_OUT=""; CHECK_EXIT=-1
fi
rm -f /tmp/$$.demo
/venv/bin/python - "$D" "$PROP" "$APPLIES" "$DEMO_WITHOUT" "$DEMO_WITH" "$SUITE" "$CHECK_EXIT" "$TAIL_WITH" "$(basename "$PATCH")" <<PY
import json, sys, subprocess
d, prop, applies, dwo, dw, suite, cexit, tail, patch = sys.argv[1:10]
out = {"property": prop, "patch": patch, "applies_to_repo_head": applies == "true",
       "repo_head": subprocess.run(["git", "-C", "/repo", "log", "--format=%h", "-n1"], capture_output=True, text=True).stdout.strip(),
       "demo_exit_without_change": int(dwo), "demo_exit_with_change": int(dw), "demo_tail_with_change": tail,
       "suite_with_change": suite, "check_exit_on_changed_tree": int(cexit),
       "check_lines": """$CHECK_OUT""".splitlines(),
       "confirmed": applies == "true" and int(dwo) == 0 and int(dw) == 1 and "176 passed" in suite,
       "detected": int(cexit) == 1}
json.dump(out, open(d + "/confirm.json", "w"), indent=1)
print(prop, d.split("/")[-1], "confirmed" if out["confirmed"] else "NOT-CONFIRMED", "detected" if out["detected"] else f"not-detected(exit {cexit})", "|", suite)
PY
