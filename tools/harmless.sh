#!/usr/bin/env bash
# usage: tools/harmless.sh [name-substring]
# Runs every behaviour-preserving refactor in harmless/<PROP>-*.diff through tools/mutant.sh with the quick check of
# <PROP>.  Expected: exit 0 (silent).  Exit 2 (undecided: the refactor left the supported subset) is reported but is
# not an alarm; exit 1 is a FALSE ALARM of the check and must be fixed in the machinery.
HERE="$(cd "$(dirname "${BASH_SOURCE[0]}")/.." && pwd)"; cd "$HERE"
rc=0
for d in harmless/*${1:-}*/; do f="$d/patch.diff"; [ -f "$d/patch.rebased.diff" ] && f="$d/patch.rebased.diff"
  b="$(basename "$(dirname "$f")")"; prop="${b%%-*}"
  # extra properties to run are listed in a first-line comment:  # also: C10 C11
  also="$(grep -m1 '^# also:' "$f" | sed 's/# also://')"
  for p in $prop $also; do
    out="$(tools/mutant.sh "$f" "$p" quick 2>&1)"; e="$(echo "$out" | grep -o 'exit=[0-9]*' | tail -1)"
    echo "$b $p $e"
    if [ "$e" = "exit=1" ]; then echo "$out" | grep '^VIOLATION' | head -3; rc=1; fi
    if [ "$e" = "exit=2" ]; then echo "$out" | grep '^UNDECIDED' | grep -v vanished | head -2; fi
  done
done
exit $rc
