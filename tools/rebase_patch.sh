#!/usr/bin/env bash
# usage: tools/rebase_patch.sh <dir with patch.diff>
# A seeded / harmless patch that no longer applies to /repo HEAD (because a later "fix:" commit touched the same
# lines) is carried forward mechanically: find the newest commit of /repo it applies to, commit it there in a scratch
# worktree, cherry-pick that commit onto HEAD (git's 3-way merge) and write the result as patch.rebased.diff.
# Conflicts are reported (exit 2) and nothing is written; they need a manual rebase.
set -u
D="$(realpath "$1")"; P="$D/patch.diff"
if git -C /repo apply --check "$P" 2>/dev/null; then echo "$(basename "$D"): applies to HEAD"; rm -f "$D/patch.rebased.diff"; exit 0; fi
if [ -f "$D/patch.rebased.diff" ] && git -C /repo apply --check "$D/patch.rebased.diff" 2>/dev/null; then echo "$(basename "$D"): rebased patch applies to HEAD"; exit 0; fi
WT="$(mktemp -d /tmp/vf-rebase-XXXXXX)"; rmdir "$WT"
trap 'git -C /repo worktree remove --force "$WT" >/dev/null 2>&1; rm -rf "$WT"; git -C /repo worktree prune' EXIT
for c in $(git -C /repo log --format=%h -n 40); do
  git -C /repo worktree add -q --detach "$WT" "$c" 2>/dev/null || continue
  if git -C "$WT" apply --check "$P" 2>/dev/null; then
    git -C "$WT" apply "$P"; git -C "$WT" add -A; git -C "$WT" -c user.name=x -c user.email=x@x commit -q -m seeded
    M="$(git -C "$WT" rev-parse HEAD)"
    git -C "$WT" checkout -q --detach "$(git -C /repo rev-parse HEAD)"
    if git -C "$WT" -c user.name=x -c user.email=x@x cherry-pick "$M" >/dev/null 2>&1; then
      git -C "$WT" diff HEAD~1 HEAD > "$D/patch.rebased.diff"
      echo "$(basename "$D"): rebased from $c onto $(git -C /repo log --format=%h -n1)"; exit 0
    else
      echo "$(basename "$D"): CONFLICT rebasing from $c"; git -C "$WT" diff --name-only --diff-filter=U; exit 2
    fi
  fi
  git -C /repo worktree remove --force "$WT" >/dev/null 2>&1
done
echo "$(basename "$D"): applies to none of the last 40 commits"; exit 3
