#!/usr/bin/env bash
# usage: tools/mutant.sh <patch.diff> <PROP> [tier] [extra check args]
# Applies the patch to a scratch copy of /repo (outside /repo and /verif), runs the check
# against it (VF_REPO), prints the verdict, removes the copy.
set -u
PATCH="$(realpath "$1")"; PROP="$2"; TIER="${3:-quick}"; shift; shift; shift || true
HERE="$(cd "$(dirname "${BASH_SOURCE[0]}")/.." && pwd)"
S="$(mktemp -d /tmp/vf-mut-XXXXXX)"
trap 'rm -rf "$S"' EXIT
mkdir -p "$S/repo"
if [ -n "${MUT_BASE:-}" ]; then
  git -C /repo archive "$MUT_BASE" src tests pyproject.toml | tar -x -C "$S/repo"
  cp /repo/src/nanite/_version.py "$S/repo/src/nanite/_version.py"
else
  cp -r /repo/src /repo/tests /repo/pyproject.toml "$S/repo/" 2>/dev/null
fi
( cd "$S/repo" && git init -q . && git apply --whitespace=nowarn "$PATCH" ) || { echo "patch failed"; exit 9; }
cd "$HERE" && VF_REPO="$S/repo" ./check "$PROP" --tier "$TIER" "$@"
echo "exit=$?"
