#!/usr/bin/env python3
"""Print the as-built status table from evidence/*.json and MANIFEST.json."""
import json
import pathlib

HERE = pathlib.Path(__file__).resolve().parent.parent
man = json.loads((HERE / "MANIFEST.json").read_text())
lev = {p["property_id"]: p["level_claimed"]["category"] for p in man["checks"]}
print("| id | level | obligations discharged (back ends) | bounded stand-ins (evaluations) | functions under contract "
      "(+ inlined) | known findings | quick wall |")
print("|---|---|---|---|---|---|---|")
for f in sorted((HERE / "evidence").glob("C*.json")):
    d = json.loads(f.read_text())
    c = d["coverage"]
    fu = c.get("functions_under_contract", [])
    top = [x for x in fu if x.get("role") != "inlined"]
    be = ", ".join(f"{k} {v}" for k, v in sorted(c.get("backends", {}).items(), key=lambda kv: -kv[1]))
    bd = "; ".join(f"`{b['bid'].split('.', 2)[2]}` ({b['evaluations']})" for b in c.get("bounded", [])) or "—"
    print(f"| {d['property_id']} | {lev.get(d['property_id'], '?')} | {c['discharged']}/{c['obligations']} ({be}) | {bd} | "
          f"{len(top)} (+{len(fu) - len(top)}) | {c.get('refuted_known_findings', 0)} | {d.get('wall_s', '?')} s |")
