#!/usr/bin/env bash
# copies finished round-2 seeded changes from /tmp/s2-CNN into seeded/CNN-b and confirms them
set -u
HERE="$(cd "$(dirname "${BASH_SOURCE[0]}")/.." && pwd)"
for d in /tmp/s2-C*; do
  id="$(basename "$d" | sed 's/s2-//')"
  [ -f "$d/patch.diff" ] && [ -f "$d/meta.json" ] && [ -f "$d/demo_${id}b.py" ] || continue
  [ -d "$HERE/seeded/$id-b" ] && continue
  mkdir -p "$HERE/seeded/$id-b"
  cp "$d/patch.diff" "$HERE/seeded/$id-b/patch.diff"
  cp "$d/demo_${id}b.py" "$HERE/seeded/$id-b/"
  cp "$d/meta.json" "$HERE/seeded/$id-b/meta.agent.json"
  "$HERE/tools/confirm_seeded.sh" "$id-b"
done
