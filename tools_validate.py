"""Validate MANIFEST.json and evidence/*.json against the schemas."""
import json, sys, pathlib, jsonschema
here = pathlib.Path(__file__).parent
man = json.load(open(here / "MANIFEST.json"))
jsonschema.validate(man, json.load(open("/root/.vp/MANIFEST.schema.json")))
props = [json.loads(l)["id"] for l in open(here / "properties.jsonl")]
claimed = [c["property_id"] for c in man["checks"]]
na = [n["property_id"] for n in man.get("not_applicable", [])]
assert sorted(claimed + na) == sorted(props), (sorted(set(props) - set(claimed) - set(na)), [p for p in claimed if p in na])
es = json.load(open("/root/.vp/EVIDENCE.schema.json"))
for c in man["checks"]:
    p = here / c["evidence_file"].replace("/verif/", "")
    if p.exists():
        ev = json.load(open(p))
        jsonschema.validate(ev, es)
        assert ev["level"] == c["level_claimed"]["category"], (c["property_id"], ev["level"])
    else:
        print("missing evidence", p)
print("manifest ok:", len(claimed), "claimed,", len(na), "not applicable")
