"""Shared data types of the verification framework.

An *obligation* is one named proof goal (``<property>.<function>.<clause>``).
It is decided per path of the function under contract and aggregated:
discharged on every path -> DISCHARGED, refuted on some path -> REFUTED,
otherwise UNDECIDED.  Bounded (run-time) cases are kept apart and are never
counted as discharged.
"""
from __future__ import annotations

import dataclasses
import os
import pathlib
from typing import Any

HERE = pathlib.Path(__file__).resolve().parent.parent
REPO = pathlib.Path(os.environ.get("VF_REPO", "/repo")).resolve()
SRC = REPO / "src" / "nanite"

DISCHARGED = "discharged"
REFUTED = "refuted"
UNDECIDED = "undecided"


class Unsupported(Exception):
    """A construct outside the verified subset: the obligation is undecided."""


@dataclasses.dataclass
class ObResult:
    oid: str                      # obligation id
    status: str                   # DISCHARGED / REFUTED / UNDECIDED
    backend: str = ""             # z3 / cvc5 / eval / syntactic
    time_s: float = 0.0
    paths: int = 0                # number of paths the clause was decided on
    detail: str = ""              # reason / solver output (short)
    model: dict | None = None     # counter-model (JSON-able) when refuted
    witness: str = ""             # witness signature used to match findings
    replay: dict | None = None    # outcome of the native replay

    def to_json(self):
        return dataclasses.asdict(self)


@dataclasses.dataclass
class BoundedResult:
    bid: str                      # id of the bounded clause
    ok: bool
    evaluations: int = 0
    distinct: int = 0
    bound: str = ""               # the stated bound
    detail: str = ""
    witness: str = ""
    samples: list = dataclasses.field(default_factory=list)
    failing_input: Any = None
    time_s: float = 0.0

    def to_json(self):
        return dataclasses.asdict(self)


@dataclasses.dataclass
class UnitResult:
    """Result of one verification unit (one function under contract, one
    lemma, or one bounded stand-in)."""
    unit: str
    functions: list = dataclasses.field(default_factory=list)   # dicts: name,file,lines,ast_sha256,inlined
    obligations: list = dataclasses.field(default_factory=list)  # ObResult
    bounded: list = dataclasses.field(default_factory=list)      # BoundedResult
    assumptions: list = dataclasses.field(default_factory=list)  # strings
    trusted: list = dataclasses.field(default_factory=list)      # strings
    error: str = ""               # internal error text (exit 3)
    time_s: float = 0.0
    notes: list = dataclasses.field(default_factory=list)

    def to_json(self):
        d = dataclasses.asdict(self)
        return d
