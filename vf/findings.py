"""KNOWN_FINDINGS.txt: committed, read-only at run time.

  finding: property=<id> key=<obligation id>#<witness signature> <what fails>
  fixed: property=<id> <commit> <what failed>

Only ``finding:`` lines suppress anything, and only the exact
(obligation, witness) pair they name.
"""
import re
from .core import HERE

_RX = re.compile(r"^finding:\s+property=(\S+)\s+key=(\S+?)#(\S*)\s+(.*)$")


def load():
    p = HERE / "KNOWN_FINDINGS.txt"
    out = []
    if p.exists():
        for line in p.read_text().splitlines():
            m = _RX.match(line.strip())
            if m:
                out.append({"property": m.group(1), "oid": m.group(2),
                            "witness": m.group(3), "text": m.group(4)})
    return out


def match(known, prop, oid, witness):
    for k in known:
        if k["property"] == prop and k["oid"] == oid and k["witness"] == (witness or ""):
            return k
    return None
