"""Contracts on nanite/indent.py: Indentation.apply_preprocessing, fit_model, rate_quality,
get_initial_fit_parameters (shared by C03, C06, C09, C10).

The curve object is built directly (afmformats' constructor is not involved): its columns,
fit properties, remembered pipeline, details and rating are symbolic.  Callees that have their
own contract are NOT executed: preproc.apply (C14/C06), IndentationFitter (C04/C05/C11),
get_rater/rate (C09/C17), guess_initial_parameters (C18) are replaced by their contracts, which
also record how they were called (call-site obligations).
"""
from __future__ import annotations

import z3

from ..unit import Unit
from ..engine.prove import Session
from ..engine import symex as sx
from ..engine import values as V
from ..engine.values import SAtom, SReal, SBool, SInt
from ..engine.arrays import SArray
from . import fpstate as F

MOD = "nanite.indent"


def _mk_indentation(I, fp):
    """an Indentation instance with symbolic state (no afmformats constructor)"""
    mod = I.module(MOD)
    cls = mod.env.vars["Indentation"]
    base = cls.bases[0]
    cols = sx.SDict()

    def setitem(I, self, k, v):
        self.attrs["columns"].d[k] = [True, v]
        I.ghost.setdefault("column_writes", []).append(k)
    base.ns["__setitem__"] = sx.Builtin("AFMData.__setitem__", setitem)
    base.ns["__contains__"] = sx.Builtin("AFMData.__contains__",
                                         lambda I, self, k: I.contains(self.attrs["columns"], k))
    base.ns["__getitem__"] = sx.Builtin("AFMData.__getitem__",
                                        lambda I, self, k: I.getitem(self.attrs["columns"], k))
    o = sx.Obj(cls)
    o.attrs.update(_fit_properties=fp, columns=cols, _rating=None, preprocessing=[],
                   preprocessing_options=sx.SDict(), _preprocessing_details=sx.SDict())
    return o, cls


_IDS = {}


_ORIGIN = {}


def to_val(objmap, key, obj):
    """Val (terms) of whatever object is stored under a settings key (copies are followed back
    to the value they were made from)"""
    v = objmap.get(id(obj))
    seen = 0
    cur = obj
    while v is None and id(cur) in _ORIGIN and seen < 10:
        cur = _ORIGIN[id(cur)]
        v = objmap.get(id(cur))
        seen += 1
    if v is not None:
        return v
    if obj is None:
        return F.Val(key, None, {}, none=True)
    if isinstance(obj, str):
        return F.Val(key, obj, {"": z3.IntVal(V.str_code(obj))})
    # unknown object: compared by identity
    _IDS.setdefault(id(obj), len(_IDS) + 1000)
    return F.Val(key, obj, {"identity": z3.IntVal(_IDS[id(obj)])})


def snapshot_settings(fp, objmap, fpd):
    out = {}
    for k in fpd:
        e = fp.map.d.get(k)
        p = F.presence_term(fp, k)
        v = to_val(objmap, k, e[1]) if (e is not None and e[0] is not False) else None
        out[k] = (p, v)
    return out


def _settings_term(I, fp, objmap, fpd, ghost):
    """fp's settings equal the ghost snapshot (presence and fit-relevant value, key by key)"""
    parts = []
    cur = snapshot_settings(fp, objmap, fpd)
    for k in fpd:
        gp, gv = ghost[k]
        cp, cv = cur[k]
        gp = gp if not isinstance(gp, bool) else z3.BoolVal(gp)
        parts.append(cp == gp)
        if cv is not None and gv is not None:
            if set(cv.terms) != set(gv.terms) and not (cv.none or gv.none):
                same = z3.BoolVal(False)
            else:
                same = F.fit_relevant_eq(cv, gv)
            parts.append(z3.Implies(cp, same))
    return z3.And(*parts)


# =================================================================== apply_preprocessing
def unit_apply_preprocessing(prop, tier=None, seed=None):
    S = Session(prop, "apply_preprocessing", f"{MOD}:Indentation.apply_preprocessing")
    st = {}

    def setup(I):
        tied = z3.Bool("old_has_pipeline")
        fp, vals, pres, fpd, res = F.sym_fp(I, "old", present={"preprocessing": tied,
                                                               "preprocessing_options": tied})
        idnt, cls = _mk_indentation(I, fp)
        # remembered defaults on the object
        rem_steps = F.sym_value(I, "preprocessing", "rem")
        rem_opts = F.sym_value(I, "preprocessing_options", "rem")
        idnt.attrs["preprocessing"] = rem_steps.obj
        idnt.attrs["preprocessing_options"] = rem_opts.obj
        details_nonempty = I.fork(z3.Bool("details_present"))
        idnt.attrs["_preprocessing_details"] = sx.SDict([("x", 1)]) if details_nonempty else sx.SDict()
        has_rating = I.fork(z3.Bool("has_rating"))
        rating0 = ("h", "r", "t", None, None, 1) if has_rating else None
        idnt.attrs["_rating"] = rating0
        # the request
        variants = ["steps+options", "steps+empty_options", "steps_only", "nothing", "one_step"]
        vi = I.choose([z3.Int("request_variant") == i for i in range(len(variants))])
        if vi >= len(variants):
            raise sx.PathAbort()
        variant = variants[vi]
        req_steps = F.sym_value(I, "preprocessing", "req")
        req_opts = F.sym_value(I, "preprocessing_options", "req")
        a_steps, a_opts = req_steps.obj, req_opts.obj
        eff_steps, eff_opts = req_steps, req_opts
        if variant == "steps+empty_options":
            a_opts = sx.SDict()
            eff_opts = F.Val("preprocessing_options", a_opts, {"empty": z3.IntVal(1)})
        elif variant == "steps_only":
            a_opts = None
            eff_opts = rem_opts
        elif variant == "nothing":
            a_steps, a_opts = None, None
            eff_steps, eff_opts = rem_steps, rem_opts
        elif variant == "one_step":
            a_steps = [a_steps[0]]
            eff_steps = F.Val("preprocessing", a_steps, {"0": req_steps.terms["0"], "len1": z3.IntVal(1)})
        ret_details = I.fork(z3.Bool("ret_details"))
        apply_raises = z3.Bool("request_is_rejected")
        calls = []

        def apply_contract(I, fv, args, kwargs):
            calls.append(dict(kwargs, _args=args))
            st["fp_at_apply"] = F.snapshot(fp)
            if I.fork(apply_raises):
                st["columns"] = "unspecified (pipeline aborted part-way)"
                # a rejection surfaces as whatever the step / lookup raises: unknown step (KeyError), missing
                # prerequisite or invalid option value (ValueError), invalid option name (TypeError), ...
                classes = ["ValueError", "KeyError", "TypeError", "Exception"]
                ci = I.choose([z3.Int("rejection_class") == i for i in range(len(classes) - 1)])
                st["rejection_class"] = classes[ci]
                I.raise_py(classes[ci], "rejected")
            st["columns"] = (kwargs.get("identifiers"), kwargs.get("options"))
            return sx.SDict([("d", 1)]) if kwargs.get("ret_details") else None
        I.contracts["nanite.preproc:apply"] = apply_contract
        # AFMData.reset_data restores the recorded raw data (assumed contract of afmformats)
        idnt.cls.bases[0].ns["reset_data"] = sx.Builtin("AFMData.reset_data",
                                                        lambda I, self: st.__setitem__("columns", "raw"))
        snap = F.snapshot(fp)
        st.update(fp=fp, vals=vals, pres=pres, fpd=fpd, res=res, idnt=idnt, tied=tied, snap=snap, calls=calls,
                  variant=variant, eff_steps=eff_steps, eff_opts=eff_opts, a_steps=a_steps, a_opts=a_opts,
                  ret_details=ret_details, details_nonempty=details_nonempty, rating0=rating0,
                  rem_steps=rem_steps, rem_opts=rem_opts, columns="as before")
        f, _ = cls.find("apply_preprocessing")
        return sx.BoundMethod(idnt, f), [], dict(preprocessing=a_steps, options=a_opts, ret_details=ret_details)

    def eqv(a, b):
        """by-value equality of two pipeline values incl. shape variants"""
        if set(a.terms) != set(b.terms):
            return z3.BoolVal(False)
        return F.eq_term(a, b)

    def post(S, out):
        I = S.I
        fp, vals, idnt, calls = st["fp"], st["vals"], st["idnt"], st["calls"]
        es, eo = st["eff_steps"], st["eff_opts"]
        case = {"variant": st["variant"], "ret_details": st["ret_details"], "outcome": repr(out),
                "apply_called": len(calls)}
        same_req = z3.And(st["tied"], eqv(vals["preprocessing"], es), eqv(vals["preprocessing_options"], eo))
        need_details = z3.BoolVal(bool(st["ret_details"] and not st["details_nonempty"]))
        must_apply = z3.Or(z3.Not(same_req), need_details)
        # --- C06: skip-if-unchanged / re-apply otherwise
        if prop == "C07":
            # (C07: the steps must be run with the requested steps and option values -- or not at all when the
            #  request is the one the columns already hold)
            if calls:
                c = calls[-1]
                S.ensure("apply_gets_this_curve_and_the_request",
                         c.get("apret") is idnt and not c["_args"]
                         and I.truth(I.equals(c.get("identifiers"), es.obj))
                         and I.truth(I.equals(c.get("options"), eo.obj)), case=case)
            else:
                S.ensure("same_request_changes_nothing", z3.Not(must_apply), case=case)
        if prop in ("C06", "C03"):
            if calls:
                S.ensure("reapplied_only_when_needed", must_apply, case=case)
                c = calls[-1]      # (how often preproc.apply runs is not part of the property; the last run counts)
                S.ensure("apply_gets_this_curve_and_the_request",
                         c.get("apret") is idnt and not c["_args"]
                         and I.truth(I.equals(c.get("identifiers"), es.obj))
                         and I.truth(I.equals(c.get("options"), eo.obj)), case=case)
            else:
                S.ensure("same_request_changes_nothing", z3.Not(must_apply), case=case)
                S.ensure("same_request_keeps_fit_properties",
                         all(F.entry_unchanged(fp, st["snap"], k) for k in st["snap"]), case=case)
                S.ensure("same_request_keeps_rating", idnt.attrs["_rating"] is st["rating0"], case=case)
        stored_steps = fp.map.d.get("preprocessing")
        stored_opts = fp.map.d.get("preprocessing_options")

        def remembered_is_request():
            if stored_steps is None or stored_steps[0] is False or stored_opts is None or stored_opts[0] is False:
                return z3.BoolVal(False)
            a = I._truthval(I.equals(stored_steps[1], es.obj))
            b = I._truthval(I.equals(stored_opts[1], eo.obj))
            pa = F.presence_term(fp, "preprocessing")
            return z3.And(pa, V.bterm(a) if not isinstance(a, bool) else z3.BoolVal(a),
                          V.bterm(b) if not isinstance(b, bool) else z3.BoolVal(b))
        if out.kind == "return":
            if prop in ("C06", "C03"):
                # I1: what is remembered is what the data columns hold (C03 needs it too: a remembered
                # pipeline that differs from the request makes every repetition re-apply and refit)
                S.ensure("remembered_pipeline_is_the_request", remembered_is_request(), case=case)
            if prop == "C06":
                if calls:
                    S.ensure("columns_hold_the_remembered_pipeline",
                             isinstance(st["columns"], tuple) and I.truth(I.equals(st["columns"][0], es.obj))
                             and I.truth(I.equals(st["columns"][1], eo.obj)), case=case)
                S.ensure("object_remembers_request",
                         I.truth(I.equals(idnt.attrs["preprocessing"], es.obj))
                         and I.truth(I.equals(idnt.attrs["preprocessing_options"], eo.obj)), case=case)
            if prop == "C03" and calls:
                for r in st["res"]:
                    S.ensure("changed_pipeline_drops_results", z3.Not(F.presence_term(fp, r)), witness=r)
                S.ensure("changed_pipeline_drops_rating", idnt.attrs["_rating"] is None, case=case)
            if prop == "C09" and calls:
                S.ensure("rating_reset_on_preprocessing_change", idnt.attrs["_rating"] is None, case=case)
            if prop in ("C10", "C06", "C03"):
                # (C06/C03: the request a later call is compared with must be the curve's own copy; otherwise an
                #  in-place edit of the caller's options makes the next, different, request look "unchanged" and the
                #  columns no longer depend on the options only)
                for label, stored in (("fit_properties.preprocessing", stored_steps and stored_steps[1]),
                                      ("fit_properties.preprocessing_options", stored_opts and stored_opts[1]),
                                      ("attribute.preprocessing", idnt.attrs["preprocessing"]),
                                      ("attribute.preprocessing_options", idnt.attrs["preprocessing_options"])):
                    caller = st["a_steps"] if label.endswith("preprocessing") else st["a_opts"]
                    if caller is None or not calls:
                        continue
                    inner = caller.d["correct_tip_offset"][1] if isinstance(caller, sx.SDict) and caller.d else None
                    alias = stored is caller or (inner is not None and isinstance(stored, sx.SDict)
                                                 and stored.d.get("correct_tip_offset", [0, None])[1] is inner)
                    S.ensure(f"owns.{label}", not alias, case=dict(case, stored=label), witness=label)
        else:
            if prop == "C06":
                # a rejected request is never remembered as applied
                case = dict(case, rejection_class=st.get("rejection_class"))
                S.ensure("rejected_request_not_remembered", z3.Not(remembered_is_request()), case=case,
                         witness="fit_properties")
                # ... and nothing else may be claimed for the half-processed columns either
                S.ensure("no_pipeline_claimed_after_rejection",
                         z3.Not(F.presence_term(fp, "preprocessing")), case=case, witness="fit_properties")
            if prop in ("C06", "C03"):
                # representation invariant of a curve: "no pipeline stored" means "the columns are the recorded raw
                # data" (a later fit_model() fills in preprocessing=[] for the results it shows) -- a rejected
                # request must not leave the half-processed columns behind
                S.ensure("rejected_request_leaves_the_raw_data", st["columns"] in ("raw", "as before")
                         and (st["columns"] == "raw" or not calls),
                         case=dict(case, columns=str(st["columns"])), witness="columns")
            if prop == "C03":
                for r in st["res"]:
                    S.ensure("rejected_request_leaves_no_results", z3.Not(F.presence_term(fp, r)), witness=r)
        if prop == "C10":
            # frame: the caller's list / dict are never written to
            for obj in (st["a_steps"], st["a_opts"]):
                if obj is None:
                    continue
                inner = obj.d["correct_tip_offset"][1] if isinstance(obj, sx.SDict) and obj.d else None
                S.ensure("frame.request_objects",
                         not any(m is obj or (inner is not None and m is inner) for m in I.mutations), case=case)

    S.run(setup, post)
    return S.finish(replay=lambda ob: replay(ob))


# =================================================================== fit_model
def unit_fit_model(prop, tier=None, seed=None):
    S = Session(prop, "fit_model", f"{MOD}:Indentation.fit_model")
    st = {}
    KW = ["weight_cp", "model_key", "range_x", "params_initial"]

    def setup(I):
        st.pop("fitter_kwargs", None)
        st.pop("guesses", None)
        fp, vals, pres, fpd, res = F.sym_fp(I, "old")
        idnt, cls = _mk_indentation(I, fp)
        objmap = {id(v.obj): v for v in vals.values()}
        # which keyword arguments are passed (every subset of 4 representative settings, + an unknown one)
        kwargs, new = {}, {}
        subsets = [[], ["weight_cp"], ["model_key"], ["range_x"], ["params_initial"],
                   ["model_key", "params_initial"], list(KW)]
        si = I.choose([z3.Int("kwargs_subset") == i for i in range(len(subsets))])
        if si >= len(subsets):
            raise sx.PathAbort()
        for k in KW:
            if k in subsets[si]:
                nv = F.sym_value(I, k, "kw")
                new[k] = nv
                kwargs[k] = nv.obj
                objmap[id(nv.obj)] = nv
        bad_kw = I.fork(z3.Bool("passes_unknown_keyword"))
        if bad_kw:
            kwargs["zzz_not_a_setting"] = 1
        if "params_initial" in pres and I.fork(z3.Bool("old_params_is_None")):
            vals["params_initial"].none = True
            if "params_initial" in fp.map.d:
                fp.map.d["params_initial"][1] = None
        # ghost I2 (assumed on entry): results present => they were computed from exactly the stored settings
        ghost = {k: (pres[k] if not isinstance(pres[k], bool) else z3.BoolVal(pres[k]), vals[k]) for k in fpd}
        st["ghost_src"] = ("entry", ghost)
        fitters = []

        def guess_contract(I, fv, args, kwargs_):
            g = F.sym_value(I, "params_initial", f"guess{len(objmap)}")
            objmap[id(g.obj)] = g
            st.setdefault("guesses", []).append(g)
            return g.obj
        I.contracts["nanite.fit:guess_initial_parameters"] = guess_contract

        fitcls = I.module("nanite.fit").env.vars["IndentationFitter"]
        fpcls = I.module("nanite.fit").env.vars["FitProperties"]

        def fitter_ctor(I, self, idnt_arg, **kw):
            # contract of IndentationFitter(idnt): private copy of the current settings + hash;
            # fit() adds the results, which are a function of (columns, settings)
            _ORIGIN.clear()
            _ORIGIN.update(I.copy_origin)
            src = snapshot_settings(fp, objmap, fpd)
            st["ghost_src"] = ("fitter", src)
            nfp = sx.Obj(fpcls)
            nfp.map = sx.SDict()
            for k in fpd:
                e = fp.map.d.get(k)
                if e is not None and e[0] is not False:
                    nfp.map.d[k] = [e[0], e[1]]
            nfp.map.d["hash"] = [True, sx.Opaque("hash-of-current-settings")]
            self.attrs.update(fp=nfp, fit_curve=sx.Opaque("fit curve"), fit_residuals=sx.Opaque("fit residuals"),
                              fit_range=sx.Opaque("fit range"), idnt=idnt_arg)
            fitters.append(self)
            if kw:
                st["fitter_kwargs"] = kw
        fitcls.ns["__init__"] = sx.Builtin("IndentationFitter.__init__", fitter_ctor)

        def fitter_fit(I, self):
            for r in ("success", "params_fitted", "chi_sqr", "xmin", "xmax"):
                self.attrs["fp"].map.d[r] = [True, sx.Opaque(f"result:{r}")]
            self.attrs["fitted"] = True
        fitcls.ns["fit"] = sx.Builtin("IndentationFitter.fit", fitter_fit)
        for k in ("hash", "model_key", "params_initial", "weight_cp", "range_x", "optimal_fit_edelta"):
            if not isinstance(pres[k], bool):
                S.names[f"old_has_{k}"] = pres[k]
        for k, nv in new.items():
            for tn, t in nv.terms.items():
                S.names[f"kw_{k}_{tn}"] = t
                if tn in vals[k].terms:
                    S.names[f"old_{k}_{tn}"] = vals[k].terms[tn]
        snap = F.snapshot(fp)
        st.update(fp=fp, vals=vals, pres=pres, fpd=fpd, res=res, idnt=idnt, new=new, kwargs=kwargs, bad_kw=bad_kw,
                  objmap=objmap, fitters=fitters, snap=snap)
        f, _ = cls.find("fit_model")
        return sx.BoundMethod(idnt, f), [], kwargs

    def post(S, out):
        I = S.I
        fp, vals, pres, fpd, res, new = st["fp"], st["vals"], st["pres"], st["fpd"], st["res"], st["new"]
        fitters, objmap = st["fitters"], st["objmap"]
        _ORIGIN.clear()
        _ORIGIN.update(I.copy_origin)
        case = {"kwargs": sorted(st["kwargs"]), "outcome": repr(out), "fitters_built": len(fitters)}
        had_hash = pres["hash"]
        # were all passed settings equal (fit-relevant) to the stored ones?
        unchanged = []
        for k, nv in new.items():
            ov = vals[k]
            unchanged.append(z3.And(pres[k], F.fit_relevant_eq(ov, nv) if k != "range_x" else z3.Or(
                F.eq_term(ov, nv), z3.And(pres["optimal_fit_edelta"], vals["optimal_fit_edelta"].terms[""],
                                          ov.terms["hi"] == nv.terms["hi"]))))
        all_unchanged = z3.And(*unchanged) if unchanged else z3.BoolVal(True)
        identical = z3.And(*[z3.And(pres[k], F.eq_term(vals[k], nv)) for k, nv in new.items()]) \
            if new else z3.BoolVal(True)
        ready = z3.And(pres["model_key"], pres["params_initial"],
                       z3.BoolVal(not vals["params_initial"].none))
        if out.kind == "return":
            S.ensure("unknown_keyword_rejected", not st["bad_kw"], case=case)
            S.ensure("results_present_after_fit_model", z3.And(F.presence_term(fp, "hash")), case=case)
            if fitters:
                # a refit happens only because something relevant changed or nothing was fitted yet
                S.ensure("no_new_optimisation_when_nothing_changed",
                         z3.Not(z3.And(had_hash, identical, ready)), case=case)
                # (the last fitter is the one whose results must be shown; how many were built is not pinned)
                S.ensure("fitter_on_this_curve", fitters[-1].attrs.get("idnt") is st["idnt"]
                         and fitters[-1].attrs.get("fitted") is True and "fitter_kwargs" not in st, case=case)
                for col in ("fit", "fit residuals", "fit range"):
                    e = st["idnt"].attrs["columns"].d.get(col)
                    want = fitters[-1].attrs[{"fit": "fit_curve", "fit residuals": "fit_residuals",
                                             "fit range": "fit_range"}[col]]
                    S.ensure("result_columns_from_this_fitter", e is not None and e[1] is want, case=case,
                             witness=col)
                for r in ("success", "params_fitted", "chi_sqr", "xmin", "xmax", "hash"):
                    e = fp.map.d.get(r)
                    want = fitters[-1].attrs["fp"].map.d[r][1]
                    S.ensure("result_keys_from_this_fitter", e is not None and e[0] is True and e[1] is want,
                             case=case, witness=r)
            else:
                S.ensure("refit_when_a_setting_changed", z3.And(had_hash, all_unchanged), case=case)
                S.ensure("repeating_changes_nothing",
                         all(F.entry_unchanged(fp, st["snap"], k) for k in st["snap"]
                             if k not in new and k not in ("params_initial", "model_key"))
                         and not I.ghost.get("column_writes"), case=case)
        else:
            if st["bad_kw"]:
                S.ensure("unknown_keyword_rejected", out.raises("FitKeyError"), case=case)
            else:
                S.fail("total_on_valid_keywords", repr(out), case=case)
        # I2 on every exit: results are only ever shown for the stored settings
        kind, ghost = st["ghost_src"]
        holds = _settings_term(I, fp, objmap, fpd, ghost)
        S.ensure("results_match_stored_settings", z3.Implies(F.presence_term(fp, "hash"), holds), case=case,
                 witness=kind)

    S.run(setup, post, max_paths=4000)
    return S.finish(replay=lambda ob: replay(ob))


# =================================================================== fit_model: preprocessing keywords
def unit_fit_model_preproc(prop, tier=None, seed=None):
    """fit_model(preprocessing=..., preprocessing_options=...): whatever part of a preprocessing request is given, the
    data that are fitted are preprocessed with it (the part not given is the curve's current one) BEFORE the fit --
    otherwise results are shown for preprocessing settings other than the stored ones (C03) and the columns do not
    depend on the options only (C06)."""
    S = Session(prop, "fit_model.preprocessing_keywords", f"{MOD}:Indentation.fit_model")
    st = {}

    def setup(I):
        fp, vals, pres, fpd, res = F.sym_fp(I, "old")
        idnt, cls = _mk_indentation(I, fp)
        cur_steps = F.sym_value(I, "preprocessing", "current").obj
        cur_opts = F.sym_value(I, "preprocessing_options", "current").obj
        idnt.attrs.update(preprocessing=cur_steps, preprocessing_options=cur_opts)
        which = I.choose([z3.Bool("only_the_pipeline_given"), z3.Bool("only_the_options_given"),
                          z3.Bool("pipeline_and_options_given")])
        if which > 2:
            raise sx.PathAbort()
        kwargs = {}
        if which in (0, 2):
            kwargs["preprocessing"] = F.sym_value(I, "preprocessing", "kw").obj
        if which in (1, 2):
            kwargs["preprocessing_options"] = F.sym_value(I, "preprocessing_options", "kw").obj
        calls, fitters = [], []

        def apply_contract(I, self, preprocessing=None, options=None, ret_details=False):
            calls.append(dict(preprocessing=preprocessing, options=options, fitters_before=len(fitters)))
            return sx.SDict()
        cls.ns["apply_preprocessing"] = sx.Builtin("Indentation.apply_preprocessing", apply_contract)
        I.contracts["nanite.fit:guess_initial_parameters"] = \
            lambda I, fv, a, k: F.sym_value(I, "params_initial", f"guess{len(calls)}").obj
        fitcls = I.module("nanite.fit").env.vars["IndentationFitter"]
        fpcls = I.module("nanite.fit").env.vars["FitProperties"]

        def fitter_ctor(I, self, idnt_arg, **kw):
            nfp = sx.Obj(fpcls)
            nfp.map = sx.SDict()
            for k in fpd:
                e = fp.map.d.get(k)
                if e is not None and e[0] is not False:
                    nfp.map.d[k] = [e[0], e[1]]
            nfp.map.d["hash"] = [True, sx.Opaque("hash-of-current-settings")]
            self.attrs.update(fp=nfp, fit_curve=sx.Opaque("fit curve"), fit_residuals=sx.Opaque("fit residuals"),
                              fit_range=sx.Opaque("fit range"), idnt=idnt_arg)
            fitters.append(self)
        fitcls.ns["__init__"] = sx.Builtin("IndentationFitter.__init__", fitter_ctor)

        def fitter_fit(I, self):
            for r in ("success", "params_fitted", "chi_sqr", "xmin", "xmax"):
                self.attrs["fp"].map.d[r] = [True, sx.Opaque(f"result:{r}")]
        fitcls.ns["fit"] = sx.Builtin("IndentationFitter.fit", fitter_fit)
        st.update(idnt=idnt, kwargs=kwargs, calls=calls, fitters=fitters, cur_steps=cur_steps, cur_opts=cur_opts,
                  which=which)
        f, _ = cls.find("fit_model")
        return sx.BoundMethod(idnt, f), [], kwargs

    def post(S, out):
        I = S.I
        kwargs, calls = st["kwargs"], st["calls"]
        case = {"given": sorted(kwargs), "outcome": repr(out), "apply_preprocessing_calls": len(calls)}
        if out.kind != "return":
            S.fail("returns", repr(out), case=case)
            return
        S.ok("returns")
        wit = ["pipeline_only", "options_only", "both"][st["which"]]
        if not calls:
            S.fail("preprocessing_request_applied_before_the_fit", "apply_preprocessing never called", case=case,
                   witness=wit)
            return
        c = calls[-1]
        want_steps = kwargs.get("preprocessing", st["cur_steps"])
        want_opts = kwargs.get("preprocessing_options", st["cur_opts"])
        ok = (c["preprocessing"] is want_steps or I.truth(I.equals(c["preprocessing"], want_steps))) \
            and (c["options"] is want_opts or I.truth(I.equals(c["options"], want_opts))) \
            and c["fitters_before"] == 0
        S.ensure("preprocessing_request_applied_before_the_fit", ok, case=case, witness=wit)

    S.run(setup, post)
    return S.finish(replay=lambda ob: replay(ob))


# =================================================================== rate_quality
def unit_rate_quality(prop, tier=None, seed=None):
    S = Session(prop, "rate_quality", f"{MOD}:Indentation.rate_quality")
    st = {}
    REG = ["none", "None", "NONE", "Extra Trees", "Random Forest"]

    def setup(I):
        st.pop("rate_datasets", None)
        fp, vals, pres, fpd, res = F.sym_fp(I, "old")
        hash0 = SAtom(z3.Int("old_hash_value"))
        if "hash" in fp.map.d:
            fp.map.d["hash"][1] = hash0
        idnt, cls = _mk_indentation(I, fp)
        ri = I.choose([z3.Int("regressor_choice") == i for i in range(len(REG))])
        if ri >= len(REG):
            raise sx.PathAbort()
        regressor = REG[ri]
        is_none = regressor.lower() == "none"
        if is_none:
            ts_kind, names_kind, lda_kind = 0, 0, 0
        else:
            ts_kind = I.choose([z3.Bool("training_set_is_label"), z3.Bool("training_set_is_in_memory")])
            if ts_kind > 1:
                raise sx.PathAbort()
            names_kind = I.choose([z3.Bool("names_is_None"), z3.Bool("names_is_list")])
            lda_kind = I.choose([z3.Bool("lda_is_None"), z3.Bool("lda_is_bool")])
            if names_kind > 1 or lda_kind > 1:
                raise sx.PathAbort()
        if ts_kind == 0:
            ts = SAtom(z3.Int("training_set"))
        else:
            from ..engine import arrays as A_
            ts = (A_.new_array_input(I, "X_new", length=SInt(z3.Int("nX"))),
                  A_.new_array_input(I, "y_new", length=SInt(z3.Int("nX"))))
            I.assume(z3.Int("nX") > 1)
        names = None if names_kind == 0 else [SAtom(z3.Int("name0")), SAtom(z3.Int("name1"))]
        lda = None if lda_kind == 0 else SBool(z3.Bool("lda"))
        # cached rating
        has_rating = I.fork(z3.Bool("has_cached_rating"))
        cached = None
        if has_rating:
            c_hash = SAtom(z3.Int("cached_hash"))
            ci = I.choose([z3.Int("cached_regressor") == i for i in range(3, len(REG))])
            if ci + 3 >= len(REG):
                raise sx.PathAbort()
            c_reg = REG[ci + 3]
            if ts_kind == 0:
                c_ts = SAtom(z3.Int("cached_training_set"))
            else:
                same_obj = I.fork(z3.Bool("cached_training_set_same_tuple"))
                from ..engine import arrays as A_
                c_ts = ts if same_obj else (A_.new_array_input(I, "X_old", length=SInt(z3.Int("nX"))),
                                            A_.new_array_input(I, "y_old", length=SInt(z3.Int("nX"))))
            c_names = None if I.fork(z3.Bool("cached_names_None")) else [SAtom(z3.Int("cname0")),
                                                                          SAtom(z3.Int("cname1"))]
            c_lda = None if I.fork(z3.Bool("cached_lda_None")) else SBool(z3.Bool("cached_lda"))
            c_val = SReal(z3.Real("cached_value"))
            cached = (c_hash, c_reg, c_ts, c_names, c_lda, c_val)
        idnt.attrs["_rating"] = cached
        raters = []
        newval = SReal(z3.Real("fresh_rating"))

        def get_rater_contract(I, fv, args, kwargs):
            raters.append(dict(kwargs, _args=args))
            rcls = sx.ClassVal("IndentationRater", [sx.OBJECT], {})

            def rate(I, self, samples=None, datasets=None):
                st["rate_datasets"] = datasets
                return SArray(1, lambda i: newval, "real")
            rcls.ns["rate"] = sx.Builtin("rate", rate)
            return sx.Obj(rcls)
        I.contracts["nanite.rate.rater:get_rater"] = get_rater_contract
        st.update(fp=fp, pres=pres, idnt=idnt, regressor=regressor, ts=ts, names=names, lda=lda, cached=cached,
                  raters=raters, newval=newval, hash0=hash0, ts_kind=ts_kind, snap=F.snapshot(fp))
        f, _ = cls.find("rate_quality")
        return sx.BoundMethod(idnt, f), [], dict(regressor=regressor, training_set=ts, names=names, lda=lda)

    def post(S, out):
        I = S.I
        idnt, cached, raters = st["idnt"], st["cached"], st["raters"]
        case = {"regressor": st["regressor"], "training_set": "label" if st["ts_kind"] == 0 else "in-memory (X, y)",
                "names": "None" if st["names"] is None else "list", "cached": cached is not None,
                "outcome": repr(out)}
        if out.kind != "return":
            # rate_quality never raises, whatever the state of the curve
            S.fail("never_raises", f"raises {out.value.cls.name}", case=case,
                   witness=case["training_set"].split()[0])
            return
        S.ok("never_raises")
        rv = out.value
        if st["regressor"].lower() == "none":
            S.ensure("pseudo_regressor_none_gives_minus_1", rv == -1, case=case)
            S.ensure("pseudo_regressor_none_builds_no_rater", not raters and idnt.attrs["_rating"] is cached,
                     case=case)
            return
        curhash = z3.If(F.presence_term(st["fp"], "hash"), st["hash0"].term, z3.IntVal(V.str_code("none")))

        def veq(a, b):
            r = I._truthval(I.equals(a, b))
            return z3.BoolVal(r) if isinstance(r, bool) else r.term
        if cached is not None:
            if st["ts_kind"] == 0:
                ts_same = veq(cached[2], st["ts"])
            elif cached[2] is st["ts"]:
                ts_same = z3.BoolVal(True)
            else:
                # in-memory training sets are compared by content
                i = z3.Int("ts_i")
                n = z3.Int("nX")
                ts_same = z3.And(*[z3.ForAll([i], z3.Implies(z3.And(i >= 0, i < n), a.uf(i) == b.uf(i)))
                                   for a, b in zip(cached[2], st["ts"])])
            key_same = z3.And(cached[0].term == curhash, z3.BoolVal(cached[1] == st["regressor"]),
                              ts_same, veq(cached[3], st["names"]), veq(cached[4], st["lda"]))
        else:
            key_same = z3.BoolVal(False)
        if raters:
            S.ensure("cached_value_only_while_key_unchanged__recomputed", z3.Not(key_same), case=case)
            r = raters[-1]
            S.ensure("rater_built_with_the_arguments",
                     r.get("regressor") == st["regressor"] and r.get("training_set") is st["ts"]
                     and I.truth(I.equals(r.get("names"), st["names"])) and r.get("lda") is st["lda"]
                     and st.get("rate_datasets") is idnt, case=case)
            S.ensure("returns_the_raters_value", rv is st["newval"], case=case)
            nr = idnt.attrs["_rating"]
            okc = isinstance(nr, tuple) and len(nr) == 6 and nr[1] == st["regressor"] and nr[5] is st["newval"] \
                and I.truth(I.equals(nr[3], st["names"])) and nr[4] is st["lda"]
            S.ensure("cache_updated_with_the_full_key", okc, case=case)
            if okc:
                S.ensure("cache_key_holds_the_current_hash",
                         (z3.IntVal(V.str_code(nr[0])) if isinstance(nr[0], str) else nr[0].term) == curhash)
                if prop == "C10" and st["names"] is not None:
                    S.ensure("owns.rating_names", nr[3] is not st["names"], case=case, witness="names")
                if st["ts_kind"] == 1:
                    # the cache key must not alias the caller's arrays: an in-place change of a previously passed
                    # training set has to be noticed by the next call (C09: "only while ... training set ... unchanged")
                    S.ensure("owns.rating_training_set",
                             isinstance(nr[2], (tuple, list)) and len(nr[2]) == 2
                             and all(a is not b for a, b in zip(nr[2], st["ts"])), case=case, witness="training_set")
        else:
            S.ensure("cached_value_only_while_key_unchanged__reused", key_same, case=case)
            S.ensure("returns_the_cached_value", cached is not None and rv is cached[5], case=case)
        S.ensure("fit_properties_untouched", all(F.entry_unchanged(st["fp"], st["snap"], k) for k in st["snap"]),
                 case=case)

    S.run(setup, post, max_paths=6000)
    return S.finish(replay=lambda ob: replay(ob))


# =================================================================== get_initial_fit_parameters
def unit_get_initial(prop, tier=None, seed=None):
    S = Session(prop, "get_initial_fit_parameters", f"{MOD}:Indentation.get_initial_fit_parameters")
    st = {}

    def setup(I):
        fp, vals, pres, fpd, res = F.sym_fp(I, "old")
        idnt, cls = _mk_indentation(I, fp)
        if I.fork(z3.Bool("old_params_is_None")):
            vals["params_initial"].none = True
            fp.map.d["params_initial"][1] = None
        guesses = []

        def guess_contract(I, fv, args, kwargs_):
            g = F.sym_value(I, "params_initial", f"guess{len(guesses)}")
            guesses.append((g, args, kwargs_))
            return g.obj
        I.contracts["nanite.fit:guess_initial_parameters"] = guess_contract
        st.update(fp=fp, vals=vals, pres=pres, idnt=idnt, guesses=guesses)
        f, _ = cls.find("get_initial_fit_parameters")
        return sx.BoundMethod(idnt, f), [], {}

    def post(S, out):
        I = S.I
        if out.kind != "return":
            S.fail("returns", repr(out))
            return
        S.ok("returns")
        rv, vals = out.value, st["vals"]
        stored = st["fp"].map.d.get("params_initial")
        if st["guesses"]:
            S.ensure("guessed_when_nothing_stored", rv is st["guesses"][0][0].obj)
        else:
            from .c03 import val_eq
            S.ensure("stored_parameters_returned_by_value", V.bterm(val_eq(I, rv, vals["params_initial"].obj))
                     if not isinstance(val_eq(I, rv, vals["params_initial"].obj), bool)
                     else val_eq(I, rv, vals["params_initial"].obj))
            if prop == "C10":
                # what is handed out must not alias the stored settings
                S.ensure("result_fresh", stored is None or rv is not stored[1], witness="params_initial")

    S.run(setup, post)
    return S.finish(replay=lambda ob: replay(ob))


def units_for(prop):
    if prop == "C03":
        return [Unit("fit_model", unit_fit_model, prop=prop),
                Unit("fit_model.preprocessing_keywords", unit_fit_model_preproc, prop=prop),
                Unit("apply_preprocessing", unit_apply_preprocessing, prop=prop)]
    if prop == "C06":
        return [Unit("apply_preprocessing", unit_apply_preprocessing, prop=prop),
                Unit("fit_model.preprocessing_keywords", unit_fit_model_preproc, prop=prop)]
    if prop == "C09":
        return [Unit("rate_quality", unit_rate_quality, prop=prop),
                Unit("apply_preprocessing", unit_apply_preprocessing, prop=prop)]
    if prop == "C10":
        return [Unit("apply_preprocessing", unit_apply_preprocessing, prop=prop),
                Unit("rate_quality", unit_rate_quality, prop=prop),
                Unit("get_initial_fit_parameters", unit_get_initial, prop=prop)]
    return []


# =================================================================== native replays
def _curve():
    import os
    import nanite
    data = os.path.join(os.environ.get("VF_REPO", "/repo"), "tests", "data", "fmt-jpk-fd_spot3-0192.jpk-force")
    return nanite.IndentationGroup(data)[0]


def replay(ob):
    """native scenario per obligation (real Indentation on a recorded curve)"""
    import copy
    import numpy as np
    oid = ob.oid
    P = ["compute_tip_position", "correct_force_offset", "correct_tip_offset"]
    if "preprocessing_request_applied_before_the_fit" in oid:
        O1 = {"correct_tip_offset": {"method": "deviation_from_baseline"}}
        O2 = {"correct_tip_offset": {"method": "fit_constant_line"}}
        a = _curve()
        a.fit_model(preprocessing=P, preprocessing_options=O1, model_key="hertz_para")
        a.fit_model(preprocessing_options=O2)
        b = _curve()
        b.fit_model(preprocessing=P, preprocessing_options=O2, model_key="hertz_para",
                    params_initial=a.fit_properties["params_initial"])
        same = np.array_equal(np.array(a["tip position"]), np.array(b["tip position"]))
        ca, cb = (c.fit_properties["params_fitted"]["contact_point"].value for c in (a, b))
        return {"confirmed": (not same) or ca != cb,
                "input": "fit_model(preprocessing=P, preprocessing_options=O1); fit_model(preprocessing_options=O2)",
                "observed": {"stored options": a.fit_properties["preprocessing_options"], "contact point": ca,
                             "fresh curve with the stored settings": cb, "tip position columns equal": bool(same)},
                "required": "the results shown are those of the stored preprocessing options"}
    if "rejected_request_leaves_the_raw_data" in oid:
        # a request rejected part-way, then look at the columns / fit without asking for a pipeline
        for bad in (["compute_tip_position", "correct_force_offset", "no_such_step"],
                    ["compute_tip_position", "correct_force_slope", "correct_tip_offset"]):
            idnt, fresh = _curve(), _curve()
            try:
                idnt.apply_preprocessing(list(bad), {"correct_force_slope": {"strategy": "bogus"}})
                continue
            except BaseException:
                pass
            extra = sorted(set(idnt.columns) - set(fresh.columns))
            changed = [c for c in fresh.columns if c in idnt.columns
                       and not np.array_equal(np.array(idnt[c]), np.array(fresh[c]), equal_nan=True)]
            if extra or changed:
                shown = None
                try:
                    idnt.fit_model(model_key="hertz_para")
                    shown = {"E": idnt.fit_properties["params_fitted"]["E"].value,
                             "stored preprocessing": idnt.fit_properties.get("preprocessing")}
                except BaseException as exc:
                    shown = f"fit_model raised {type(exc).__name__}"
                return {"confirmed": True, "input": {"rejected request": bad},
                        "observed": {"columns left behind": extra, "columns changed": changed,
                                     "a following fit_model() shows": shown},
                        "required": "the recorded raw data (no pipeline is stored for the curve)"}
        return {"confirmed": False}
    if "rejected_request_not_remembered" in oid or "no_pipeline_claimed_after_rejection" in oid \
            or "rejected_request_leaves" in oid:
        requests = [(["correct_tip_offset"], {}), (["compute_tip_position", "no_such_step"], {}),
                    (P + ["correct_force_slope"], {"correct_force_slope": {"strategy": "bogus"}}),
                    (P, {"correct_tip_offset": {"methd": "fit_constant_line"}}),
                    (P, {"correct_force_offset": {"region": "all"}})]
        for bad, opts in requests:
            for via_fit in (False, True):
                idnt = _curve()
                outcomes = []
                for _ in range(2):
                    try:
                        if via_fit:
                            idnt.fit_model(preprocessing=list(bad), preprocessing_options=copy.deepcopy(opts),
                                           model_key="hertz_para")
                        else:
                            idnt.apply_preprocessing(list(bad), copy.deepcopy(opts))
                        outcomes.append("accepted")
                    except BaseException as exc:
                        outcomes.append(type(exc).__name__)
                remembered = idnt.fit_properties.get("preprocessing")
                if outcomes[0] != "accepted" and (outcomes[1] == "accepted" or remembered == bad):
                    return {"confirmed": True, "input": {"request": bad, "options": opts, "via fit_model": via_fit,
                                                         "repeated": 2},
                            "observed": {"outcomes": outcomes, "fit_properties.preprocessing": remembered},
                            "required": "rejected both times and not remembered"}
        return {"confirmed": False}
    if "remembered_pipeline_is_the_request" in oid or "same_request" in oid or "object_remembers_request" in oid \
            or "reapplied_only_when_needed" in oid:
        # histories of requests incl. empty options, options for steps outside the pipeline, None
        P2 = ["compute_tip_position", "correct_force_offset"]
        O = {"correct_tip_offset": {"method": "fit_constant_line"}}
        for steps, opts in ((P, O), (P2, O), (P, {})):
            idnt = _curve()
            idnt.apply_preprocessing(list(P), copy.deepcopy(O))
            idnt.apply_preprocessing(list(steps), copy.deepcopy(opts))
            st_steps = idnt.fit_properties.get("preprocessing")
            st_opts = idnt.fit_properties.get("preprocessing_options")
            if list(st_steps) != list(steps) or dict(st_opts) != dict(opts) or dict(idnt.preprocessing_options) != dict(opts):
                return {"confirmed": True, "input": {"request": [steps, opts]},
                        "observed": {"remembered steps": st_steps, "remembered options": st_opts,
                                     "attribute options": idnt.preprocessing_options},
                        "required": "what is remembered is the request"}
            idnt.fit_model(model_key="hertz_para")
            import lmfit
            n = {"c": 0}
            real = lmfit.minimize

            def counting(*a, **k):
                n["c"] += 1
                return real(*a, **k)
            lmfit.minimize = counting
            try:
                idnt.apply_preprocessing(list(steps), copy.deepcopy(opts))
                idnt.fit_model()
            finally:
                lmfit.minimize = real
            if n["c"]:
                return {"confirmed": True, "input": {"request repeated": [steps, opts]},
                        "observed": f"{n['c']} new optimisation(s) for an unchanged request", "required": 0}
        return {"confirmed": False}
    if "owns.fit_properties.preprocessing" in oid or "owns.attribute.preprocessing" in oid:
        idnt = _curve()
        if oid.endswith("preprocessing_options"):
            steps = list(P)
            opts = {"correct_tip_offset": {"method": "deviation_from_baseline"}}
            idnt.apply_preprocessing(steps, opts)
            a = np.array(idnt["tip position"], copy=True)
            opts["correct_tip_offset"]["method"] = "fit_constant_line"
            idnt.apply_preprocessing(steps, opts)
            b = np.array(idnt["tip position"], copy=True)
            fresh = _curve()
            fresh.apply_preprocessing(list(steps), copy.deepcopy(opts))
            c = np.array(fresh["tip position"], copy=True)
            return {"confirmed": not np.array_equal(b, c), "input": "options dict edited in place and passed again",
                    "observed": "pipeline not re-applied (columns differ from a fresh curve)" if not np.array_equal(b, c) else "same",
                    "required": "same columns as a fresh equal-valued request"}
        steps = ["compute_tip_position"]
        idnt.apply_preprocessing(steps)
        steps.append("correct_force_offset")
        idnt.apply_preprocessing(steps)
        fresh = _curve()
        fresh.apply_preprocessing(list(steps))
        same = np.array_equal(np.array(idnt["force"]), np.array(fresh["force"]))
        return {"confirmed": not same, "input": "step list appended in place and passed again",
                "observed": "in-place change not noticed" if not same else "noticed",
                "required": "same columns as a fresh equal-valued request"}
    if "owns.rating_names" in oid:
        idnt = _curve()
        idnt.fit_model(preprocessing=P, model_key="hertz_para")
        names = ["feat_con_apr_flatness", "feat_con_apr_sum"]
        r1 = idnt.rate_quality(names=names)
        names.append("feat_con_bln_slope")
        r2 = idnt.rate_quality(names=names)
        fresh = _curve()
        fresh.fit_model(preprocessing=P, model_key="hertz_para")
        r3 = fresh.rate_quality(names=list(names))
        return {"confirmed": r2 != r3, "input": "names list appended in place and passed again",
                "observed": {"returned": float(r2), "fresh": float(r3)}, "required": "equal"}
    if "owns.rating_training_set" in oid:
        import numpy as np
        from nanite.rate import IndentationRater
        idnt = _curve()
        idnt.fit_model(preprocessing=P, model_key="hertz_para")
        X, y = IndentationRater.load_training_set()
        X, y = np.array(X), np.array(y, dtype=float)
        r1 = idnt.rate_quality(training_set=(X, y))
        y[:] = 10 - y
        r2 = idnt.rate_quality(training_set=(X, y))
        fresh = _curve()
        fresh.fit_model(preprocessing=P, model_key="hertz_para")
        r3 = fresh.rate_quality(training_set=(X.copy(), y.copy()))
        return {"confirmed": abs(r2 - r3) > 1e-9, "input": "responses of an in-memory training set replaced in place "
                "(y := 10 - y) and the same tuple passed again",
                "observed": {"first": float(r1), "returned": float(r2), "fresh": float(r3)}, "required": "equal"}
    if "never_raises" in oid:
        idnt = _curve()
        idnt.fit_model(preprocessing=P, model_key="hertz_para")
        from nanite.rate import IndentationRater
        ts = tuple(IndentationRater.load_training_set())
        ts2 = (ts[0].copy(), ts[1].copy())
        try:
            idnt.rate_quality(training_set=ts)
            idnt.rate_quality(training_set=ts2)
            return {"confirmed": False}
        except Exception as exc:
            return {"confirmed": True, "input": "two equal in-memory training sets (X, y), second call",
                    "observed": repr(exc)[:160], "required": "a rating, no exception"}
    if "result_fresh" in oid:
        idnt = _curve()
        idnt.fit_model(preprocessing=P, model_key="hertz_para")
        p = idnt.get_initial_fit_parameters()
        alias = p is idnt.fit_properties["params_initial"]
        e0 = idnt.fit_properties["params_fitted"]["E"].value
        p["R"].value = p["R"].value * 2
        idnt.fit_model(params_initial=p)
        e1 = idnt.fit_properties["params_fitted"]["E"].value
        return {"confirmed": bool(alias and e0 == e1), "input": "returned parameters edited in place, passed back",
                "observed": {"returned object is the stored one": alias, "E before": e0, "E after": e1},
                "required": "a changed radius changes the fitted modulus"}
    if "results_match_stored_settings" in oid or "no_new_optimisation" in oid or "refit_when" in oid:
        idnt = _curve()
        idnt.fit_model(preprocessing=P, model_key="hertz_para", weight_cp=False)
        h0 = idnt.fit_properties["hash"]
        e0 = idnt.fit_properties["params_fitted"]["E"].value
        idnt.fit_model(weight_cp=False)
        same = idnt.fit_properties["hash"] == h0
        idnt.fit_model(weight_cp=1e-6)
        e1 = idnt.fit_properties["params_fitted"]["E"].value
        fresh = _curve()
        fresh.fit_model(preprocessing=P, model_key="hertz_para", weight_cp=1e-6)
        e2 = fresh.fit_properties["params_fitted"]["E"].value
        return {"confirmed": (not same) or e1 != e2, "observed": {"E": e1, "fresh": e2, "hash kept": same}}
    return {"confirmed": False, "why": "no native scenario for this obligation"}
