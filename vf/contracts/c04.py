"""C04  Reported fit outputs are mutually consistent.

Contracts on the real IndentationFitter._fit (write-back of model curve, weighted residuals,
parameters, chi-square, NaN on failure) under the assumed lmfit.minimize contract, on
residuals.residual / compute_contact_point_weights (linear weights, sign of the residual) and on
IndentationFitter.fit (see C05).  "The model evaluated with the reported parameters" is read in
corrected coordinates (abscissa*k, contact point*k), which is what gcf_k documents; for k=1 there
is no ambiguity.
"""
from __future__ import annotations

import os

from ..core import REPO
from ..unit import Unit
from . import fitter_units as FT
from . import resid

LEVEL = "other"
EXPLANATION = ("Deductive (interface level): every data-flow and write-back clause of _fit, the residual and weight "
               "definitions are discharged on the real bodies for all arrays/masks/parameters with lmfit.minimize "
               "and the model callables under assumed contracts. 'chi-square equals the sum of squared residuals' "
               "and bounds/expr handling are inherited from lmfit's assumed contract; bounded runs on real fits "
               "check them numerically.")


def unit_bounded_fits(tier=None, seed=0):
    import time
    import warnings
    from ..core import UnitResult, BoundedResult
    t0 = time.time()
    warnings.simplefilter("ignore")

    class O:
        oid = "C04._fit.fit_column"
        model = None
    r = FT.replay_fitter(O)
    O.oid = "C04._fit.unsuccessful"
    r2 = FT.replay_fitter(O)
    O.oid = "C04._fit.fixed_parameters"
    r3 = FT.replay_fitter(O)
    O.oid = "C04._fit.reported_expression"
    r4 = FT.replay_fitter(O)
    bad = next((x for x in (r, r2, r3, r4) if x.get("confirmed")), None)
    res = UnitResult(unit="bounded.real_fits")
    res.bounded.append(BoundedResult(
        bid="C04.bounded.real_fits_consistent", ok=bad is None, evaluations=18, distinct=18,
        bound="recorded curve x k in {1, 0.5} x weighting on/off (columns vs model(reported parameters), weighted "
              "residuals, chi-square, xmin/xmax), unsuccessful fits (absolute and relative cp), fixed contact point, "
              "expression-constrained contact point / baseline x k x (absolute, relative cp)",
        detail="consistent" if bad is None else str(bad)[:300], samples=[{"k": 0.5, "weight_cp": 5e-7}],
        failing_input=bad, witness="" if bad is None else "real_fit", time_s=round(time.time() - t0, 2)))
    return res


CANARIES = [
    dict(name="residual sign flipped", file="model/residuals.py", old="    resid = force - md", new="    resid = md - force",
         expect="residual"),
    dict(name="fit column from initial parameters", file="fit.py", old="            fit_cur[segid] = md.model(fit.params, xseg)",
         new="            fit_cur[segid] = md.model(params_initial, xseg)", expect="_fit"),
    dict(name="residual column not reset", file="fit.py", old="        fit_res[:] = np.nan\n", new="", expect="_fit"),
    dict(name="residuals on the fitted points only", file="fit.py",
         old="            fit_res[segid] = md.residual(fit.params, xseg, yseg, weight_cp)",
         new="            fit_res[self.fit_range] = md.residual(fit.params, x, y, weight_cp)", expect="_fit"),
    dict(name="too-few-points guard off by one", file="fit.py", old="        if npvaried < x.shape[0] - 1:",
         new="        if npvaried <= x.shape[0]:", expect="C04"),
]


def unit_canaries(tier=None, seed=None):
    from ..selftest import run_canaries
    return run_canaries("C04", CANARIES)


def units(tier):
    us = FT.units_for("C04") + [Unit("residual", resid.unit_residual, prop="C04"),
                                Unit("weights", resid.unit_weights, prop="C04"),
                                Unit("bounded.real_fits", unit_bounded_fits)]
    # "... instead of stale numbers": what is reported belongs to the stored settings only if every changed setting
    # (incl. bounds of the initial parameters) drops the results (contract shared with C03)
    from . import c03
    us.append(Unit("FitProperties.__setitem__", c03.unit_setitem, prop="C04"))
    # "... instead of stale numbers" also for the plateau-search range type (contract shared with C05)
    from . import scan_units as SU
    us.append(Unit("fit.plateau_search", SU.unit_fit_plateau, prop="C04"))
    if tier == "thorough" and not os.environ.get("VF_NO_CANARIES") and str(REPO) == "/repo":
        us.append(Unit("selftest.canaries", unit_canaries))
    return us


def replay_file(path):
    import json
    d = json.load(open(path))

    class _O:
        model = d.get("model")
        oid = d.get("obligation")
        witness = d.get("witness", "")
    if ".residual." in _O.oid:
        r = resid.replay_residual(_O)
    elif ".weights." in _O.oid:
        r = resid.replay_weights(_O)
    else:
        r = FT.replay_fitter(_O)
    print(json.dumps(r, indent=1, default=str))
    return 1 if r.get("confirmed") else 0
