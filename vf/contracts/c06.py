"""C06  Preprocessing is a pure, repeatable function of raw data, steps and options.

  Indentation.apply_preprocessing   invariant I1 "what is remembered is what the data columns hold":
        same request -> nothing happens; changed request -> preproc.apply exactly once with this curve
        and the request; on normal exit the remembered pipeline is the request; on EXCEPTIONAL exit
        (request rejected) nothing is remembered as applied.
  preproc.apply                     restarts from raw data (reset_data first), runs the steps in the
        given order, every step gets a DEEP COPY of its options (a step cannot leak state into the
        caller's or the remembered options), rejects per the rule of C14.
  raw data                          syntactic obligation: no nanite source writes afmformats' raw store.
Bounded: ordered pairs of valid and invalid pipelines on a recorded curve, columns compared
bit-for-bit with a fresh object, raw arrays hashed before/after.
"""
from __future__ import annotations

import ast
import os

import z3

from ..core import REPO, SRC, UnitResult, BoundedResult, ObResult, DISCHARGED, REFUTED
from ..unit import Unit
from ..engine.prove import Session
from ..engine import symex as sx
from ..engine import values as V
from ..engine.values import SAtom
from . import indent_units as IU

LEVEL = "other"
EXPLANATION = ("Deductive: the remember/apply protocol of apply_preprocessing (normal and exceptional exits) and "
               "the restart/deep-copy/order clauses of preproc.apply are discharged on the real bodies for all "
               "requests and states; raw-data immutability is a syntactic obligation over all nanite sources. "
               "Bounded: bit-identical columns for pipeline pairs on a recorded curve (numeric content of the "
               "steps is outside this property's contracts; see C07).")


def unit_apply_options(tier=None, seed=None, prop="C06"):
    """preproc.apply: deep copy of per-step options; ret_details never written to the caller's dict"""
    S = Session(prop, "preproc.apply", "nanite.preproc:apply")
    st = {}

    def setup(I):
        mod = I.module("nanite.preproc")
        inner = sx.SDict([("method", SAtom(z3.Int("opt_method")))])
        options = sx.SDict([("correct_tip_offset", inner)])
        ret_details = I.fork(z3.Bool("ret_details"))
        got = {}
        log = []

        def step_contract(I, fv, args, kwargs):
            got[fv.attrs["identifier"]] = kwargs
            log.append("step")
            # a misbehaving step may write to what it is given
            for k in list(kwargs):
                pass
            return sx.SDict([("detail", 1)])
        for fn in mod.env.vars["PREPROCESSORS"]:
            I.contracts[f"nanite.preproc:{fn.qualname}"] = step_contract
        apret = sx.Obj(sx.ClassVal("Indentation", [sx.OBJECT], {}))
        apret.cls.ns["reset_data"] = sx.Builtin("reset_data", lambda I, self: log.append("reset"))
        # which pipeline: the two-step one, a single step or the EMPTY one (= "back to the raw data")
        shape = I.choose([z3.Bool("pipeline_two_steps"), z3.Bool("pipeline_one_step"), z3.Bool("pipeline_empty")])
        if shape > 2:
            raise sx.PathAbort()
        ids = [["compute_tip_position", "correct_tip_offset"], ["compute_tip_position"], []][shape]
        st.update(options=options, inner=inner, got=got, ret_details=ret_details, log=log, ids=ids, shape=shape,
                  ids0=None if ids is None else list(ids))
        return mod.env.vars["apply"], [], dict(apret=apret, identifiers=ids, options=options,
                                               ret_details=ret_details)

    def post(S, out):
        I = S.I
        S.ensure("accepts_valid_pipeline", out.kind == "return")
        got = st["got"].get("correct_tip_offset")
        if st["shape"] == 0:
            S.ensure("step_called_with_its_options", got is not None and "method" in got
                     and got["method"] is st["inner"].d["method"][1])
        S.ensure("caller_options_not_modified", list(st["inner"].d) == ["method"] and list(st["options"].d) == ["correct_tip_offset"]
                 and not any(m is st["inner"] or m is st["options"] for m in I.mutations))
        S.ensure("identifiers_not_modified", st["ids"] == st["ids0"]
                 and not any(m is st["ids"] for m in I.mutations if st["ids"] is not None))
        # the raw data are restored before the first step and never again between the steps -- also for the empty
        # pipeline, which means "the recorded raw data"
        lg = st["log"]
        nsteps = 0 if st["ids0"] is None else len(st["ids0"])
        S.ensure("restarts_from_raw_data", bool(lg) and lg[0] == "reset" and lg.count("step") == nsteps
                 and "reset" not in lg[1:], case={"pipeline": st["ids0"], "log": lg},
                 witness=["two_steps", "one_step", "empty", "none"][st["shape"]])
        # (what is returned for ret_details is not part of this property)

    S.run(setup, post)
    return S.finish()


def unit_raw_data_never_written(tier=None, seed=None):
    """no nanite source touches afmformats' raw-data store; all column writes go through
    __setitem__ / segment __setitem__ (afmformats: writes the edited-data store only)"""
    res = UnitResult(unit="raw_data_never_written")
    bad = []
    nfiles = 0
    for path in sorted(SRC.rglob("*.py")):
        nfiles += 1
        tree = ast.parse(path.read_text())
        for n in ast.walk(tree):
            if isinstance(n, ast.Attribute) and n.attr in ("_raw_data", "_data"):
                bad.append(f"{path.relative_to(SRC)}:{n.lineno} accesses .{n.attr}")
            if isinstance(n, ast.Constant) and n.value in ("_raw_data",):
                bad.append(f"{path.relative_to(SRC)}:{n.lineno} names _raw_data")
    res.obligations.append(ObResult(
        oid="C06.syntactic.raw_data_store_never_accessed", status=DISCHARGED if not bad else REFUTED,
        backend="syntactic", paths=nfiles,
        detail=f"{nfiles} source files scanned for accesses to afmformats' private stores" if not bad else "; ".join(bad)[:300],
        model={"offending": bad} if bad else None, replay={"confirmed": bool(bad)}))
    res.trusted.append("libmodel:afmformats.AFMData (__setitem__ writes the edited store only; reset_data clears it; "
                       "raw data are never written by afmformats itself)")
    return res


PIPELINES = [
    (["compute_tip_position"], None),
    (["compute_tip_position", "correct_force_offset", "correct_tip_offset"], None),
    (["compute_tip_position", "correct_force_offset", "correct_tip_offset"],
     {"correct_tip_offset": {"method": "fit_constant_line"}}),
    (["compute_tip_position", "correct_force_offset", "correct_tip_offset"], {}),
    (["compute_tip_position", "correct_tip_offset", "correct_force_slope"],
     {"correct_force_slope": {"region": "approach", "strategy": "drift"}}),
    (["compute_tip_position", "correct_tip_offset", "correct_force_slope", "correct_split_approach_retract"],
     {"correct_force_slope": {"region": "all", "strategy": "shift"},
      "correct_tip_offset": {"method": "frechet_direct_path"}}),
    (["smooth_height", "compute_tip_position"], None),
    # invalid requests
    (["correct_tip_offset"], None),
    (["compute_tip_position", "no_such_step"], None),
    (["compute_tip_position", "correct_tip_offset", "correct_force_slope"],
     {"correct_force_slope": {"strategy": "bogus"}}),
    (["compute_tip_position", "correct_force_offset", "correct_tip_offset"],
     {"correct_tip_offset": {"methd": "fit_constant_line"}}),          # misspelled option name
    (["compute_tip_position", "correct_force_offset"], {"correct_force_offset": {"region": "all"}}),  # step takes no options
]


def unit_bounded_pairs(tier=None, seed=0):
    import copy
    import hashlib
    import time
    import warnings
    import numpy as np
    t0 = time.time()
    warnings.simplefilter("ignore")
    cols = ["force", "tip position", "segment", "height (measured)", "time"]

    def state(idnt):
        out = {}
        for c in cols:
            if c in idnt:
                out[c] = np.array(idnt[c], copy=True).tobytes()
        return out

    def run(idnt, pl, via_fit=False):
        steps, opts = copy.deepcopy(pl)
        if opts is None:
            # options=None means "the remembered options" in nanite's API; a complete request
            # with default options is an explicit empty dict
            opts = {}
        try:
            if via_fit:
                kw = dict(preprocessing=steps)
                if opts is not None:
                    kw["preprocessing_options"] = opts
                idnt.fit_model(model_key="hertz_para", **kw)
            else:
                if opts is None:
                    idnt.apply_preprocessing(steps)
                else:
                    idnt.apply_preprocessing(steps, opts)
            return "ok"
        except BaseException as exc:
            return type(exc).__name__
    # reference: fresh curve per pipeline
    ref = {}
    raw_hash = None
    for i, pl in enumerate(PIPELINES):
        idnt = IU._curve()
        if raw_hash is None:
            raw_hash = hashlib.md5(b"".join(np.asarray(idnt._raw_data[c]).tobytes() for c in sorted(idnt._raw_data))).hexdigest() \
                if hasattr(idnt, "_raw_data") and isinstance(idnt._raw_data, dict) else "n/a"
        r = run(idnt, pl)
        ref[i] = (r, state(idnt) if r == "ok" else None)
    problems, ne, samples = [], 0, []
    pairs = [(i, j) for i in range(len(PIPELINES)) for j in range(len(PIPELINES))]
    if tier == "quick":
        pairs = [p for k, p in enumerate(pairs) if k % 3 == (seed % 3)]
    for i, j in pairs:
        for via_fit in ((False,) if tier == "quick" else (False, True)):
            idnt = IU._curve()
            r1 = run(idnt, PIPELINES[i])
            r2 = run(idnt, PIPELINES[j], via_fit=via_fit and ref[j][0] == "ok")
            ne += 1
            case = {"first": PIPELINES[i], "second": PIPELINES[j], "via_fit_model": via_fit}
            if (r2 == "ok") != (ref[j][0] == "ok"):
                problems.append({**case, "what": f"second request {r2}, on a fresh curve {ref[j][0]}"})
            elif r2 == "ok" and state(idnt) != ref[j][1]:
                problems.append({**case, "what": "columns differ from a fresh curve with the same pipeline"})
            if r2 == "ok":
                before = state(idnt)
                r3 = run(idnt, PIPELINES[j])
                if r3 != "ok" or state(idnt) != before:
                    problems.append({**case, "what": "re-applying the same pipeline changed something"})
            else:
                # a rejected request must be rejected again and never be reported as applied
                r3 = run(idnt, PIPELINES[j])
                rep = idnt.fit_properties.get("preprocessing")
                if r3 == "ok" or rep == PIPELINES[j][0]:
                    problems.append({**case, "what": f"rejected request remembered (repeat: {r3}, reported: {rep})"})
            if hasattr(idnt, "_raw_data") and isinstance(idnt._raw_data, dict):
                h = hashlib.md5(b"".join(np.asarray(idnt._raw_data[c]).tobytes() for c in sorted(idnt._raw_data))).hexdigest()
                if h != raw_hash:
                    problems.append({**case, "what": "recorded raw data modified"})
            if len(samples) < 3:
                samples.append(case)
            if problems:
                break
        if problems:
            break
    res = UnitResult(unit="bounded.pipeline_pairs")
    res.bounded.append(BoundedResult(
        bid="C06.bounded.pipeline_pairs_bit_identical", ok=not problems, evaluations=ne, distinct=ne,
        bound=f"{len(pairs)} ordered pairs of {len(PIPELINES)} pipelines (valid and invalid, with options) on one "
              "recorded curve" + ("" if tier == "quick" else ", second request also through fit_model"),
        detail="all columns bit-identical to a fresh curve; rejected requests stay rejected"
        if not problems else str(problems[0])[:400],
        samples=samples, failing_input=problems[0] if problems else None,
        witness="" if not problems else problems[0]["what"].split(" (")[0].replace(" ", "_")[:60],
        time_s=round(time.time() - t0, 2)))
    return res


CANARIES = [
    dict(name="pipeline does not restart from raw data", file="preproc.py", old="    apret.reset_data()\n", new="",
         expect="restarts_from_raw_data"),
    dict(name="options passed to steps without copying", file="preproc.py",
         old="kwargs = copy.deepcopy(options.get(pid, {}))", new="kwargs = options.get(pid, {})",
         expect="caller_options_not_modified"),
    dict(name="only the step list is compared, not the options", file="indent.py",
         old="        if ((preproc_past != [preprocessing, options])",
         new="        if ((preproc_past[:1] != [preprocessing])", expect="apply_preprocessing"),
    dict(name="empty options treated like None", file="indent.py", old="        if options is None:\n            options = self.preprocessing_options",
         new="        if not options:\n            options = self.preprocessing_options", expect="apply_preprocessing"),
]


def unit_canaries(tier=None, seed=None):
    from ..selftest import run_canaries
    return run_canaries("C06", CANARIES)


def units(tier):
    us = IU.units_for("C06") + [Unit("preproc.apply", unit_apply_options),
                                Unit("raw_data_never_written", unit_raw_data_never_written),
                                Unit("bounded.pipeline_pairs", unit_bounded_pairs)]
    if tier == "thorough" and not os.environ.get("VF_NO_CANARIES") and str(REPO) == "/repo":
        us.append(Unit("selftest.canaries", unit_canaries))
    return us


def replay_file(path):
    import json
    d = json.load(open(path))

    class _O:
        model = d.get("model")
        oid = d.get("obligation")
        witness = d.get("witness", "")
    r = IU.replay(_O)
    print(json.dumps(r, indent=1, default=str))
    return 1 if r.get("confirmed") else 0
