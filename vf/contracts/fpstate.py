"""Symbolic FitProperties states (shared by C03, C06, C09, C10).

Typed symbolic values for every FP_DEFAULT key, an independent by-value equality
for them, and snapshots for frame clauses.  FP_DEFAULT / FP_RESULTS are re-read
from the interpreted module on every run.
"""
from __future__ import annotations

import z3

from ..engine import symex as sx
from ..engine import values as V
from ..engine.values import SAtom, SReal, SBool, SInt
from ..engine.lmfit_model import sym_parameters

PNAMES = ["E", "contact_point"]
# everything of a parameter that can influence a fit (brute_step: grid of the "brute" method)
PFIELDS = ("value", "vary", "expr", "min", "max", "brute_step")


class Val:
    """a symbolic settings value together with the z3 terms that define it"""

    def __init__(self, key, obj, terms, none=False):
        self.key, self.obj, self.terms, self.none = key, obj, terms, none


def sym_value(I, key, tag):
    t = f"{tag}_{key}"
    if key in ("model_key", "range_type", "x_axis", "y_axis", "method"):
        a = z3.Int(t)
        return Val(key, SAtom(a), {"": a})
    if key == "optimal_fit_edelta":
        b = z3.Bool(t)
        return Val(key, SBool(b), {"": b})
    if key in ("optimal_fit_num_samples", "segment"):
        n = z3.Int(t)
        return Val(key, SInt(n), {"": n})
    if key in ("weight_cp", "gcf_k"):
        x = z3.Real(t)
        return Val(key, SReal(x), {"": x})
    if key == "range_x":
        lo, hi = z3.Real(t + "_lo"), z3.Real(t + "_hi")
        return Val(key, [SReal(lo), SReal(hi)], {"lo": lo, "hi": hi})
    if key == "preprocessing":
        a0, a1 = z3.Int(t + "_0"), z3.Int(t + "_1")
        return Val(key, [SAtom(a0), SAtom(a1)], {"0": a0, "1": a1})
    if key == "preprocessing_options":
        m = z3.Int(t + "_method")
        return Val(key, sx.SDict([("correct_tip_offset", sx.SDict([("method", SAtom(m))]))]), {"method": m})
    if key == "method_kws":
        m = z3.Int(t + "_max_nfev")
        return Val(key, sx.SDict([("max_nfev", SInt(m))]), {"max_nfev": m})
    if key == "params_initial":
        ps, pt = sym_parameters(I, PNAMES, prefix=t)
        terms = {f"{n}.{f}": pt[n][f] for n in PNAMES for f in PFIELDS}
        terms.update({f"{n}.misc": pt[n]["misc"] for n in PNAMES})
        return Val(key, ps, terms)
    raise KeyError(key)


def eq_term(a: Val, b: Val, fields=None):
    """by-value equality of two settings values (independent of the code's ==)"""
    if a.none or b.none:
        return z3.BoolVal(a.none and b.none)
    ks = [k for k in a.terms if fields is None or k.split(".")[-1] in fields]
    return z3.And(*[a.terms[k] == b.terms[k] for k in ks]) if ks else z3.BoolVal(True)


def fit_relevant_eq(a: Val, b: Val):
    """equality on everything that can influence a fit (for params: value, vary, expr, min, max)"""
    if a.key == "params_initial":
        return eq_term(a, b, fields=PFIELDS)
    return eq_term(a, b)


def load_keys(I):
    fit = I.module("nanite.fit")
    return list(fit.env.vars["FP_DEFAULT"].d), list(fit.env.vars["FP_RESULTS"])


def sym_fp(I, tag="old", present=None, extra_keys=("not_a_key",)):
    """FitProperties object with symbolic presence and typed symbolic values.
    ``present``: dict key -> python bool / z3 Bool overriding the default symbolic presence."""
    fit = I.module("nanite.fit")
    cls = fit.env.vars["FitProperties"]
    fpd, res = load_keys(I)
    o = sx.Obj(cls)
    o.map = sx.SDict()
    vals, pres = {}, {}
    for k in fpd:
        v = sym_value(I, k, tag)
        p = z3.Bool(f"{tag}_has_{k}")
        if present and k in present:
            p = present[k]
        vals[k] = v
        pres[k] = p
        if p is not False:
            o.map.d[k] = [p, v.obj]
    for k in res:
        p = z3.Bool(f"{tag}_has_{k}")
        if present and k in present:
            p = present[k]
        pres[k] = p
        vals[k] = Val(k, sx.Opaque(f"{tag}_result_{k}"), {})
        if p is not False:
            o.map.d[k] = [p, vals[k].obj]
    return o, vals, pres, fpd, res


def snapshot(o):
    return {k: (e[0], e[1]) for k, e in o.map.d.items()}


def same_presence(p, q):
    if isinstance(p, bool) or isinstance(q, bool):
        if isinstance(p, bool) and isinstance(q, bool):
            return p == q
        return False
    return z3.eq(p, q)


def entry_unchanged(o, snap, k):
    e = o.map.d.get(k)
    if k not in snap:
        return e is None or e[0] is False
    p, v = snap[k]
    if e is None:
        return p is False
    return same_presence(e[0], p) and (e[1] is v or p is False)


def presence_term(o, k):
    e = o.map.d.get(k)
    if e is None or e[0] is False:
        return z3.BoolVal(False)
    if e[0] is True:
        return z3.BoolVal(True)
    return e[0]
