"""C18  Model registry accepts only complete, consistent models and stays consistent.

Contracts (real bodies, symbolic registry pre-state with one "same key" and one
"any other key" representative):
  register_model / deregister_model   whole-map postconditions, registry unchanged on
                                      every exceptional exit;
  NaniteFitModel.__init__ / _module_check   single-fault rejection table: every mutant of a
                                      valid module obtained by one deletion/alteration is
                                      rejected with a ModelError (and never with another
                                      exception class);
  load_model_from_file                sys.path (a z3 sequence of unknown length) and
                                      sys.dont_write_bytecode restored on every exit,
                                      import failure -> ModelImportError;
  guess_initial_parameters            ancillary seeding incl. the NaN rule;
  compute_ancillaries / get_anc_parm_keys   common + own keys.
"""
from __future__ import annotations

import ast
import os

import z3

from ..core import REPO
from ..unit import Unit
from ..engine.prove import Session
from ..engine import symex as sx
from ..engine import values as V
from ..engine import lib as L
from ..engine.values import SAtom, SReal, SBool, NAN
from ..engine.lmfit_model import sym_parameters

LEVEL = "proof"
EXPLANATION = ("Deductive: map contracts on the registry operations, exceptional postconditions, the complete "
               "single-fault table of _module_check, sys.path as an unbounded z3 sequence (cvc5 takes z3's "
               "unknowns). Bounded: a model loaded from tests/data/model_external_basic.py behaves like the "
               "shipped code path.")
KEYS = ["E", "R", "nu", "contact_point", "baseline"]
REQUIRED = ["get_parameter_defaults", "model_doc", "model_key", "model_name", "parameter_keys",
            "parameter_names", "parameter_units", "valid_axes_x", "valid_axes_y"]
ANC = ["parameter_anc_keys", "parameter_anc_names", "parameter_anc_units"]

# (fault id, description) -- all single-fault mutants of a valid module
FAULTS = ([("none", "valid module"), ("none_anc", "valid module with ancillaries"),
           ("unit_space", "unit with leading space (warning only)")]
          + [(f"missing.{a}", f"attribute {a} deleted") for a in REQUIRED]
          + [("missing.model_func", "attribute model_func deleted")]
          + [(f"missing.{a}", f"ancillary attribute {a} deleted") for a in ANC]
          + [("names_short", "parameter_names one entry short"), ("names_long", "parameter_names one entry long"),
             ("units_short", "parameter_units one entry short"), ("keys_short", "parameter_keys one entry short"),
             ("names_dup", "two equal parameter_names"), ("keys_swapped", "parameter_keys out of order"),
             ("defaults_short", "get_parameter_defaults one parameter short"),
             ("defaults_long", "get_parameter_defaults one parameter long"),
             ("func_args_short", "model_func takes one parameter less")])
ACCEPTED = {"none", "none_anc", "unit_space", "defaults_long"}


def mk_module(I, fault="none", key="K"):
    modcls = sx.ClassVal("module", [sx.OBJECT], {})
    m = sx.Obj(modcls)
    keys = list(KEYS)
    dkeys = list(KEYS)
    fargs = ["delta"] + list(KEYS)
    names = [f"Name {k}" for k in KEYS]
    units = ["Pa", "m", "", "m", "N"]
    if fault == "names_short":
        names = names[:-1]
    elif fault == "names_long":
        names = names + ["Extra"]
    elif fault == "units_short":
        units = units[:-1]
    elif fault == "keys_short":
        keys = keys[:-1]
    elif fault == "names_dup":
        names[1] = names[0]
    elif fault == "keys_swapped":
        keys[0], keys[1] = keys[1], keys[0]
    elif fault == "defaults_short":
        dkeys = dkeys[:-1]
    elif fault == "defaults_long":
        dkeys = dkeys + ["extra"]
    elif fault == "func_args_short":
        fargs = fargs[:-1]
    elif fault == "unit_space":
        units[0] = " Pa"

    def get_parameter_defaults(I):
        ps, _ = sym_parameters(I, dkeys, prefix="def")
        return ps
    src = f"def model_func({', '.join(fargs)}):\n    return delta\n"
    env = sx.Env()
    I.exec_stmt(ast.parse(src).body[0], env, None)
    m.attrs.update(
        get_parameter_defaults=sx.Builtin("get_parameter_defaults", get_parameter_defaults),
        model_doc="doc", model_key=key, model_name=f"model {key}", parameter_keys=keys,
        parameter_names=names, parameter_units=units, valid_axes_x=["tip position"],
        valid_axes_y=["force"], model_func=env.vars["model_func"])
    if fault == "none_anc" or fault.startswith("missing.parameter_anc"):
        m.attrs.update(compute_ancillaries=sx.Builtin("compute_ancillaries", lambda I, fd: sx.SDict()),
                       parameter_anc_keys=["anc1"], parameter_anc_names=["Anc 1"], parameter_anc_units=["m"])
    if fault == "anc_overlap":
        # an ancillary parameter named like a fit parameter (the documented way to seed its initial value)
        m.attrs.update(compute_ancillaries=sx.Builtin("compute_ancillaries", lambda I, fd: sx.SDict()),
                       parameter_anc_keys=["anc1", KEYS[0]], parameter_anc_names=["Anc 1", f"Guess of {KEYS[0]}"],
                       parameter_anc_units=["m", "kPa"])
    if fault.startswith("missing."):
        del m.attrs[fault.split(".", 1)[1]]
    return m


def is_model_error(I, out):
    return out.kind == "raise" and any(c.name == "ModelError" for c in out.value.cls.mro())


def _registry(I, logic):
    """symbolic pre-state: the module's own key K and one other key K2, each possibly present"""
    stub = sx.ClassVal("NaniteFitModel", [sx.OBJECT], {})
    other1 = sx.Obj(stub, {"model_key": "K", "model_name": "previously registered under K"})
    other2 = sx.Obj(stub, {"model_key": "K2", "model_name": "model under K2"})
    reg = sx.SDict()
    reg.d["K"] = [z3.Bool("K_registered"), other1]
    reg.d["K2"] = [z3.Bool("K2_registered"), other2]
    logic.env.vars["models_available"] = reg
    snapshot = {k: (e[0], e[1]) for k, e in reg.d.items()}
    return reg, snapshot


def _registry_unchanged(reg, snap):
    if set(k for k, e in reg.d.items() if e[0] is not False) - set(snap):
        return False
    for k, (p, v) in snap.items():
        e = reg.d.get(k)
        if e is None:
            return False if p is not False else True
        same_p = (e[0] is p) or (not isinstance(e[0], bool) and not isinstance(p, bool) and z3.eq(e[0], p))
        if not same_p or e[1] is not v:
            return False
    return True


# ------------------------------------------------------------------ register_model
def unit_register(tier=None, seed=None):
    S = Session("C18", "register_model", "nanite.model.logic:register_model")
    st = {}

    def setup(I):
        logic = I.module("nanite.model.logic")
        reg, snap = _registry(I, logic)
        fidx = I.choose([z3.Int("fault") == i for i in range(len(FAULTS))])
        if fidx >= len(FAULTS):
            raise sx.PathAbort()
        fault = FAULTS[fidx][0]
        as_instance = False
        if fault == "none":
            as_instance = I.fork(z3.Bool("pass_NaniteFitModel_instance"))
        module = mk_module(I, fault)
        arg = module
        if as_instance:
            cls = I.lookup_qual("nanite.model.core:NaniteFitModel")
            arg = I.instantiate(cls, [module], {})
        st.update(reg=reg, snap=snap, fault=fault, arg=arg, as_instance=as_instance)
        return logic.env.vars["register_model"], [arg], {}

    def post(S, out):
        I = S.I
        reg, snap, fault = st["reg"], st["snap"], st["fault"]
        case = {"fault": fault, "outcome": repr(out)}
        if fault in ACCEPTED:
            if out.kind != "return":
                S.fail("valid_module_accepted", f"{fault}: {out!r}", case=case)
                return
            S.ok("valid_module_accepted")
            md = out.value
            e = reg.d.get("K")
            S.ensure("available_under_its_key", e is not None and e[0] is True and e[1] is md, case=case)
            e2 = reg.d.get("K2")
            S.ensure("other_keys_unchanged", e2 is not None and e2[0] is snap["K2"][0] and e2[1] is snap["K2"][1]
                     and set(reg.d) == {"K", "K2"}, case=case)
            if st["as_instance"]:
                S.ensure("instance_returned_as_is", md is st["arg"], case=case)
            else:
                S.ensure("returns_NaniteFitModel", isinstance(md, sx.Obj) and md.cls.name == "NaniteFitModel",
                         case=case)
        else:
            if out.kind == "return":
                S.fail(f"rejected.{fault}", "faulty module accepted", case=case)
            else:
                S.ensure(f"rejected.{fault}", is_model_error(I, out), case=case,
                         witness=out.value.cls.name)
            S.ensure("registry_unchanged_on_rejection", _registry_unchanged(reg, snap), case=case)

    S.run(setup, post)
    return S.finish(replay=replay_register)


def _native_module(fault, key="vf_K"):
    import types
    import lmfit
    mod = types.ModuleType("vf_native_" + fault.replace(".", "_"))
    keys, dkeys = list(KEYS), list(KEYS)
    names = [f"Name {k}" for k in KEYS]
    units = ["Pa", "m", "", "m", "N"]
    if fault == "names_short":
        names = names[:-1]
    elif fault == "names_long":
        names += ["Extra"]
    elif fault == "units_short":
        units = units[:-1]
    elif fault == "keys_short":
        keys = keys[:-1]
    elif fault == "names_dup":
        names[1] = names[0]
    elif fault == "keys_swapped":
        keys[0], keys[1] = keys[1], keys[0]
    elif fault == "defaults_short":
        dkeys = dkeys[:-1]
    elif fault == "defaults_long":
        dkeys += ["extra"]
    elif fault == "unit_space":
        units[0] = " Pa"

    def get_parameter_defaults():
        p = lmfit.Parameters()
        for k in dkeys:
            p.add(k, value=1.0)
        return p
    if fault == "func_args_short":
        def model_func(delta, E, R, nu, contact_point=0):
            return delta
    else:
        def model_func(delta, E, R, nu, contact_point=0, baseline=0):
            return delta
    mod.get_parameter_defaults = get_parameter_defaults
    mod.model_func = model_func
    mod.model_doc, mod.model_key, mod.model_name = "doc", key, "vf native"
    mod.parameter_keys, mod.parameter_names, mod.parameter_units = keys, names, units
    mod.valid_axes_x, mod.valid_axes_y = ["tip position"], ["force"]
    if fault == "none_anc" or fault.startswith("missing.parameter_anc"):
        mod.compute_ancillaries = lambda fd: {"anc1": 1.0}
        mod.parameter_anc_keys, mod.parameter_anc_names, mod.parameter_anc_units = ["anc1"], ["Anc 1"], ["m"]
    if fault.startswith("missing."):
        delattr(mod, fault.split(".", 1)[1])
    return mod


def replay_register(ob):
    import warnings
    import nanite.model as nm
    from nanite.model.core import ModelError
    fault = (ob.model or {}).get("fault")
    if fault is None:
        return {"confirmed": False}
    results = []
    for pre in (False, True):
        before = dict(nm.models_available)
        if pre:
            nm.register_model(_native_module("none"))
        snap = dict(nm.models_available)
        try:
            with warnings.catch_warnings():
                warnings.simplefilter("ignore")
                nm.register_model(_native_module(fault))
            got = "accepted"
        except ModelError as exc:
            got = "ModelError:" + type(exc).__name__
        except BaseException as exc:
            got = "OTHER:" + type(exc).__name__
        after = dict(nm.models_available)
        unchanged = after == snap
        for k in list(nm.models_available):
            if k not in before:
                nm.models_available.pop(k)
        bad = None
        if fault in ACCEPTED:
            if got != "accepted":
                bad = f"valid module rejected: {got}"
        else:
            if not got.startswith("ModelError"):
                bad = f"faulty module not rejected with a model error: {got}"
            elif not unchanged:
                bad = "registry changed by a rejected registration"
        results.append({"key_already_registered": pre, "observed": got, "registry_unchanged": unchanged})
        if bad:
            return {"confirmed": True, "input": {"fault": fault, "key_already_registered": pre},
                    "observed": bad, "required": "rejected with a ModelError, registry untouched"
                    if fault not in ACCEPTED else "accepted"}
    return {"confirmed": False, "runs": results}


# ------------------------------------------------------------------ deregister_model
def unit_deregister(tier=None, seed=None):
    S = Session("C18", "deregister_model", "nanite.model.logic:deregister_model")
    st = {}

    def setup(I):
        logic = I.module("nanite.model.logic")
        reg, snap = _registry(I, logic)
        model = sx.Obj(sx.ClassVal("NaniteFitModel", [sx.OBJECT], {}), {"model_key": "K"})
        st.update(reg=reg, snap=snap)
        return logic.env.vars["deregister_model"], [model], {}

    def post(S, out):
        reg, snap = st["reg"], st["snap"]
        e2 = reg.d.get("K2")
        S.ensure("other_keys_unchanged", e2 is not None and e2[0] is snap["K2"][0] and e2[1] is snap["K2"][1])
        if out.kind == "return":
            e = reg.d.get("K")
            S.ensure("removes_exactly_that_key", e is None or e[0] is False)
            S.ensure("only_when_registered", S.I.valid(snap["K"][0]))
        else:
            S.ensure("unregistered_key_raises_KeyError", out.raises("KeyError")
                     and S.I.valid(z3.Not(snap["K"][0])) and _registry_unchanged(reg, snap))

    S.run(setup, post)
    return S.finish()


# ------------------------------------------------------------------ NaniteFitModel(module): documented defaults
def unit_init_defaults(tier=None, seed=None):
    S = Session("C18", "NaniteFitModel.__init__", "nanite.model.core:NaniteFitModel.__init__")
    st = {}

    def setup(I):
        cls = I.lookup_qual("nanite.model.core:NaniteFitModel")
        with_anc = I.fork(z3.Bool("module_has_ancillaries"))
        overlap = with_anc and I.fork(z3.Bool("an_ancillary_is_named_like_a_fit_parameter"))
        module = mk_module(I, ("anc_overlap" if overlap else "none_anc") if with_anc else "none")
        st.update(module=module, with_anc=with_anc, cls=cls, overlap=overlap)
        return cls, [module], {}

    def post(S, out):
        I = S.I
        if out.kind != "return":
            S.fail("constructs", repr(out))
            return
        S.ok("constructs")
        md, m = out.value, st["module"]
        for a in ("model_key", "model_name", "model_doc", "parameter_keys", "parameter_names",
                  "parameter_units", "valid_axes_x", "valid_axes_y", "get_parameter_defaults"):
            S.ensure(f"propagates.{a}", md.attrs.get(a) is m.attrs[a] or md.attrs.get(a) == m.attrs[a])
        for a, q in (("residual", "get_default_residuals_wrapper.<locals>.default_residuals_wrapper"),
                     ("model", "get_default_modeling_wrapper.<locals>.default_modeling_wrapper")):
            v = md.attrs.get(a)
            S.ensure(f"default_{a}_wrapper", isinstance(v, sx.FuncVal) and v.qualname.endswith(q)
                     and v.closure.vars.get("model_function") is m.attrs["model_func"])
        S.ensure("has_module_ancillaries_flag", md.attrs.get("has_module_ancillaries") is st["with_anc"])
        # common + own ancillary keys
        f, _ = st["cls"].find("get_anc_parm_keys")
        keys = I.call(sx.BoundMethod(md, f), [], {})
        own = list(m.attrs.get("parameter_anc_keys", [])) if st["with_anc"] else []
        want = ["max_indent"] + own
        S.ensure("anc_keys_common_plus_own", list(keys) == want)
        # ... for every query, whatever was asked before (the answer is a function of the model alone), and asking
        # does not change the model's own lists or module-level tables
        nmut = len(I.mutations)
        keys2 = I.call(sx.BoundMethod(md, f), [], {})
        S.ensure("anc_keys_same_for_every_query", list(keys2) == want and keys2 is not keys,
                 case={"first": repr(list(keys)), "second": repr(list(keys2))})
        core_mod = I.module("nanite.model.core")
        shared = [v for v in core_mod.env.vars.values() if isinstance(v, (list, sx.SDict))] \
            + [m.attrs.get("parameter_anc_keys")]
        S.ensure("anc_keys_query_is_pure", not any(any(mm is v for v in shared if v is not None)
                                                   for mm in I.mutations[nmut:]))
        # documented names and units: a fit parameter reports the label / unit its module declares (also when an
        # ancillary parameter has the same key), ancillaries theirs
        gn, _ = st["cls"].find("get_parm_name")
        gu, _ = st["cls"].find("get_parm_unit")
        case = {"ancillaries": st["with_anc"], "overlap": st["overlap"]}
        for i, kk in enumerate(m.attrs["parameter_keys"]):
            S.ensure("fit_parameter_names_as_declared",
                     I.call(sx.BoundMethod(md, gn), [kk], {}) == m.attrs["parameter_names"][i], witness=kk, case=case)
            S.ensure("fit_parameter_units_as_declared",
                     I.call(sx.BoundMethod(md, gu), [kk], {}) == m.attrs["parameter_units"][i], witness=kk, case=case)
        for i, kk in enumerate(own):
            if kk in m.attrs["parameter_keys"]:
                continue
            S.ensure("ancillary_names_and_units_as_declared",
                     I.call(sx.BoundMethod(md, gn), [kk], {}) == m.attrs["parameter_anc_names"][i]
                     and I.call(sx.BoundMethod(md, gu), [kk], {}) == m.attrs["parameter_anc_units"][i], witness=kk,
                     case=case)

    S.run(setup, post)
    return S.finish()


# ------------------------------------------------------------------ load_model_from_file
def unit_load_from_file(tier=None, seed=None):
    S = Session("C18", "load_model_from_file", "nanite.model.logic:load_model_from_file")
    st = {}
    IMPORT_OUTCOMES = ["module_not_found", "syntax_error", "valid", "invalid"]

    def setup(I):
        logic = I.module("nanite.model.logic")
        reg, snap = _registry(I, logic)
        seq0 = z3.Const("sys_path_0", z3.SeqSort(z3.IntSort()))
        I.sys_state["path"] = L.SSeq(seq0)
        dwb0 = z3.Bool("dont_write_bytecode_0")
        I.sys_state["dont_write_bytecode"] = SBool(dwb0)
        oc = I.choose([z3.Int("import_outcome") == i for i in range(len(IMPORT_OUTCOMES))])
        if oc >= len(IMPORT_OUTCOMES):
            raise sx.PathAbort()
        outcome = IMPORT_OUTCOMES[oc]
        register = I.fork(z3.Bool("register"))
        d = z3.Int("dir_of_path")
        S.names.update(sys_path_0=seq0, dir_of_path=d, dont_write_bytecode_0=dwb0)
        st.update(seq0=seq0, dwb0=dwb0, outcome=outcome, register=register, reg=reg, snap=snap, d=d,
                  during_import=None)

        # ASSUMED contracts of the two import mechanisms of the standard library.  Which one nanite uses is its
        # business; what they guarantee differs: import_module(name) returns WHATEVER module has that name (first hit
        # in sys.modules, then on sys.path), a spec built from a file location executes THAT file.
        def run_import(I, origin):
            # during the import the directory of the file must be on sys.path
            cur = I.sys_state["path"]
            st["during_import"] = (cur.term, I.sys_state["dont_write_bytecode"])
            if outcome == "module_not_found":
                if origin == "file":
                    I.raise_py("FileNotFoundError", "no such file")
                I.raise_py("ModuleNotFoundError", "no module")
            if outcome == "syntax_error":
                I.raise_py("SyntaxError", "invalid syntax")
            m = mk_module(I, "none" if outcome == "valid" else "names_dup")
            m.attrs["__vf_origin__"] = origin
            return m
        I.lib["importlib.import_module"] = lambda I, stem: run_import(I, "module of that name (cache / search path)")
        speccls = sx.ClassVal("ModuleSpec", [sx.OBJECT], {})
        loadercls = sx.ClassVal("SourceFileLoader", [sx.OBJECT], {})

        def spec_from_file_location(I, name, location=None, **k):
            st["spec_location"] = location
            sp = sx.Obj(speccls)
            sp.attrs.update(name=name, origin=location, loader=sx.Obj(loadercls))
            return sp
        I.lib["importlib.util.spec_from_file_location"] = spec_from_file_location

        def module_from_spec(I, spec):
            m = sx.Obj(sx.ClassVal("module", [sx.OBJECT], {}))
            m.attrs["__spec__"] = spec
            return m
        I.lib["importlib.util.module_from_spec"] = module_from_spec

        def exec_module(I, self, module):
            real = run_import(I, "file")
            module.attrs.update(real.attrs)
            module.cls = real.cls
        loadercls.ns["exec_module"] = sx.Builtin("exec_module", exec_module)
        return logic.env.vars["load_model_from_file"], [SAtom(z3.Int("path"), "path")], dict(register=register)

    def post(S, out):
        I = S.I
        outcome = st["outcome"]
        case = {"import_outcome": outcome, "register": st["register"], "outcome": repr(out)}
        cur = I.sys_state["path"]
        # the interpreter's import path is left as it was -- on EVERY exit
        S.ensure("sys_path_restored", cur.term == st["seq0"], witness=outcome if outcome != "valid" else "")
        S.ensure("sys_path_restored_when_dir_not_on_path",
                 z3.Implies(z3.Not(z3.Contains(st["seq0"], z3.Unit(st["d"]))), cur.term == st["seq0"]))
        dwb = I.sys_state["dont_write_bytecode"]
        S.ensure("dont_write_bytecode_restored", V.bterm(dwb) == st["dwb0"])
        if st["during_import"] is not None:
            S.ensure("dir_on_path_during_import", z3.Contains(st["during_import"][0], z3.Unit(st["d"])))
        if outcome in ("module_not_found", "syntax_error"):
            # "a file that cannot be imported raises the documented import error"
            S.ensure("import_failure_raises_ModelImportError", out.raises("ModelImportError"), case=case,
                     witness=(out.value.cls.name if out.kind == "raise" else "returned") + "." + outcome)
            S.ensure("registry_unchanged_on_failure", _registry_unchanged(st["reg"], st["snap"]), case=case)
        elif outcome == "invalid":
            S.ensure("invalid_module_rejected", is_model_error(I, out), case=case)
            S.ensure("registry_unchanged_on_failure", _registry_unchanged(st["reg"], st["snap"]), case=case)
        else:
            if out.kind != "return":
                S.fail("valid_file_loads", repr(out), case=case)
                return
            S.ok("valid_file_loads")
            md = out.value
            S.ensure("returns_NaniteFitModel", isinstance(md, sx.Obj) and md.cls.name == "NaniteFitModel")
            # "a model loaded from a file behaves like the same code shipped with the package": the module behind the
            # model is the given file, not some other module that happens to have the same name
            mod_ = md.attrs.get("module") if isinstance(md, sx.Obj) else None
            S.ensure("loads_the_given_file", isinstance(mod_, sx.Obj) and mod_.attrs.get("__vf_origin__") == "file",
                     case=dict(case, module_is=getattr(mod_, "attrs", {}).get("__vf_origin__")), witness="same_name")
            e = st["reg"].d.get("K")
            if st["register"]:
                S.ensure("registered_when_asked", e is not None and e[0] is True
                         and isinstance(e[1], sx.Obj) and e[1].cls.name == "NaniteFitModel")
            else:
                S.ensure("not_registered_unless_asked", _registry_unchanged(st["reg"], st["snap"]))

    S.run(setup, post)
    return S.finish(replay=replay_load)


def replay_load(ob):
    import sys
    import tempfile
    import pathlib
    import nanite.model as nm
    from nanite.model.core import ModelImportError
    clause = ob.oid.split(".", 2)[-1]
    tmp = pathlib.Path(tempfile.mkdtemp(prefix="vf-c18-"))
    try:
        good = tmp / "vf_c18_good_model.py"
        src = (pathlib.Path(os.environ.get("VF_REPO", "/repo")) / "tests" / "data" / "model_external_basic.py")
        good.write_text(src.read_text().replace('"hans_peter"', '"vf_c18_model"'))
        missing = tmp / "vf_c18_does_not_exist.py"
        results = []
        if "loads_the_given_file" in clause:
            (tmp / "a").mkdir()
            (tmp / "b").mkdir()
            for sub, key in (("a", "vf_c18_first"), ("b", "vf_c18_second")):
                (tmp / sub / "vf_c18_same_name.py").write_text(src.read_text().replace('"hans_peter"', f'"{key}"'))
            try:
                k1 = nm.load_model_from_file(tmp / "a" / "vf_c18_same_name.py").model_key
                k2 = nm.load_model_from_file(tmp / "b" / "vf_c18_same_name.py").model_key
            finally:
                sys.modules.pop("vf_c18_same_name", None)
            return {"confirmed": k2 != "vf_c18_second", "input": "two model files with the same file name in two folders",
                    "observed": {"first": k1, "second": k2}, "required": "the second call returns the second file's model"}
        if "ModelImportError" in clause and "syntax" in (ob.witness or ""):
            broken = tmp / "vf_c18_broken.py"
            broken.write_text("def model(:\n")
            try:
                nm.load_model_from_file(broken)
                got = "returned"
            except ModelImportError:
                got = "ModelImportError"
            except BaseException as exc:
                got = type(exc).__name__
            return {"confirmed": got != "ModelImportError", "input": "a model file with a syntax error",
                    "observed": got, "required": "ModelImportError"}
        for label, path, pre_on_path in (("missing file", missing, False), ("missing file, dir already on sys.path", missing, True),
                                         ("valid file", good, False), ("valid file, dir already on sys.path", good, True)):
            keep_path = list(sys.path)
            if pre_on_path:
                sys.path.insert(0, str(tmp))
            p0, d0 = list(sys.path), sys.dont_write_bytecode
            for flag in (False, True):
                sys.dont_write_bytecode = flag
                try:
                    md = nm.load_model_from_file(path, register=False)
                    got = "returned"
                except ModelImportError:
                    got = "ModelImportError"
                except BaseException as exc:
                    got = type(exc).__name__
                obs = {"case": label, "dont_write_bytecode_before": flag, "outcome": got,
                       "sys_path_restored": list(sys.path) == p0,
                       "dont_write_bytecode_after": sys.dont_write_bytecode}
                results.append(obs)
                bad = None
                if "sys_path" in clause and not obs["sys_path_restored"]:
                    bad = "sys.path order/content changed"
                if "dont_write_bytecode" in clause and sys.dont_write_bytecode != flag:
                    bad = "sys.dont_write_bytecode not restored"
                if "ModelImportError" in clause and label.startswith("missing") and got != "ModelImportError":
                    bad = f"{got} instead of ModelImportError"
                sys.path[:] = p0
                if bad:
                    sys.path[:] = keep_path
                    sys.dont_write_bytecode = d0
                    return {"confirmed": True, "input": obs, "observed": bad,
                            "required": "import path and flag as before; documented import error"}
            sys.path[:] = keep_path
            sys.dont_write_bytecode = d0
        return {"confirmed": False, "runs": results[:4]}
    finally:
        import shutil
        shutil.rmtree(tmp, ignore_errors=True)
        sys.modules.pop("vf_c18_good_model", None)


# ------------------------------------------------------------------ guess_initial_parameters
def unit_guess(tier=None, seed=None):
    S = Session("C18", "guess_initial_parameters", "nanite.fit:guess_initial_parameters")
    st = {}

    def setup(I):
        fit = I.module("nanite.fit")
        model_pkg = fit.env.vars["model"]
        defaults, dterms = sym_parameters(I, KEYS, prefix="def")
        md = sx.Obj(sx.ClassVal("NaniteFitModel", [sx.OBJECT], {}))
        md.attrs["get_parameter_defaults"] = sx.Builtin("get_parameter_defaults", lambda I: defaults)
        reg = sx.SDict([("hertz_para", md)])
        model_pkg.env.vars["models_available"] = reg
        # ancillaries: one matching a fit parameter (maybe NaN), one not matching, the common one
        ancE = SReal(z3.Real("anc_E"), z3.Bool("anc_E_isnan"))
        ancR = SReal(z3.Real("anc_R"), z3.Bool("anc_R_isnan"))
        anc = sx.SDict([("max_indent", SReal(z3.Real("anc_mi"), z3.Bool("anc_mi_isnan"))),
                        ("E", ancE), ("other_anc", SReal(z3.Real("anc_other"))), ("R", ancR)])
        tip = z3.Function("tip_position", z3.IntSort(), z3.RealSort())
        cpid = z3.Int("cp_index")
        has_tip = I.fork(z3.Bool("has_tip_position"))
        idcls = sx.ClassVal("Indentation", [sx.OBJECT], {})
        from ..engine.arrays import SArray
        n = z3.Int("n")
        I.assume(z3.And(n > 0, cpid >= 0, cpid < n))
        idcls.ns["__contains__"] = sx.Builtin("contains", lambda I, self, k: has_tip if k == "tip position" else False)
        idcls.ns["estimate_contact_point_index"] = sx.Builtin("ecpi", lambda I, self: V.SInt(cpid))
        idcls.ns["__getitem__"] = sx.Builtin("getitem", lambda I, self, k: SArray(V.SInt(n), lambda i: SReal(tip(i))))
        idcls.ns["get_ancillary_parameters"] = sx.Builtin("gap", lambda I, self: anc)
        idnt = sx.Obj(idcls)
        common = I.fork(z3.Bool("common_ancillaries"))
        modelanc = I.fork(z3.Bool("model_ancillaries"))
        st.update(defaults=defaults, dterms=dterms, ancE=ancE, ancR=ancR, tip=tip, cpid=cpid, has_tip=has_tip,
                  common=common, modelanc=modelanc)
        S.names.update(anc_E=ancE.term, anc_E_isnan=ancE.nan, anc_R=ancR.term, anc_R_isnan=ancR.nan)
        return fit.env.vars["guess_initial_parameters"], [], dict(
            idnt=idnt, model_key="hertz_para", common_ancillaries=common, model_ancillaries=modelanc)

    def post(S, out):
        I = S.I
        if out.kind != "return":
            S.fail("returns", repr(out))
            return
        S.ok("returns")
        ps = out.value
        dt = st["dterms"]
        S.ensure("same_parameter_set", list(ps.map.d) == KEYS)

        def val(name):
            return ps.map.d[name][1].attrs["value"]
        for name, anc in (("E", st["ancE"]), ("R", st["ancR"])):
            v = val(name)
            if st["modelanc"]:
                # seeded by the ancillary of the same key unless that is NaN
                S.ensure(f"seeded_unless_nan.{name}",
                         z3.And(z3.Implies(z3.Not(anc.nan), z3.And(V.rterm(v) == anc.term, z3.Not(A_nan(v)))),
                                z3.Implies(anc.nan, V.rterm(v) == dt[name]["value"])))
            else:
                S.ensure(f"default_kept.{name}", V.rterm(v) == dt[name]["value"])
        for name in ("nu", "baseline"):
            S.ensure(f"default_kept.{name}", V.rterm(val(name)) == dt[name]["value"])
        cp = val("contact_point")
        if st["common"] and st["has_tip"]:
            S.ensure("contact_point_from_estimate", V.rterm(cp) == st["tip"](st["cpid"]))
        else:
            S.ensure("default_kept.contact_point", V.rterm(cp) == dt["contact_point"]["value"])
        # only values are seeded: bounds / vary flags of every parameter stay the defaults
        for name in KEYS:
            p = ps.map.d[name][1].attrs
            S.ensure(f"bounds_and_vary_kept.{name}",
                     z3.And(V.rterm(p["min"]) == dt[name]["min"], V.rterm(p["max"]) == dt[name]["max"],
                            V.bterm(p["vary"]) == dt[name]["vary"]))

    def A_nan(v):
        from ..engine.arrays import _zb
        return _zb(V.nanflag(v))

    S.run(setup, post)
    return S.finish(replay=replay_guess)


def replay_guess(ob):
    import math
    import types
    import numpy as np
    import lmfit
    import nanite.model as nm
    from nanite.fit import guess_initial_parameters
    mod = _native_module("none", key="vf_guess")
    nm.register_model(mod)
    try:
        class Idnt:
            def __contains__(self, k):
                return k == "tip position"

            def estimate_contact_point_index(self):
                return 2

            def __getitem__(self, k):
                return np.array([5.0, 4.0, 3.0, 2.0])

            def get_ancillary_parameters(self):
                return self.anc
        for anc in ({"E": 77.0, "R": float("nan"), "other": 1.0}, {"E": float("nan"), "R": 3.0}):
            for flags in ((True, True), (False, True), (True, False), (False, False)):
                idnt = Idnt()
                idnt.anc = anc
                p = guess_initial_parameters(idnt, "vf_guess", common_ancillaries=flags[0],
                                             model_ancillaries=flags[1])
                want = {k: 1.0 for k in KEYS}
                if flags[0]:
                    want["contact_point"] = 3.0
                if flags[1]:
                    for k, v in anc.items():
                        if k in want and not math.isnan(v):
                            want[k] = v
                got = {k: p[k].value for k in KEYS}
                if got != want:
                    return {"confirmed": True, "input": {"ancillaries": anc, "common,model": flags},
                            "observed": got, "required": want}
        return {"confirmed": False}
    finally:
        nm.deregister_model(nm.models_available["vf_guess"])


# ------------------------------------------------------------------ bounded: file-loaded model behaves like shipped code
def unit_bounded_external(tier=None, seed=0):
    import time
    import pathlib
    import numpy as np
    import nanite.model as nm
    from ..core import UnitResult, BoundedResult
    t0 = time.time()
    src = pathlib.Path(os.environ.get("VF_REPO", "/repo")) / "tests" / "data" / "model_external_basic.py"
    before = dict(nm.models_available)
    problems, ne = [], 0
    try:
        md = nm.load_model_from_file(src, register=True)
        ne += 1
        if md.model_key not in nm.models_available:
            problems.append("not registered under its key")
        import importlib.util
        spec = importlib.util.spec_from_file_location("vf_ext_ref", src)
        ref = importlib.util.module_from_spec(spec)
        spec.loader.exec_module(ref)
        p = md.get_parameter_defaults()
        for asc in (False, True):
            d = np.linspace(2e-6, -2e-6, 50)
            if asc:
                d = d[::-1].copy()
            got = md.model(p, d)
            want = ref.model_func(d, **p.valuesdict())
            ne += 1
            if not np.allclose(got, want, rtol=1e-12, atol=0):
                problems.append(f"model output differs from the file's own function (ascending={asc})")
        if md.get_anc_parm_keys()[0] != "max_indent":
            problems.append("common ancillary key missing")
        nm.deregister_model(md)
    except Exception as exc:
        problems.append(f"raised {exc!r}"[:160])
    for k in list(nm.models_available):
        if k not in before:
            nm.models_available.pop(k)
    if dict(nm.models_available) != before:
        problems.append("registry differs after register/deregister")
    res = UnitResult(unit="bounded.external_model")
    res.bounded.append(BoundedResult(
        bid="C18.bounded.file_model_behaves_like_shipped", ok=not problems, evaluations=ne, distinct=ne,
        bound="tests/data/model_external_basic.py loaded through the real load_model_from_file, both orientations",
        detail="; ".join(problems) or "ok", samples=[{"file": src.name}],
        failing_input=problems[0] if problems else None, time_s=round(time.time() - t0, 2)))
    return res


CANARIES = [
    dict(name="register stores before constructing", file="model/logic.py",
         old="    if isinstance(module, NaniteFitModel):\n        # we already have a fit model\n        md = module\n    else:\n        md = NaniteFitModel(module)\n    # the actual registration\n    models_available[module.model_key] = md",
         new="    models_available[module.model_key] = module\n    if isinstance(module, NaniteFitModel):\n        md = module\n    else:\n        md = NaniteFitModel(module)\n    models_available[module.model_key] = md",
         expect="registry_unchanged_on_rejection"),
    dict(name="deregister pops by name", file="model/logic.py", old="models_available.pop(model.model_key)",
         new="models_available.pop(model.model_name)", expect="deregister_model"),
    dict(name="valid_axes_y no longer required", file="model/core.py", old='            "valid_axes_y",\n',
         new='', expect="rejected.missing.valid_axes_y"),
    dict(name="label uniqueness check dropped", file="model/core.py",
         old="        if len(self.module.parameter_names) \\\n                != len(set(self.module.parameter_names)):",
         new="        if False:", expect="rejected.names_dup"),
    dict(name="NaN ancillaries seed parameters", file="fit.py",
         old="                if not np.isnan(anc_dict[anckey]):  # ignore nans", new="                if True:",
         expect="seeded_unless_nan"),
    dict(name="ancillary seeding sets min instead of value", file="fit.py",
         old="                    params[anckey].set(value=anc_dict[anckey])",
         new="                    params[anckey].set(min=anc_dict[anckey])", expect="guess_initial_parameters"),
]


def unit_canaries(tier=None, seed=None):
    from ..selftest import run_canaries
    return run_canaries("C18", CANARIES)


def units(tier):
    us = [Unit("register_model", unit_register), Unit("deregister_model", unit_deregister),
          Unit("NaniteFitModel.__init__", unit_init_defaults), Unit("load_model_from_file", unit_load_from_file),
          Unit("guess_initial_parameters", unit_guess), Unit("bounded.external_model", unit_bounded_external)]
    if tier == "thorough" and not os.environ.get("VF_NO_CANARIES") and str(REPO) == "/repo":
        us.append(Unit("selftest.canaries", unit_canaries))
    return us


def replay_file(path):
    import json
    d = json.load(open(path))

    class _O:
        model = d.get("model")
        oid = d["obligation"]
    fn = {"register_model": replay_register, "load_model_from_file": replay_load,
          "guess_initial_parameters": replay_guess}.get(d["obligation"].split(".")[1])
    if fn is None:
        return 0
    r = fn(_O)
    print(json.dumps(r, indent=1, default=str))
    return 1 if r.get("confirmed") else 0
