"""C15  Training sets load clean, aligned, and survive export.

  IndentationRater.load_training_set (real body after the np.loadtxt calls; sample matrix = symbolic
  number of rows x 2 columns, every entry a real with NaN flag and infinity sign; all 8 flag combinations):
      imputation   a NaN of a zero-rated row becomes the mean over the zero-rated, non-NaN entries of
                   that feature (when both sets are non-empty); nothing else changes
      removal      a row is kept iff it holds no NaN afterwards; samples AND responses are selected by
                   the same row predicate (alignment)
      infinities   become +-2 * max |finite entries of that feature among the kept rows|
      result       no NaN (remove_nan) and no infinity (replace_inf) among the kept rows; every other
                   entry is the loaded value; columns in the order of the sorted feature names
  Bounded: single-row and degenerate sets, compute_sample_weight, export -> load round trip.
"""
from __future__ import annotations

import os

import z3

from ..core import REPO, UnitResult, BoundedResult
from ..unit import Unit
from ..engine.prove import Session
from ..engine import symex as sx
from ..engine import values as V
from ..engine import arrays as A
from ..engine.arrays2d import S2D
from ..engine.values import SAtom, SReal, SBool, SInt
from ..engine.arrays import SArray, SCompressed

LEVEL = "other"
EXPLANATION = ("Deductive: the cleaning pipeline of load_training_set on a symbolic matrix (symbolic number of rows, "
               "two symbolic columns) for all NaN/inf patterns and all flag combinations: imputation set and value, "
               "row predicate shared by samples and responses, inf replacement, final cleanliness, frame. Bounded: "
               "text round trip (np.savetxt/loadtxt), one-row sets, sample weights, export of rated curves.")
NCOLS = 2


def unit_load_training_set(tier=None, seed=None, part="two_columns"):
    S = Session("C15", "load_training_set", "nanite.rate.rater:IndentationRater.load_training_set")
    st = {}
    NCOLS = 2 if part.startswith("two_columns") else 1

    def setup(I):
        mod = I.module("nanite.rate.rater")
        cls = mod.env.vars["IndentationRater"]
        n = SInt(z3.Int("nrows"))
        I.assume(n.term >= 1)
        X = z3.Function("X", z3.IntSort(), z3.IntSort(), z3.RealSort())
        XN = z3.Function("X_isnan", z3.IntSort(), z3.IntSort(), z3.BoolSort())
        XI = z3.Function("X_infsign", z3.IntSort(), z3.IntSort(), z3.IntSort())
        rr, cc = z3.Int("rr"), z3.Int("cc")
        I.assume(z3.ForAll([rr, cc], z3.And(XI(rr, cc) >= -1, XI(rr, cc) <= 1, z3.Implies(XN(rr, cc), XI(rr, cc) == 0))))
        y = A.new_array_input(I, "response", length=n)
        names = ["feat_con_b", "feat_con_a"][:NCOLS]          # requested in unsorted order
        asked = []

        def gfn(I, *a, **k):
            asked.append(k)
            return sorted(names)
        cls.ns["get_feature_names"] = sx.Builtin("get_feature_names", gfn)
        files = []

        def loadtxt(I, p, dtype=None, ndmin=0):
            if ndmin == 2:
                c = len(files)
                files.append(p)
                return S2D(n, 1, lambda r, _c, c=c: SReal(X(r, c), XN(r, c), XI(r, c)))
            if ndmin == 0 and I.fork(n.term == 1):
                # numpy: a one-line file read without ndmin gives a 0-d array
                zc = sx.ClassVal("ndarray0d", [sx.OBJECT], {})
                zc.ns["__getitem__"] = sx.Builtin("getitem", lambda I, self, k: I.raise_py("IndexError", "0-d array"))
                return sx.Obj(zc)
            return y
        I.lib["numpy.loadtxt"] = loadtxt

        def concat(I, mats, axis=0):
            fns = [m.snap() for m in mats]
            return S2D(n, len(mats), lambda r, c: fns[c](r, 0))
        I.lib["numpy.concatenate"] = concat
        I.lib["pathlib.Path"] = lambda I, p: sx.LibRef("some.path")
        flags = {k: I.fork(z3.Bool(k)) for k in ("replace_inf", "impute_zero_rated_nan", "remove_nan")}
        allon = all(flags.values())
        # two columns: all cleaning on (split over two workers by the replace_inf/impute pattern); one column: the rest
        if part == "two_columns" and not allon:
            raise sx.PathAbort()
        if part == "two_columns_noimpute" and not (flags["replace_inf"] and flags["remove_nan"] and not flags["impute_zero_rated_nan"]):
            raise sx.PathAbort()
        if part == "one_column" and allon:
            raise sx.PathAbort()
        st.update(n=n, X=X, XN=XN, XI=XI, y=y, flags=flags, names=names, asked=asked)
        S.names.update(nrows=n.term)
        f, _ = cls.find("load_training_set")
        return sx.BoundMethod(cls, f), [], dict(path=sx.Opaque("dir"), names=names, ret_names=True, **flags)

    def post(S, out):
        I = S.I
        fl = st["flags"]
        case = {**fl, "outcome": repr(out)}
        if out.kind != "return":
            # nanmax of an all-infinite column is outside the stated domain (observation); everything else must load
            if out.raises("ValueError") and fl["replace_inf"]:
                S.ok("loads_or_all_infinite_column")
            else:
                S.fail("loads_or_all_infinite_column", repr(out), case=case,
                       witness="single_row" if I.valid(st["n"].term == 1) else "")
            return
        S.ok("loads_or_all_infinite_column")
        res = out.value
        ok = isinstance(res, list) and len(res) == 3 and isinstance(res[0], S2D)
        S.ensure("returns_samples_response_names", ok, case=case)
        if not ok:
            return
        M, resp, rnames = res
        S.ensure("columns_follow_sorted_feature_names", list(rnames) == sorted(st["names"]) and M.ncols == NCOLS, case=case)
        n, X, XN, XI, y = st["n"].term, st["X"], st["XN"], st["XI"], st["y"]
        r, s_ = z3.Int("r"), z3.Int("s")
        inr = z3.And(r >= 0, r < n)
        S.names.update(r=r)
        means = I.ghost.get("masked_means", [])
        nmx = I.ghost.get("nanmax_sets", [])
        zero = lambda q: y.uf(q) == 0
        # ---------------- specification of the pipeline, column by column ----------------
        nan1, val1, inf1 = {}, {}, {}
        mi = 0
        for c in range(NCOLS):
            coloc = lambda q, c=c: z3.And(zero(q), XN(q, c))
            ref = lambda q, c=c: z3.And(zero(q), z3.Not(XN(q, c)))
            ex_coloc = z3.Exists([s_], z3.And(s_ >= 0, s_ < n, coloc(s_)))
            ex_ref = z3.Exists([s_], z3.And(s_ >= 0, s_ < n, ref(s_)))
            imputed = z3.And(z3.BoolVal(fl["impute_zero_rated_nan"]), ex_coloc, ex_ref)
            # the mean the code used for this column (if any), checked against the reference set
            mean_c = z3.Real(f"spec_mean_{c}")
            usable = [m for m in means if I.valid(z3.Implies(inr, V.rterm(m[0](r)) == X(r, c))) and
                      I.valid(z3.Implies(inr, m[1](r) == ref(r)))]
            if usable:
                I.assume(mean_c == usable[0][2])
            S.ensure("imputation_uses_mean_of_zero_rated_non_nan_entries",
                     z3.Implies(imputed, z3.BoolVal(bool(usable))), witness=f"column{c}")
            nan1[c] = lambda q, c=c, imputed=imputed, coloc=coloc: z3.And(XN(q, c), z3.Not(z3.And(imputed, coloc(q))))
            val1[c] = lambda q, c=c, imputed=imputed, coloc=coloc, mean_c=mean_c: z3.If(z3.And(imputed, coloc(q)), mean_c, X(q, c))
            inf1[c] = lambda q, c=c, imputed=imputed, coloc=coloc: z3.If(z3.And(imputed, coloc(q)), 0, XI(q, c))
        keep = lambda q: z3.Or(z3.BoolVal(not fl["remove_nan"]), z3.Not(z3.Or(*[nan1[c](q) for c in range(NCOLS)])))
        # ---------------- rows: kept iff no NaN remains; same predicate for the responses --------------
        rm = M.rowmask if M.rowmask is not None else (lambda q: z3.BoolVal(True))
        S.ensure("row_kept_iff_no_nan_after_imputation", z3.Implies(inr, rm(r) == keep(r)), case=case)
        if isinstance(resp, SCompressed):
            S.ensure("responses_selected_by_the_same_rows", z3.Implies(inr, resp.maskfn(r) == rm(r)), case=case)
            S.ensure("responses_unchanged", z3.Implies(z3.And(inr, rm(r)), V.rterm(resp.fn(r)) == y.uf(r)), case=case)
        else:
            S.ensure("responses_selected_by_the_same_rows", M.rowmask is None and isinstance(resp, SArray)
                     and I.valid(resp.len_term() == n), case=case)
            S.ensure("responses_unchanged", isinstance(resp, SArray)
                     and I.valid(z3.Implies(inr, V.rterm(resp.at(r)) == y.uf(r))), case=case)
        # ---------------- entries ----------------
        for c in range(NCOLS):
            got = M.at(r, c)
            gv, gn, gi = V.rterm(got), A._zb(V.nanflag(got)), A._iz(V.infsign(got))
            kept = z3.And(inr, rm(r))
            if fl["replace_inf"]:
                # extreme of the finite entries of this feature among the kept rows (as used by the code)
                ext = z3.Real(f"spec_extreme_{c}")
                cand = [m for m in nmx if I.valid(z3.Implies(z3.And(inr, m[1](r)),
                                                             z3.And(rm(r), inf1[c](r) == 0)))
                        and I.valid(z3.Implies(z3.And(kept, inf1[c](r) == 0, z3.Not(nan1[c](r))), m[1](r)))
                        and I.valid(z3.Implies(z3.And(inr, m[1](r)),
                                               V.rterm(m[0](r)) == z3.If(val1[c](r) >= 0, val1[c](r), -val1[c](r))))]
                has_inf = z3.Exists([s_], z3.And(s_ >= 0, s_ < n, rm(s_), inf1[c](s_) != 0))
                S.ensure("inf_scale_is_largest_finite_magnitude_of_the_feature",
                         z3.Implies(z3.And(has_inf), z3.BoolVal(bool(cand))), witness=f"column{c}")
                if cand:
                    I.assume(ext == cand[0][2])
                want_v = z3.If(inf1[c](r) == 1, 2 * ext, z3.If(inf1[c](r) == -1, -2 * ext, val1[c](r)))
                S.ensure("entry_value", z3.Implies(z3.And(kept, z3.Not(nan1[c](r))), gv == want_v), witness=f"column{c}")
                S.ensure("no_infinity_left", z3.Implies(kept, gi == 0), witness=f"column{c}")
            else:
                S.ensure("entry_value", z3.Implies(z3.And(kept, z3.Not(nan1[c](r)), inf1[c](r) == 0), gv == val1[c](r)),
                         witness=f"column{c}")
                S.ensure("infinities_kept_when_not_asked", z3.Implies(kept, gi == inf1[c](r)), witness=f"column{c}")
            S.ensure("nan_flag_as_specified", z3.Implies(kept, gn == nan1[c](r)), witness=f"column{c}")
            if fl["remove_nan"]:
                S.ensure("no_nan_left", z3.Implies(kept, z3.Not(gn)), witness=f"column{c}")
            # nothing else is altered: an ordinary entry is the loaded value
            S.ensure("ordinary_entries_unaltered",
                     z3.Implies(z3.And(kept, z3.Not(XN(r, c)), XI(r, c) == 0), z3.And(gv == X(r, c), z3.Not(gn), gi == 0)),
                     witness=f"column{c}")

    S.run(setup, post, max_paths=6000)
    res = S.finish(replay=replay_lts)
    res.unit = f"load_training_set.{part}"
    return res


def _write_ts(tmp, X, y, names):
    import numpy as np
    tmp.mkdir(parents=True, exist_ok=True)
    for j, nme in enumerate(names):
        np.savetxt(tmp / f"train_{nme}.txt", X[:, j])
    np.savetxt(tmp / "train_response.txt", y)


def _reference(X, y, replace_inf=True, impute=True, remove_nan=True):
    """independent reimplementation of the statement"""
    import numpy as np
    X = X.copy()
    y = y.copy()
    if impute:
        for c in range(X.shape[1]):
            col = X[:, c].copy()
            zr = y == 0
            ref = zr & ~np.isnan(col)
            tgt = zr & np.isnan(col)
            if tgt.any() and ref.any():
                X[tgt, c] = np.mean(col[ref])
    if remove_nan:
        keep = ~np.isnan(X).any(axis=1)
        X, y = X[keep], y[keep]
    if replace_inf:
        for c in range(X.shape[1]):
            col = X[:, c]
            inf = np.isinf(col)
            if inf.any():
                ext = np.nanmax(np.abs(col[~inf]))
                col[np.isposinf(col)] = 2 * ext
                col[np.isneginf(col)] = -2 * ext
    return X, y


def replay_lts(ob):
    import pathlib
    import shutil
    import tempfile
    import numpy as np
    from nanite.rate.rater import IndentationRater
    rng = np.random.default_rng(5)
    names = IndentationRater.get_feature_names(which_type=["continuous"])
    tmp = pathlib.Path(tempfile.mkdtemp(prefix="vf-c15-"))
    try:
        for t in range(60):
            n = int(rng.integers(2, 30)) if t > 2 else 1
            X = rng.normal(size=(n, len(names)))
            y = rng.integers(0, 4, size=n).astype(float)
            for _ in range(int(rng.integers(0, 8))):
                X[rng.integers(n), rng.integers(len(names))] = rng.choice([np.nan, np.inf, -np.inf])
            if t % 3 == 0 and n > 2:
                X[1, 0], X[1, 1] = np.inf, -np.inf      # opposite infinities in one row
            for flags in ((True, True, True), (False, True, True), (True, False, True), (True, True, False)):
                _write_ts(tmp / "ts", X, y, names)
                try:
                    gx, gy = IndentationRater.load_training_set(path=tmp / "ts", replace_inf=flags[0],
                                                                impute_zero_rated_nan=flags[1], remove_nan=flags[2])
                    gy = np.atleast_1d(gy)
                except ValueError:
                    continue       # all-infinite column: outside the stated domain
                except Exception as exc:
                    return {"confirmed": True, "input": {"rows": n, "flags": flags}, "observed": repr(exc)[:160],
                            "required": "cleaned samples and aligned responses"}
                wx, wy = _reference(X, y, *flags)
                if gx.shape != wx.shape or not np.allclose(gx, wx, equal_nan=True) or not np.array_equal(gy, wy):
                    return {"confirmed": True, "input": {"rows": n, "flags": flags, "matrix": X.tolist()[:6]},
                            "observed": {"shape": list(gx.shape), "responses": gy.tolist()[:10]},
                            "required": {"shape": list(wx.shape), "responses": wy.tolist()[:10]}}
        return {"confirmed": False}
    finally:
        shutil.rmtree(tmp, ignore_errors=True)


def unit_bounded_training_sets(tier=None, seed=0):
    import pathlib
    import shutil
    import tempfile
    import time
    import numpy as np
    from nanite.rate.rater import IndentationRater
    t0 = time.time()
    rng = np.random.default_rng(seed or 11)
    allnames = IndentationRater.get_feature_names(which_type=["continuous"])
    tmp = pathlib.Path(tempfile.mkdtemp(prefix="vf-c15b-"))
    problems, ne, samples = [], 0, []
    try:
        for t in range(60 if tier == "quick" else 500):
            n = int(rng.integers(1, 41))
            k = int(rng.integers(1, len(allnames) + 1))
            sub = sorted(rng.choice(allnames, size=k, replace=False).tolist())
            X = rng.normal(size=(n, len(allnames)))
            y = rng.integers(0, 11, size=n).astype(float)
            pattern = t % 8
            if pattern == 1:
                X[rng.integers(n)] = np.nan
            elif pattern == 2:
                X[:, rng.integers(len(allnames))] = np.nan
            elif pattern == 3:
                y[:] = 5
                X[rng.integers(n), 0] = np.nan
            elif pattern == 4:
                for _ in range(6):
                    X[rng.integers(n), rng.integers(len(allnames))] = rng.choice([np.inf, -np.inf, np.nan])
            elif pattern == 5 and n > 1:
                y[:2] = 0
                X[0, 0] = np.nan
            elif pattern in (6, 7) and n > 2:
                # several zero-rated rows with NaN in DIFFERENT columns: the per-feature reference rows differ
                # (pattern 7: every zero-rated row has a NaN somewhere, so no row is a reference for all features)
                nz = int(rng.integers(2, min(n, 6) + 1))
                y[:nz] = 0
                y[nz:] = np.maximum(y[nz:], 1)
                cols = rng.permutation(len(allnames))
                for r in range(nz if pattern == 7 else nz - 1):
                    X[r, cols[r % len(cols)]] = np.nan
            _write_ts(tmp / "ts", X, y, allnames)
            for flags in ((True, True, True), (True, False, True)) if tier == "quick" else \
                    [(a, b, c) for a in (True, False) for b in (True, False) for c in (True, False)]:
                idx = [allnames.index(s) for s in sub]
                ne += 1
                case = {"rows": n, "features": len(sub), "pattern": pattern, "flags": flags}
                try:
                    gx, gy, gn = IndentationRater.load_training_set(path=tmp / "ts", names=list(reversed(sub)),
                                                                    replace_inf=flags[0], impute_zero_rated_nan=flags[1],
                                                                    remove_nan=flags[2], ret_names=True)
                except ValueError as exc:
                    # outside the stated domain: a column whose kept rows hold an infinity but no finite entry
                    wx0, _wy0 = _reference(X[:, idx], y, False, flags[1], flags[2])
                    nofinite = any(np.isinf(wx0[:, c]).any() and not np.isfinite(wx0[:, c]).any()
                                   for c in range(wx0.shape[1]))
                    if not (nofinite and flags[0]):
                        problems.append({**case, "what": f"raised {exc!r}"[:120]})
                    continue
                except BaseException as exc:
                    problems.append({**case, "what": f"raised {exc!r}"[:120]})
                    continue
                wx, wy = _reference(X[:, idx], y, *flags)
                if gn != sub:
                    problems.append({**case, "what": f"columns {gn} instead of sorted names"})
                elif gx.shape != wx.shape or not np.allclose(gx, wx, equal_nan=True) or not np.array_equal(np.atleast_1d(gy), wy):
                    problems.append({**case, "what": "samples/responses differ from the independent reference"})
                elif flags == (True, True, True) and gx.size and not np.all(np.isfinite(gx)):
                    problems.append({**case, "what": "NaN or inf left in the cleaned matrix"})
                if len(samples) < 3:
                    samples.append(case)
            if len(problems) > 3:
                break
        # sample weights
        for t in range(40):
            n = int(rng.integers(1, 60))
            y = rng.integers(0, 11, size=n).astype(float)
            w = IndentationRater.compute_sample_weight(None, y)
            ne += 1
            tot = {c: w[y == c].sum() for c in np.unique(y)}
            if np.any(w < 0) or not np.isclose(w.sum(), 1) or not np.allclose(list(tot.values()), 1 / len(tot)):
                problems.append({"what": "sample weights not non-negative / normalised / class-balanced", "y": y.tolist()})
                break
    finally:
        shutil.rmtree(tmp, ignore_errors=True)
    res = UnitResult(unit="bounded.training_sets")
    res.bounded.append(BoundedResult(
        bid="C15.bounded.random_training_sets_vs_reference", ok=not problems, evaluations=ne, distinct=ne,
        bound="seeded matrices (1..40 rows, NaN/inf by row, column, class; missing classes) x feature subsets "
              "(requested in reverse order) x flag combinations through the text files; 40 response vectors for the weights",
        detail="matches the independent reference; weights non-negative, normalised, class-balanced"
        if not problems else str(problems[0])[:300], samples=samples,
        failing_input=problems[0] if problems else None,
        witness="" if not problems else ("rows=%s" % problems[0].get("rows", "weights")),
        time_s=round(time.time() - t0, 2)))
    return res


def unit_bounded_export(tier=None, seed=0):
    """export a rating container as a training set and load it: features to 3 digits, ratings in container order"""
    import pathlib
    import shutil
    import tempfile
    import time
    import warnings
    import numpy as np
    import nanite
    from nanite.rate import io as rio
    from nanite.rate.rater import IndentationRater
    t0 = time.time()
    warnings.simplefilter("ignore")
    data = pathlib.Path(os.environ.get("VF_REPO", "/repo")) / "tests" / "data"
    tmp = pathlib.Path(tempfile.mkdtemp(prefix="vf-c15e-"))
    problems, ne = [], 0
    try:
        h5 = tmp / "r.h5"
        curves = []
        rm = None
        for fn, rate in (("fmt-jpk-fd_spot3-0192.jpk-force", 7), ("fmt-jpk-fd_single_bad_2017-01-16_1.jpk-force", 1),
                         ("fmt-jpk-fd_single_bad_bead7_2017-04-27.jpk-force", 3)):
            cur = nanite.IndentationGroup(data / fn)[0]
            cur.fit_model(preprocessing=["compute_tip_position", "correct_force_offset", "correct_tip_offset"],
                          model_key="hertz_para")
            rio.save_hdf5(h5, cur, user_rate=rate, user_name="vf", user_comment="c")
            curves.append((cur, rate))
            if rm is None:
                # a manager that has already looked at the container while it held ONE curve (as the rating GUI
                # does): what it exports later is the container as it is then, rows and ratings aligned
                rm = rio.RateManager(h5)
                _ = (rm.ratings, rm.datasets, rm.samples)
        out = tmp / "ts_out"
        rm.export_training_set(out)
        names = IndentationRater.get_feature_names(which_type="all")
        loaded = rio.load(h5)
        order = [r["rating"] for r in loaded]
        resp = np.atleast_1d(np.loadtxt(out / "train_response.txt"))
        ne += 1
        first = np.atleast_1d(np.loadtxt(out / f"train_{names[0]}.txt"))
        if len(first) != len(resp):
            problems.append({"what": f"{len(first)} feature rows exported for {len(resp)} ratings (manager used before "
                                     "two more curves were stored)"})
        if not np.array_equal(resp, np.array(order, dtype=float)):
            problems.append({"what": f"responses {resp.tolist()} vs container order {order}"})
        for j, nme in enumerate(names):
            col = np.atleast_1d(np.loadtxt(out / f"train_{nme}.txt"))
            for i, rec in enumerate(loaded):
                if i >= len(col):
                    break
                want = IndentationRater.compute_features(rec["data_set"], names=[nme])[0]
                ne += 1
                got = col[i]
                if not ((np.isnan(got) and np.isnan(want)) or np.isclose(got, want, rtol=6e-3, atol=0)):
                    problems.append({"what": f"{nme} of curve {i}: exported {got} vs computed {want}"})
    except BaseException as exc:
        problems.append({"what": f"raised {exc!r}"[:200]})
    finally:
        shutil.rmtree(tmp, ignore_errors=True)
    res = UnitResult(unit="bounded.export_round_trip")
    res.bounded.append(BoundedResult(
        bid="C15.bounded.export_then_load", ok=not problems, evaluations=max(ne, 1), distinct=max(ne, 2),
        bound="3 fitted recorded curves saved to a container, exported, text files compared per feature (3 significant "
              "digits) and ratings in container order",
        detail="exported features and ratings match" if not problems else str(problems[0])[:300],
        samples=[{"curves": 3}], failing_input=problems[0] if problems else None,
        witness="" if not problems else "export", time_s=round(time.time() - t0, 2)))
    return res


CANARIES = [
    dict(name="responses not filtered with the samples", file="rate/rater.py", old="            response = response[valid]\n",
         new="", expect="responses_selected_by_the_same_rows"),
    dict(name="infinities become the extreme instead of twice", file="rate/rater.py", old="                        samples[posinf, ii] = 2 * extreme",
         new="                        samples[posinf, ii] = extreme", expect="entry_value"),
    dict(name="imputation over all zero-rated rows incl. NaN", file="rate/rater.py", old="                ref = np.logical_and(resp0, ~fnans)",
         new="                ref = resp0", expect="C15"),
    dict(name="row sum instead of NaN count", file="rate/rater.py",
         old="            valid = ~np.array(np.sum(np.isnan(samples), axis=1), dtype=bool)",
         new="            valid = ~np.isnan(np.sum(samples, axis=1))", expect="row_kept_iff_no_nan_after_imputation"),
    dict(name="sample weights proportional to occurrence", file="rate/rater.py", old="                weight[idxii] = 1 / occur",
         new="                weight[idxii] = occur", expect="C15"),
]


def unit_canaries(tier=None, seed=None):
    from ..selftest import run_canaries
    return run_canaries("C15", CANARIES)


def units(tier):
    us = [Unit("load_training_set.two_columns", unit_load_training_set, part="two_columns"),
          Unit("load_training_set.two_columns_noimpute", unit_load_training_set, part="two_columns_noimpute"),
          Unit("load_training_set.one_column", unit_load_training_set, part="one_column"),
          Unit("bounded.training_sets", unit_bounded_training_sets),
          Unit("bounded.export_round_trip", unit_bounded_export)]
    if tier == "thorough" and not os.environ.get("VF_NO_CANARIES") and str(REPO) == "/repo":
        us.append(Unit("selftest.canaries", unit_canaries))
    return us


def replay_file(path):
    import json
    r = replay_lts(None)
    print(json.dumps(r, indent=1, default=str))
    return 1 if r.get("confirmed") else 0
