"""C17  Rating features are well-defined, bounded and independent of force units.

  get_feature_names / compute_features   sorted, duplicate-free, subset of the request; values in the
        order of the sorted names (feature bodies under contract, inspect.getmembers modelled by the
        class's own methods); unknown names -> ValueError; bad type -> ValueError
  feature guards / predicates           without a successful fit every fit-dependent feature is NaN, no
        exception, no data read (feat_units; shared with C09)
  purity                                 syntactic: every accessor hands out a copy; no store to the curve
  range lemmas                           apr_size = 1 - count/total in [0,1]; apr_flatness = pos/(pos+neg) in
        [0,1] or NaN; log(1+|.|) features >= 0 (from the real expressions, z3)
Bounded: all features on fitted recorded/synthetic curves: finite-or-NaN, binary in {0,1}, scale
invariance under a common force factor, independence of the retract segment, curve unchanged.
"""
from __future__ import annotations

import ast
import os

import z3

from ..core import REPO, SRC, UnitResult, BoundedResult, ObResult, DISCHARGED, REFUTED
from ..unit import Unit
from ..engine.prove import Session, solve
from ..engine import symex as sx
from ..engine import values as V
from ..engine.values import SAtom, SReal, SBool, SInt
from . import feat_units as FU
from . import featrange_units as FR

LEVEL = "other"
EXPLANATION = ("Deductive: ordering/selection contracts of get_feature_names and compute_features, guard and "
               "predicate totality for every state of the fit properties, syntactic purity, and the fifteen feat_* "
               "bodies executed symbolically on a fitted curve (arrays of any length; external filters, lstsq, std "
               "under assumed contracts): no exception, no +-inf, NaN or inside the stated range. Bounded: scale "
               "independence, segment dependence and numeric ranges on recorded and synthetic curve shapes.")
MOD = "nanite.rate.features"


def _install_inspect(I):
    def getmembers(I, cls, pred=None):
        out = {}
        for c in reversed(cls.mro()):
            for k, v in c.ns.items():
                if k.startswith("__") and k.endswith("__"):
                    continue
                out[k] = v
        items = sorted(out.items())
        if pred is None:
            return [(k, v) for k, v in items]
        return [(k, v) for k, v in items if I.truth(I.call(pred, [v], {}))]
    I.lib["inspect.getmembers"] = getmembers
    isr = lambda I, a: isinstance(a, (sx.FuncVal, sx.Builtin, sx.BoundMethod)) and not getattr(a, "is_property", False)
    I.lib["inspect.isroutine"] = isr


WT = ["all", "binary", "continuous", ["continuous", "binary"], ["binary", "continuous"], ["continuous"],
      ("binary",), "bogus"]


def unit_feature_names(tier=None, seed=None, prop="C17"):
    S = Session(prop, "get_feature_names", f"{MOD}:IndentationFeatures.get_feature_names")
    allf = FU.feature_names()
    st = {}

    def setup(I):
        _install_inspect(I)
        cls = I.lookup_qual(f"{MOD}:IndentationFeatures")
        wi = I.choose([z3.Int("which_type") == i for i in range(len(WT))])
        if wi >= len(WT):
            raise sx.PathAbort()
        wt = WT[wi]
        nv = I.choose([z3.Int("names_variant") == i for i in range(4)])
        if nv >= 4:
            raise sx.PathAbort()
        names = [None, [allf[5], allf[0], allf[9]], [allf[3], "feat_con_no_such_feature"], []][nv]
        ri = I.fork(z3.Bool("ret_indices"))
        st.update(wt=wt, names=names, ri=ri, cls=cls)
        f, _ = cls.find("get_feature_names")
        return sx.BoundMethod(cls, f), [], dict(which_type=wt, names=names, ret_indices=ri)

    def expected(wt, names):
        def of_type(t):
            pre = {"all": "feat_", "binary": "feat_bin_", "continuous": "feat_con_"}[t]
            return [n for n in allf if n.startswith(pre)]
        sel = []
        for t in (wt if isinstance(wt, (list, tuple)) else [wt]):
            sel += of_type(t)
        if names:
            sel = [n for n in sel if n in names]
        return sorted(set(sel))

    def post(S, out):
        wt, names = st["wt"], st["names"]
        case = {"which_type": wt, "names": names, "ret_indices": st["ri"], "outcome": repr(out)}
        if wt == "bogus":
            S.ensure("invalid_type_raises_ValueError", out.raises("ValueError"), case=case)
            return
        if names and any(n not in allf for n in names):
            S.ensure("unknown_names_raise_ValueError", out.raises("ValueError"), case=case)
            return
        if out.kind != "return":
            S.fail("returns", repr(out), case=case)
            return
        rv = out.value
        idx = None
        if st["ri"]:
            rv, idx = rv
        rv = list(rv)
        case["result"] = rv
        S.ensure("names_sorted", rv == sorted(rv), case=case)
        S.ensure("names_duplicate_free", len(set(rv)) == len(rv), case=case)
        S.ensure("exactly_the_requested_features_of_the_requested_types", rv == expected(wt, names), case=case)
        if idx is not None:
            from ..engine.arrays import SArray
            ok = isinstance(idx, SArray) and isinstance(idx.length, int) and idx.length == len(rv)
            if ok:
                got = [z3.simplify(V.iterm(idx.at(z3.IntVal(i)))).as_long() for i in range(idx.length)]
                ok = [allf[g] for g in got] == rv
            S.ensure("indices_point_at_the_names", ok, case=case)

    S.run(setup, post)
    return S.finish(replay=replay_names)


def replay_names(ob):
    from nanite.rate.features import IndentationFeatures as F
    allf = F.get_feature_names()
    for wt in WT[:-1]:
        for names in (None, [allf[5], allf[0], allf[9]]):
            rv, idx = F.get_feature_names(which_type=wt, names=names, ret_indices=True)
            if rv != sorted(rv) or len(set(rv)) != len(rv) or [allf[i] for i in idx] != rv:
                return {"confirmed": True, "input": {"which_type": wt, "names": names},
                        "observed": {"names": rv, "indices": [int(i) for i in idx]},
                        "required": "sorted names with matching indices"}
    return {"confirmed": False}


def unit_compute_features(tier=None, seed=None):
    S = Session("C17", "compute_features", f"{MOD}:IndentationFeatures.compute_features")
    allf = FU.feature_names()
    st = {}

    def setup(I):
        _install_inspect(I)
        cls = I.lookup_qual(f"{MOD}:IndentationFeatures")
        vals = {}
        for n in allf:
            v = SReal(z3.Real("value_" + n), z3.Bool("isnan_" + n))
            vals[n] = v
            cls.ns[n] = sx.Builtin(n, (lambda v: (lambda I, self: v))(v))
        wi = I.choose([z3.Int("which_type") == i for i in range(3)])
        nv = I.choose([z3.Int("names_variant") == i for i in range(3)])
        if wi >= 3 or nv >= 3:
            raise sx.PathAbort()
        wt = ["all", "continuous", ["continuous", "binary"]][wi]
        names = [None, [allf[9], allf[0], allf[5]], [allf[2]]][nv]
        rn = I.fork(z3.Bool("ret_names"))
        idnt = sx.Opaque("curve")
        st.update(wt=wt, names=names, vals=vals, rn=rn, idnt=idnt)
        f, _ = cls.find("compute_features")
        return f, [], dict(idnt=idnt, which_type=wt, names=names, ret_names=rn)

    def post(S, out):
        I = S.I
        wt, names, vals = st["wt"], st["names"], st["vals"]
        case = {"which_type": wt, "names": names, "outcome": repr(out)}
        if out.kind != "return":
            S.fail("returns", repr(out), case=case)
            return
        rv = out.value
        rnames = None
        if st["rn"]:
            rv, rnames = rv
        from ..engine.arrays import SArray
        if not (isinstance(rv, SArray) and isinstance(rv.length, int)):
            S.fail("returns_one_value_per_feature", repr(rv), case=case)
            return

        def of_type(t):
            pre = {"all": "feat_", "binary": "feat_bin_", "continuous": "feat_con_"}[t]
            return [n for n in allf if n.startswith(pre)]
        sel = []
        for t in (wt if isinstance(wt, list) else [wt]):
            sel += of_type(t)
        if names:
            sel = [n for n in sel if n in names]
        # the statement: "returned in the order of the sorted names requested"
        want = sorted(set(sel)) if not (names is not None and wt == "all") else list(names)
        if names is not None and wt == "all":
            # documented exception in the code: with which_type 'all' the given order of names is kept
            S.I.notes.append("compute_features keeps the caller's order of `names` when which_type == 'all' "
                             "(documented in the source); sorted order is required for every other call")
        S.ensure("returns_one_value_per_feature", rv.length == len(want), case=case)
        if rv.length == len(want):
            for i, n in enumerate(want):
                got = rv.at(z3.IntVal(i))
                S.ensure("values_in_the_order_of_the_sorted_names",
                         z3.And(V.rterm(got) == vals[n].term, A_nan(got) == vals[n].nan), witness=f"position{i}")
            if rnames is not None:
                S.ensure("names_returned_match_values", list(rnames) == want, case=case)

    def A_nan(v):
        from ..engine.arrays import _zb
        return _zb(V.nanflag(v))

    S.run(setup, post)
    return S.finish(replay=replay_names)


def unit_purity(tier=None, seed=None):
    """accessors return copies; no assignment to the curve anywhere in the features class"""
    res = UnitResult(unit="purity")
    src = (SRC / "rate" / "features.py").read_text()
    tree = ast.parse(src)
    bad, n = [], 0
    for cls in tree.body:
        if not (isinstance(cls, ast.ClassDef) and cls.name == "IndentationFeatures"):
            continue
        for fn in cls.body:
            if not isinstance(fn, ast.FunctionDef):
                continue
            n += 1
            for node in ast.walk(fn):
                # stores through self.dataset[...] / self.dataset.attr / in-place ops on them
                if isinstance(node, (ast.Assign, ast.AugAssign)):
                    targets = node.targets if isinstance(node, ast.Assign) else [node.target]
                    for t in targets:
                        base = t
                        while isinstance(base, (ast.Subscript, ast.Attribute)):
                            if isinstance(base, ast.Attribute) and base.attr == "dataset" and fn.name != "__init__":
                                bad.append(f"{fn.name}: store through self.dataset (line {node.lineno})")
                            base = base.value
            if fn.name.startswith("data") and fn.name not in ("datares_apr",):
                ret = [x for x in ast.walk(fn) if isinstance(x, ast.Return)]
                seg = ast.get_source_segment(src, fn)
                if ".copy()" not in seg:
                    bad.append(f"{fn.name}: accessor does not copy")
    ok = not bad and n > 15
    res.obligations.append(ObResult(oid="C17.purity.accessors_copy_and_curve_never_written", status=DISCHARGED if ok else REFUTED,
                                    backend="syntactic", paths=n, detail=f"{n} methods scanned" if ok else "; ".join(bad)[:300],
                                    model={"offending": bad} if bad else None, replay={"confirmed": bool(bad)}))
    return res


def unit_range_lemmas(tier=None, seed=None):
    """closed-form ranges of the fraction-type features (expressions as in the source)"""
    from .c13 import lemma_session
    S = lemma_session("C17", "range_lemmas")
    cnt, tot, pos, neg = z3.Ints("aprsize tolsize pos neg")
    S.ensure("apr_size_in_0_1", z3.Implies(z3.And(0 <= cnt, cnt <= tot, tot > 0),
                                           z3.And(1 - z3.ToReal(cnt) / z3.ToReal(tot) >= 0,
                                                  1 - z3.ToReal(cnt) / z3.ToReal(tot) <= 1)))
    v = z3.ToReal(pos) / z3.ToReal(pos + neg)
    S.ensure("apr_flatness_in_0_1", z3.Implies(z3.And(pos >= 0, neg >= 0, pos + neg > 0), z3.And(v >= 0, v <= 1)))
    x = z3.Real("x")
    lg = V.LOG(1 + z3.If(x >= 0, x, -x))
    S.I.trusted.add("A4.log(1+t) >= 0 for t >= 0")
    S.ensure("log1p_abs_nonnegative", lg >= 0, extra=[z3.ForAll([x], z3.Implies(x >= 1, V.LOG(x) >= 0))])
    return S.finish()


def replay_value(ob):
    """native: the synthetic curve shapes of the bounded run, for the feature named in the obligation"""
    r = unit_bounded_features(tier="quick")
    b = r.bounded[0]
    feat = ob.oid.split(".value.", 1)[-1].split(".")[0]
    fi = b.failing_input or {}
    if not b.ok and fi.get("feature") == feat:
        return {"confirmed": True, "input": {k: v for k, v in fi.items() if k != "what"}, "observed": fi.get("what"),
                "required": "NaN or a finite value in the feature's range"}
    return {"confirmed": False}


# ------------------------------------------------------------------ bounded
def unit_bounded_features(tier=None, seed=0):
    import time
    import warnings
    import numpy as np
    import nanite
    from nanite.rate.features import IndentationFeatures as F
    from . import indent_units as IU
    t0 = time.time()
    warnings.simplefilter("ignore")
    problems, ne, samples = [], 0, []
    P = ["compute_tip_position", "correct_force_offset", "correct_tip_offset"]
    allf = F.get_feature_names()
    import pathlib
    data = pathlib.Path(os.environ.get("VF_REPO", "/repo")) / "tests" / "data"
    files = ["fmt-jpk-fd_spot3-0192.jpk-force", "fmt-jpk-fd_single_bad_2017-01-16_1.jpk-force",
             "fmt-jpk-fd_single_bad_bead7_2017-04-27.jpk-force"]
    if tier != "quick":
        files += [p.name for p in sorted(data.glob("fmt-jpk-fd_single_bad_*.jpk-force"))[2:8]]
    for fn in files:
        try:
            cur = nanite.IndentationGroup(data / fn)[0]
            cur.fit_model(preprocessing=P, model_key="hertz_para", weight_cp=False)
        except BaseException as exc:
            continue
        cols_before = {c: np.array(cur[c], copy=True) for c in cur.columns}
        fp_before = dict(cur.fit_properties)
        vals = F.compute_features(cur)
        ne += 1
        case = {"file": fn}
        for n, v in zip(allf, vals):
            if not (np.isnan(v) or np.isfinite(v)):
                problems.append({**case, "feature": n, "what": f"value {v}"})
            if n.startswith("feat_bin_") and not (np.isnan(v) or v in (0.0, 1.0)):
                problems.append({**case, "feature": n, "what": f"binary feature = {v}"})
            if n in ("feat_con_apr_size", "feat_con_apr_flatness") and not (np.isnan(v) or 0 <= v <= 1):
                problems.append({**case, "feature": n, "what": f"fraction feature = {v}"})
        if any(not np.array_equal(cols_before[c], np.array(cur[c]), equal_nan=True) for c in cols_before) \
                or set(cur.columns) != set(cols_before) or dict(cur.fit_properties).keys() != fp_before.keys():
            problems.append({**case, "what": "computing the features changed the curve"})
        # common positive factor on force and fit
        for s in (2.0, 0.125, 3.7, 1e9):
            c2 = nanite.IndentationGroup(data / fn)[0]
            c2.fit_model(preprocessing=P, model_key="hertz_para", weight_cp=False)
            c2["force"] = np.array(c2["force"]) * s
            c2["fit"] = np.array(c2["fit"]) * s
            v2 = F.compute_features(c2)
            ne += 1
            for n, a, b in zip(allf, vals, v2):
                if not ((np.isnan(a) and np.isnan(b)) or np.isclose(a, b, rtol=1e-9, atol=1e-12)):
                    problems.append({**case, "feature": n, "scale": s, "what": f"{a} vs {b} after scaling force and fit"})
        # retract perturbation
        c3 = nanite.IndentationGroup(data / fn)[0]
        c3.fit_model(preprocessing=P, model_key="hertz_para", weight_cp=False)
        seg = np.array(c3["segment"], dtype=bool)
        f3 = np.array(c3["force"])
        f3[seg] = f3[seg] * 1.7 + 1e-9
        c3["force"] = f3
        v3 = F.compute_features(c3)
        ne += 1
        for n, a, b in zip(allf, vals, v3):
            if not ((np.isnan(a) and np.isnan(b)) or a == b):
                problems.append({**case, "feature": n, "what": "depends on the retract segment"})
        if len(samples) < 3:
            samples.append({**case, "values": [float(x) for x in vals[:4]]})
        if problems:
            break
    # synthetic curve shapes on a recorded, fitted curve: the force of the indentation part and the residuals
    # (the 'fit' column) are replaced by patterns the recorded files do not contain
    MAGNITUDE = [n for n in allf if n.startswith("feat_con_") and n != "feat_con_cp_curvature"
                 and n not in ("feat_con_apr_size", "feat_con_apr_flatness")]
    rng = np.random.default_rng(seed or 3)
    def long_curve():
        """recorded object with a synthetic paraboloid curve: contact at 40 % of the approach, so that the
        indentation part is long (about 1200 samples)"""
        c = nanite.IndentationGroup(data / files[0])[0]
        c.apply_preprocessing(["compute_tip_position"])
        sg = np.array(c["segment"]) == 0
        na, nr = int(sg.sum()), int((~sg).sum())
        xa = np.linspace(2e-6, -3e-6, na)
        xr = np.linspace(-3e-6, 2e-6, nr)
        hz = lambda xx: np.where(xx < 0, 4 / 3 * 3000 / (1 - 0.25) * np.sqrt(5e-6) * np.abs(xx) ** 1.5, 0.0)
        tp, fo = np.array(c["tip position"]), np.array(c["force"])
        tp[sg], tp[~sg] = xa, xr
        fo[sg], fo[~sg] = hz(xa) + 1e-12 * rng.standard_normal(na), hz(xr)
        c["tip position"], c["force"] = tp, fo
        return c
    def recorded_curve():
        c = nanite.IndentationGroup(data / files[0])[0]
        c.apply_preprocessing(P)
        return c

    def setup_base(mk):
        base = mk()
        base.fit_model(model_key="hertz_para", weight_cp=False)
        bf, bx = np.array(base["force"]), np.array(base["tip position"])
        bseg = np.array(base["segment"]) == 0
        bcp = base.fit_properties["params_fitted"]["contact_point"].value
        bind = bseg & (bx < bcp)
        return bf, bseg, bind, int(bind.sum()), float(np.nanmax(bf[bseg]))
    shapes = []
    # (a) force shapes of the indentation part, on the recorded curve
    bf, bseg, bind, nind, amp = setup_base(recorded_curve)
    shapes.append(("flat indentation", recorded_curve, bf, bseg, bind, np.full(nind, bf[bind][0]), None))
    shapes.append(("falling indentation", recorded_curve, bf, bseg, bind, -np.abs(bf[bind]), None))
    # (b) residual patterns, on the long synthetic curve
    bf, bseg, bind, nind, amp = setup_base(long_curve)
    t = np.linspace(0, 1, nind)

    def glitches(sign):
        r = np.zeros(nind)
        for c in rng.integers(30, nind - 30, size=4):
            # ringing: a short excursion whose central sample overshoots the other way (the raw residual is far
            # above the trend there while the slightly smoothed one is below it)
            r[c - 2:c + 3] = -sign * 0.15 * amp
            r[c] = sign * 0.10 * amp
        return r
    for label, r_ in (("noise", 0.01 * amp * rng.standard_normal(nind)),
                      ("positive spikes", np.where(rng.random(nind) < 0.01, 0.3 * amp, 0.0)),
                      ("negative spikes", np.where(rng.random(nind) < 0.01, -0.3 * amp, 0.0)),
                      ("ringing glitches (+)", glitches(+1)), ("ringing glitches (-)", glitches(-1)),
                      ("slow wave", 0.05 * amp * np.sin(6 * np.pi * t)),
                      ("step", np.where(t > 0.5, 0.1 * amp, -0.1 * amp))):
        shapes.append((label, long_curve, bf, bseg, bind, None, r_))
    for label, mk, bf, bseg, bind, force_ind, resid_ind in shapes:
        c4 = mk()
        f4 = bf.copy()
        if force_ind is not None:
            f4[bind] = force_ind
        c4["force"] = f4
        c4.fit_model(model_key="hertz_para", weight_cp=False)
        if not c4.fit_properties["success"]:
            continue
        if resid_ind is not None:
            ft = np.array(c4["fit"])
            ft[bind] = np.array(c4["force"])[bind] + resid_ind
            c4["fit"] = ft
        try:
            v4 = F.compute_features(c4)
        except BaseException as exc:
            problems.append({"shape": label, "what": f"raised {exc!r}"[:120]})
            continue
        ne += 1
        positive_force = np.nanmax(np.array(c4["force"])[bseg]) > 0
        for n, v in zip(allf, v4):
            if not (np.isnan(v) or np.isfinite(v)):
                problems.append({"shape": label, "feature": n, "what": f"value {v} (neither NaN nor finite)"})
            elif n.startswith("feat_bin_") and not (np.isnan(v) or v in (0.0, 1.0)):
                problems.append({"shape": label, "feature": n, "what": f"binary feature = {v}"})
            elif n in ("feat_con_apr_size", "feat_con_apr_flatness") and not (np.isnan(v) or 0 <= v <= 1):
                problems.append({"shape": label, "feature": n, "what": f"fraction feature = {v}"})
            elif n in MAGNITUDE and positive_force and v < 0:
                problems.append({"shape": label, "feature": n, "what": f"magnitude feature = {v}"})
    # fitted curves with the contact point (fixed) a few samples before the deepest point of the approach
    import copy
    for off in (1, 2, 3, 7):
        c5 = recorded_curve()
        xa = np.array(c5["tip position"])[np.array(c5["segment"]) == 0]
        p5 = copy.deepcopy(c5.get_initial_fit_parameters(model_key="hertz_para"))
        p5["contact_point"].set(value=float(xa[int(np.argmin(xa)) - off]), vary=False)
        c5.fit_model(model_key="hertz_para", params_initial=p5, weight_cp=False)
        if not c5.fit_properties["success"]:
            continue
        ne += 1
        for what, fn_ in (("compute_features", lambda: F.compute_features(c5)), ("rate_quality", c5.rate_quality)):
            try:
                r5 = fn_()
                if what == "compute_features" and not all(np.isnan(v) or np.isfinite(v) for v in r5):
                    problems.append({"shape": f"contact point {off} samples before the deepest point",
                                     "what": "feature neither NaN nor finite"})
            except BaseException as exc:
                problems.append({"shape": f"contact point {off} samples before the deepest point",
                                 "feature": "feat_con_idt_maxima_75perc" if "argmin" in repr(exc) else what,
                                 "what": f"{what} raised {exc!r}"[:140]})
    # unfitted / unsuccessful states: NaN rather than an error
    for label in ("fresh", "preprocessed", "edited"):
        cur = IU._curve()
        if label != "fresh":
            cur.apply_preprocessing(P)
        if label == "edited":
            cur.fit_model(model_key="hertz_para")
            cur.fit_properties["gcf_k"] = 0.5
        try:
            v = F.compute_features(cur)
            ne += 1
            if not all(np.isnan(x) for n, x in zip(allf, v) if n != "feat_bin_size"):
                problems.append({"state": label, "what": "fit-dependent feature not NaN without a fit"})
        except BaseException as exc:
            problems.append({"state": label, "what": f"raised {exc!r}"[:120]})
    res = UnitResult(unit="bounded.features_on_curves")
    res.bounded.append(BoundedResult(
        bid="C17.bounded.features_on_fitted_curves", ok=not problems, evaluations=ne, distinct=ne,
        bound=f"{len(files)} recorded curves x (values, 4 common scale factors, retract perturbation) + 9 synthetic curve "
              "shapes (force / residual patterns) + 3 unfitted states",
        detail="finite or NaN, binary in {0,1}, fractions in [0,1], scale independent (rtol 1e-9), retract independent, "
               "curve unchanged" if not problems else str(problems[0])[:300], samples=samples,
        failing_input=problems[0] if problems else None,
        witness="" if not problems else str(problems[0].get("feature", problems[0].get("state", "curve")))
        + (":" + problems[0]["shape"] if problems and "shape" in problems[0] else ""),
        time_s=round(time.time() - t0, 2)))
    return res


CANARIES = [
    dict(name="final sort of the names removed", file="rate/features.py", old="        fnames = sorted(fnames)\n        if ret_indices:",
         new="        if ret_indices:", expect="names_sorted"),
    dict(name="feature normalised by a constant instead of the maximum force", file="rate/features.py",
         old="            norm = xin.size * np.max(yin)", new="            norm = xin.size * 1e-9", expect="C17"),
    dict(name="else-branch returns 0 instead of NaN", file="rate/features.py",
         old="                    value = np.log(1 + value) / 10\n            else:\n                value = np.nan\n        else:\n            value = np.nan",
         new="                    value = np.log(1 + value) / 10\n            else:\n                value = np.nan\n        else:\n            value = 0",
         expect="nan_not_error_without_fit"),
    dict(name="monotony divides by a zero sum of rising gradients again", file="rate/features.py",
         old="                if gz == 0:\n", new="                if False:\n", expect="value.feat_con_idt_monotony"),
    dict(name="75 percent maxima: one-sample interval allowed again", file="rate/features.py",
         old="            if idmax - idmin > 1:\n", new="            if idmin != idmax:\n",
         expect="value.feat_con_idt_maxima_75perc.never_raises"),
    dict(name="accessor reads the retract segment", file="rate/features.py",
         old='        seg = self.dataset["segment"] == 0\n        y = self.dataset[yaxis][seg].copy()',
         new='        seg = self.dataset["segment"] == 1\n        y = self.dataset[yaxis][seg].copy()', expect="C17"),
    dict(name="is_fitted reads success unguarded", file="rate/features.py",
         old='            return self.dataset.fit_properties.get("success", False)',
         new='            return self.dataset.fit_properties["success"]', expect="predicates_never_raise"),
]


def unit_canaries(tier=None, seed=None):
    from ..selftest import run_canaries
    return run_canaries("C17", CANARIES)


def units(tier):
    us = [Unit("get_feature_names", unit_feature_names), Unit("compute_features", unit_compute_features),
          Unit("feature_predicates", FU.unit_predicates, prop="C17"), Unit("feature_guards", FU.unit_feature_guards, prop="C17"),
          Unit("purity", unit_purity)] + FR.units(replay=replay_value) + \
         [Unit("bounded.features_on_curves", unit_bounded_features)]
    # (the hand-written range lemmas "expressions as in the source" were a model of the code; they are replaced by
    #  the feature functions themselves under symbolic execution: featrange_units.py)
    if tier == "thorough" and not os.environ.get("VF_NO_CANARIES") and str(REPO) == "/repo":
        us.append(Unit("selftest.canaries", unit_canaries))
    return us


def replay_file(path):
    import json
    d = json.load(open(path))

    class _O:
        model = d.get("model")
        oid = d.get("obligation")
        witness = d.get("witness", "")
    r = FU.replay_predicates(_O) if ("predicates" in _O.oid or "guards" in _O.oid) else replay_names(_O)
    print(json.dumps(r, indent=1, default=str))
    return 1 if r.get("confirmed") else 0
