"""C16  Rating containers round-trip and only ever grow.

The HDF5 file is a finite map (groups /data/<hash>, /analysis/<hash>_<enum> with datasets and attributes);
h5py is under an assumed contract: every create/assignment either completes or raises and leaves earlier
writes in place.
  save_hdf5 (real body)   new entry: exactly the six datasets, 'data enum/hash', one 'fit <k>' attribute per fit
        property and the user/version attributes; existing entry with the same fit: ONLY user/version
        attributes; existing entry with a different fit: ValueError and not a single write; every other group
        and dataset untouched (so storing further curves never alters entries already present);
        CRASH INVARIANT: an exception injected at each write point leaves every /analysis group either without
        'fit' (the loader skips it) or complete -- previously stored ratings stay readable;
  load_hdf5 (real body)   reads exactly what the writer wrote: no exception on any complete entry, incomplete
        entries skipped with a warning;
  codecs                  preprocessing ','.join / split(',') and the range_x text codec are inverse on the values
        a fit can hold (string lemmas, bounded list length);
Bounded: save/load sequences on recorded curves, native failure injection at every h5py write.
"""
from __future__ import annotations

import os

import z3

from ..core import REPO, UnitResult, BoundedResult, ObResult, DISCHARGED, REFUTED, UNDECIDED
from ..unit import Unit
from ..engine.prove import Session, solve
from ..engine import symex as sx
from ..engine import values as V
from ..engine import arrays as A
from ..engine.values import SAtom, SReal, SBool, SInt
from ..engine.arrays import SArray
from ..engine.lmfit_model import sym_parameters

LEVEL = "other"
EXPLANATION = ("Deductive: write set, frame and refusal rule of save_hdf5, the crash invariant decided by executing "
               "the real load_hdf5 on the container an interrupted save leaves behind (failure injected at every "
               "write, symbolically), and the reader/writer key correspondence of load_hdf5, on a finite-map model "
               "of the container (h5py assumed), plus string lemmas for the two text codecs. Bounded: real "
               "containers, real curves, native failure injection with both load modes.")
MOD = "nanite.rate.io"
DATASETS = ["fit", "fit range", "force", "fit residuals", "tip position", "segment"]
USER = ["user comment", "user name", "user rate", "user time", "user time str"]
VERS = ["nanite version", "h5py version"]


class H5:
    """finite-map model of an open h5py.File with write-point fault injection"""

    def __init__(self, I, fail_at):
        self.I, self.fail_at, self.nwrites = I, fail_at, 0
        self.log = []
        self.gcls = sx.ClassVal("H5Group", [sx.OBJECT], {})
        self.acls = sx.ClassVal("H5Attrs", [sx.OBJECT], {})
        g, a = self.gcls.ns, self.acls.ns
        g["require_group"] = sx.Builtin("require_group", self.require_group)
        g["create_group"] = sx.Builtin("create_group", self.create_group)
        g["create_dataset"] = sx.Builtin("create_dataset", self.create_dataset)
        g["__contains__"] = sx.Builtin("contains", lambda I, s, k: self._key(k) in s.attrs["members"])
        g["__getitem__"] = sx.Builtin("getitem", self.getitem)
        g["__iter__"] = sx.Builtin("iter", lambda I, s: list(s.attrs["members"]))
        g["__enter__"] = sx.Builtin("enter", lambda I, s: s)
        g["__exit__"] = sx.Builtin("exit", lambda I, s, *x: None)
        a["__setitem__"] = sx.Builtin("attrs.setitem", self.attr_set)
        a["__getitem__"] = sx.Builtin("attrs.getitem", self.attr_get)
        a["__contains__"] = sx.Builtin("attrs.contains", lambda I, s, k: k in s.attrs["map"])
        a["__iter__"] = sx.Builtin("attrs.iter", lambda I, s: list(s.attrs["map"]))
        a["get"] = sx.Builtin("attrs.get", lambda I, s, k, d=None: s.attrs["map"].get(k, d))
        self.root = self.group("/")

    def _key(self, k):
        k = self.I.resolve(k)
        if isinstance(k, SAtom):
            return "<" + (k.label or "atom") + ">"
        if not isinstance(k, str):
            raise sx.Unsupported(f"HDF5 member name {k!r} (a string the model cannot compare)")
        return k

    def group(self, name):
        o = sx.Obj(self.gcls)
        at = sx.Obj(self.acls)
        at.attrs["map"] = {}
        at.attrs["owner"] = name
        o.attrs.update(members={}, attrs=at, name=name, kind="group")
        return o

    def _write(self, what):
        k = self.nwrites
        self.nwrites += 1
        if self.fail_at is not None and self.I.fork(self.fail_at == k):
            self.log.append(("FAILED", what))
            self.I.raise_py("OSError", f"injected failure at write {k}: {what}")
        self.log.append(("ok", what))

    def require_group(self, I, s, name):
        name = self._key(name)
        if name not in s.attrs["members"]:
            self._write(f"create group {s.attrs['name']}{name}")
            s.attrs["members"][name] = self.group(s.attrs["name"] + name + "/")
        return s.attrs["members"][name]

    def create_group(self, I, s, name):
        name = self._key(name)
        if name in s.attrs["members"]:
            I.raise_py("ValueError", "name already exists")
        self._write(f"create group {s.attrs['name']}{name}")
        s.attrs["members"][name] = self.group(s.attrs["name"] + name + "/")
        return s.attrs["members"][name]

    def create_dataset(self, I, s, name, data=None, **kw):
        name = self._key(name)
        if name in s.attrs["members"]:
            I.raise_py("ValueError", "name already exists")
        self._write(f"create dataset {s.attrs['name']}{name}")
        d = self.group(s.attrs["name"] + name)
        d.attrs.update(kind="dataset", data=data, kwargs=kw)
        s.attrs["members"][name] = d
        return d

    def getitem(self, I, s, k):
        if k is Ellipsis:
            return s.attrs.get("data")
        k = self._key(k)
        if k not in s.attrs["members"]:
            I.raise_py("KeyError", k)
        return s.attrs["members"][k]

    def attr_set(self, I, s, k, v):
        self._write(f"attr {s.attrs['owner']}@{k}")
        s.attrs["map"][k] = v

    def attr_get(self, I, s, k):
        if k not in s.attrs["map"]:
            I.raise_py("KeyError", k)
        return s.attrs["map"][k]

    # ---- helpers for the contracts
    def complete_entry(self, name, fpkeys, tag):
        g = self.group(name)
        for d in DATASETS:
            ds = self.group(name + d)
            ds.attrs.update(kind="dataset", data=A.new_array_input(self.I, f"{tag}_{d.replace(' ', '_')}", nan=(d != "segment")))
            g.attrs["members"][d] = ds
        m = g.attrs["attrs"].attrs["map"]
        m["data enum"], m["data hash"] = SInt(z3.Int(tag + "_enum")), "<dhash>"
        for k in fpkeys:
            m["fit " + k] = sx.Opaque(f"{tag} stored fit {k}")
        for k in USER + VERS:
            m[k] = sx.Opaque(f"{tag} stored {k}")
        # user fields of the same kinds as the arguments of save_hdf5 (so that they can be equal)
        m["user rate"] = SInt(z3.Int(tag + "_user_rate"))
        m["user name"] = SAtom(z3.Int(tag + "_user_name"))
        m["user comment"] = SAtom(z3.Int(tag + "_user_comment"))
        return g

    def snapshot(self, g=None):
        g = g or self.root
        return {"members": {k: self.snapshot(v) for k, v in g.attrs["members"].items()},
                "attrs": dict(g.attrs["attrs"].attrs["map"]), "data": g.attrs.get("data")}


def readable(h5, fpkeys):
    """what load_hdf5 needs: every analysis entry either lacks 'fit' (skipped) or is complete"""
    ana = h5.root.attrs["members"].get("analysis")
    if ana is None:
        return True        # nothing was ever stored: there are no ratings that could become unreadable
    data = h5.root.attrs["members"].get("data")
    if data is not None:
        # load_hdf5 extracts EVERY stored raw data file and needs its file name
        for name, d in data.attrs["members"].items():
            if "path" not in d.attrs["attrs"].attrs["map"]:
                return False
    for name, g in ana.attrs["members"].items():
        mem, at = g.attrs["members"], g.attrs["attrs"].attrs["map"]
        if "fit" not in mem:
            continue
        if not all(d in mem for d in DATASETS):
            return False
        if not all(k in at for k in ("data hash", "data enum", "user name", "user rate", "user comment")):
            return False
        if data is None or h5._key(at["data hash"]) not in data.attrs["members"]:
            return False
    return True


def _decodable(am, fp):
    """attribute values exactly as save_hdf5 encodes them (so that the real load_hdf5 can decode them)"""
    am["fit params_initial"] = ("__params_dump__", fp.d["params_initial"][1])
    am["fit params_fitted"] = ("__params_dump__", fp.d["params_fitted"][1])
    am["fit preprocessing"] = "compute_tip_position,correct_force_offset"
    am["fit preprocessing_options"] = ("__json__", sx.SDict())
    am["fit method_kws"] = ("__json__", sx.SDict())
    am["fit range_x"] = "[-1e-06, 2.5e-06]"


def _install_load_libs(I, h5, curves):
    I.lib["h5py.File"] = lambda I, path, mode="r": h5.root
    I.lib["tempfile.mkdtemp"] = lambda I, **k: sx.LibRef("some.path")
    for tag in ("raw bytes", "raw", "other raw", "raw file bytes"):
        I.lib[f"opaque:{tag}.tofile"] = lambda I, self, p: None
    I.lib["shutil.rmtree"] = lambda I, *a, **k: None
    I.lib["pathlib.Path"] = lambda I, p: sx.LibRef("some.path")

    def group_ctor(I, path):
        gcls = sx.ClassVal("IndentationGroup", [sx.OBJECT], {})

        def get_enum(I, self, e):
            ccls = sx.ClassVal("Indentation", [sx.OBJECT], {})
            ccls.ns["__setitem__"] = sx.Builtin("setitem", lambda I, s, k, v: s.attrs["cols"].__setitem__(k, v))
            c = sx.Obj(ccls)
            c.attrs.update(cols={}, enum=e)
            curves.append(c)
            return c
        gcls.ns["get_enum"] = sx.Builtin("get_enum", get_enum)
        return sx.Obj(gcls)
    I.lib["json.loads"] = lambda I, t: t[1] if isinstance(t, tuple) and t[0] == "__json__" else sx.Opaque("json")
    mod = I.module(MOD)
    mod.env.vars["IndentationGroup"] = sx.Builtin("IndentationGroup", group_ctor)

    def ps_loads(I, self, txt):
        if isinstance(txt, tuple) and txt[0] == "__params_dump__":
            self.map = txt[1].map
            return
        raise sx.Unsupported("Parameters.loads of this value")
    I.lmfit["Parameters"].ns["loads"] = sx.Builtin("loads", ps_loads)
    return mod


def loads_with(I, h5, wanted, at_least=0):
    """COMPOSITION with the reader: the real load_hdf5 (both modes) is executed on the container as it is now;
    returns None when it returns records for all ``wanted`` user-name objects, else a description"""
    mod = _install_load_libs(I, h5, [])
    saved_fail = h5.fail_at
    h5.fail_at = None
    try:
        for meta_only in (True, False):
            try:
                recs = I.call(mod.env.vars["load_hdf5"], [SAtom(z3.Int("h5path"))], dict(meta_only=meta_only))
            except sx.PyRaise as exc:
                return f"load_hdf5(meta_only={meta_only}) raises {exc.exc.cls.name}"
            names = [r.d["name"][1] for r in recs if isinstance(r, sx.SDict)]
            for w in wanted:
                if not any(nm is w for nm in names):
                    return f"load_hdf5(meta_only={meta_only}) does not return a stored rating"
            if len(recs) < at_least:
                return f"load_hdf5(meta_only={meta_only}) returns {len(recs)} of {at_least} previously stored ratings"
    finally:
        h5.fail_at = saved_fail
    return None



def _mk_indent(I, st):
    cols = {c: A.new_array_input(I, "new_" + c.replace(" ", "_"), nan=(c != "segment")) for c in DATASETS}
    ps, _ = sym_parameters(I, ["E"], prefix="pinit")
    pf, _ = sym_parameters(I, ["E"], prefix="pfit")
    fp = sx.SDict([("model_key", "hertz_para"), ("params_initial", ps), ("preprocessing", ["compute_tip_position"]),
                   ("preprocessing_options", sx.SDict()), ("range_x", [SReal(z3.Real("rx0")), SReal(z3.Real("rx1"))]),
                   ("method_kws", sx.SDict()), ("weight_cp", SReal(z3.Real("wcp"))), ("params_fitted", pf),
                   ("hash", SAtom(z3.Int("fithash"))), ("success", True)])
    icls = sx.ClassVal("Indentation", [sx.OBJECT], {})
    icls.ns["__getitem__"] = sx.Builtin("getitem", lambda I, s, k: cols[k])
    o = sx.Obj(icls)
    o.attrs.update(path=SAtom(z3.Int("curve_path"), "path"), enum=SInt(z3.Int("curve_enum")), fit_properties=fp)
    st.update(cols=cols, fp=fp, indent=o)
    return o


def _install_io_libs(I, st, h5):
    I.lib["h5py.File"] = lambda I, path, mode="r": h5.root
    I.contracts[f"{MOD}:hash_file"] = lambda I, fv, a, k: SAtom(z3.Int("dhash"), "dhash")
    I.lib["numpy.fromfile"] = lambda I, p, dtype=None: sx.Opaque("raw file bytes")
    I.lib["time.time"] = lambda I: SReal(z3.Real("now"))
    I.lib["time.ctime"] = lambda I: sx.Opaque("now-text")
    I.lib["json.dumps"] = lambda I, v, **k: ("__json__", v)
    old_fmt = I.lib["str.format"]

    def fmt(I, self, *a, **k):
        if self == "{}_{}":
            return "IDD"
        if self == "fit {}" and isinstance(a[0], str):
            return "fit " + a[0]
        return old_fmt(I, self, *a, **k)
    I.lib["str.format"] = fmt
    new, old = st["cols"]["fit"], None

    def allclose(I, a, b, rtol=None, atol=None, equal_nan=False):
        bd = b.attrs.get("data") if isinstance(b, sx.Obj) else b
        i = z3.Int("ac_i")
        rt = V.rterm(rtol) if rtol is not None else z3.RealVal("1e-5")
        at = V.rterm(atol) if atol is not None else z3.RealVal("1e-8")
        av, bv = a.at(i), bd.at(i)
        d = V.rterm(av) - V.rterm(bv)
        absb = z3.If(V.rterm(bv) >= 0, V.rterm(bv), -V.rterm(bv))
        close = z3.If(d >= 0, d, -d) <= at + rt * absb
        na, nb = A._zb(V.nanflag(av)), A._zb(V.nanflag(bv))
        elem = z3.If(z3.Or(na, nb), z3.And(na, nb, z3.BoolVal(bool(equal_nan))), close)
        st["allclose_args"] = (a, bd)
        return SBool(z3.And(a.len_term() == bd.len_term(),
                            z3.ForAll([i], z3.Implies(z3.And(i >= 0, i < a.len_term()), elem))))
    I.lib["numpy.allclose"] = allclose
    old_arr_get = None


def unit_save(tier=None, seed=None):
    S = Session("C16", "save_hdf5", f"{MOD}:save_hdf5")
    st = {}

    def setup(I):
        st.pop("allclose_args", None)
        fail_at = z3.Int("fail_at_write")
        h5 = H5(I, fail_at)
        indent = _mk_indent(I, st)
        fpkeys = list(st["fp"].d)
        # pre-state: 'data' and 'analysis' exist or not; this curve's entry exists or not; another entry exists
        has_file = I.fork(z3.Bool("container_has_groups"))
        exists = has_file and I.fork(z3.Bool("entry_exists"))
        has_raw = has_file and (exists or I.fork(z3.Bool("raw_data_stored")))
        if has_file:
            data, ana = h5.group("/data/"), h5.group("/analysis/")
            h5.root.attrs["members"].update(data=data, analysis=ana)
            raw_other = h5.group("/data/<other>")
            raw_other.attrs.update(kind="dataset", data=sx.Opaque("other raw"))
            raw_other.attrs["attrs"].attrs["map"]["path"] = "some/other.jpk-force"
            data.attrs["members"]["<other>"] = raw_other
            ana.attrs["members"]["OTHER"] = h5.complete_entry("/analysis/OTHER/", fpkeys, "other")
            ana.attrs["members"]["OTHER"].attrs["attrs"].attrs["map"]["data hash"] = "<other>"
            _decodable(ana.attrs["members"]["OTHER"].attrs["attrs"].attrs["map"], st["fp"])
            if has_raw:
                raw = h5.group("/data/<dhash>")
                raw.attrs.update(kind="dataset", data=sx.Opaque("raw"))
                raw.attrs["attrs"].attrs["map"]["path"] = "some/file.jpk-force"
                data.attrs["members"]["<dhash>"] = raw
            if exists:
                ana.attrs["members"]["IDD"] = h5.complete_entry("/analysis/IDD/", fpkeys, "old")
                _decodable(ana.attrs["members"]["IDD"].attrs["attrs"].attrs["map"], st["fp"])
        _install_io_libs(I, st, h5)
        mod = I.module(MOD)
        st.update(h5=h5, exists=exists, has_file=has_file, has_raw=has_raw, fpkeys=fpkeys, snap=h5.snapshot(),
                  fail_at=fail_at)
        assert readable(h5, fpkeys) or not has_file
        urate, uname, ucom = SInt(z3.Int("user_rate")), SAtom(z3.Int("user_name")), SAtom(z3.Int("user_comment"))
        st.update(user=(ucom, uname, urate))
        return mod.env.vars["save_hdf5"], [], dict(h5path=SAtom(z3.Int("h5path")), indent=indent, user_rate=urate,
                                                   user_name=uname, user_comment=ucom)

    def post(S, out):
        I = S.I
        h5, exists, fpkeys, snap = st["h5"], st["exists"], st["fpkeys"], st["snap"]
        log = h5.log
        failed = [w for w in log if w[0] == "FAILED"]
        case = {"entry_exists": exists, "container_has_groups": st["has_file"], "outcome": repr(out),
                "writes": [w[1] for w in log][-8:]}
        now = h5.snapshot()
        ana_now = now["members"].get("analysis", {"members": {}})["members"]
        # ---- frame: nothing outside this curve's entry (and its raw data, if new) is ever touched
        if st["has_file"]:
            S.ensure("other_entries_untouched", ana_now.get("OTHER") == snap["members"]["analysis"]["members"]["OTHER"]
                     and now["members"]["data"]["members"].get("<other>") == snap["members"]["data"]["members"]["<other>"],
                     case=case)
            if st["has_raw"]:
                S.ensure("stored_raw_data_untouched",
                         now["members"]["data"]["members"].get("<dhash>") == snap["members"]["data"]["members"]["<dhash>"],
                         case=case)
        if failed:
            # ---- crash invariant
            # decided by running the REAL reader on the container the interrupted save leaves behind
            wanted = []
            if st["has_file"]:
                wanted.append(snap["members"]["analysis"]["members"]["OTHER"]["attrs"]["user name"])
            # (this curve's own entry may carry partly updated user fields, but it must still be returned)
            why = loads_with(I, h5, wanted, at_least=2 if exists else 1) if st["has_file"] else None
            case["reader"] = why or "load_hdf5 returns every previously stored rating"
            S.ensure("failed_save_keeps_container_readable", why is None, case=case,
                     witness="after_fit_dataset" if "IDD" in ana_now and "fit" in ana_now["IDD"]["members"] else "")
            if exists:
                old = snap["members"]["analysis"]["members"]["IDD"]
                S.ensure("failed_save_keeps_stored_fit", ana_now["IDD"]["members"] == old["members"]
                         and all(ana_now["IDD"]["attrs"].get(k) == old["attrs"][k] for k in old["attrs"] if k.startswith("fit ")),
                         case=case)
            return
        if out.kind == "raise":
            # the only legitimate refusal: an entry exists and the fits differ
            diff_allowed = exists and out.raises("ValueError")
            S.ensure("refuses_only_a_different_fit_for_a_stored_curve", diff_allowed, case=case)
            S.ensure("refusal_leaves_file_unchanged", now == snap and not log, case=case)
            return
        entry = ana_now.get("IDD")
        if entry is None:
            S.fail("entry_present_after_save", "no entry", case=case)
            return
        mem, at = entry["members"], entry["attrs"]
        ucom, uname, urate = st["user"]
        S.ensure("user_fields_stored", at.get("user comment") is ucom and at.get("user name") is uname
                 and at.get("user rate") is urate and "user time" in at and "user time str" in at, case=case)
        if exists:
            old = snap["members"]["analysis"]["members"]["IDD"]
            S.ensure("same_curve_again_updates_only_user_fields",
                     mem == old["members"] and all(at.get(k) == v for k, v in old["attrs"].items() if k not in USER + VERS)
                     and set(at) == set(old["attrs"]), case=case)
            # accepted  =>  the fits agree (pointwise, to a relative tolerance; NaN pattern equal)
            a, b = st["allclose_args"]
            i = z3.Int("i")
            av, bv = a.at(i), b.at(i)
            na, nb = A._zb(V.nanflag(av)), A._zb(V.nanflag(bv))
            d = V.rterm(av) - V.rterm(bv)
            absb = z3.If(V.rterm(bv) >= 0, V.rterm(bv), -V.rterm(bv))
            S.names.update(i=i, new_fit_i=V.rterm(av), stored_fit_i=V.rterm(bv))
            S.ensure("accepted_only_if_fit_matches_stored_fit",
                     z3.Implies(z3.And(i >= 0, i < a.len_term()),
                                z3.And(na == nb, z3.Implies(z3.Not(na), z3.If(d >= 0, d, -d) <= z3.RealVal("1e-4") * absb))),
                     witness="absolute_tolerance")
            S.ensure("compares_the_fit_columns", a is st["cols"]["fit"] or b is st["cols"]["fit"], case=case)
        else:
            # (what the reader needs; further datasets / attributes would not hurt the round trip)
            S.ensure("new_entry_has_the_six_datasets", all(d in mem and mem[d]["data"] is st["cols"][d] for d in DATASETS),
                     case=case)
            want_attrs = {"data enum", "data hash"} | {"fit " + k for k in fpkeys} | set(USER)
            S.ensure("new_entry_has_one_attribute_per_fit_property", want_attrs <= set(at), case=case)
            S.ensure("entry_points_at_its_raw_data", "<dhash>" in now["members"]["data"]["members"]
                     and h5._key(at.get("data hash")) == "<dhash>" and at.get("data enum") is st["indent"].attrs["enum"], case=case)
            S.ensure("container_readable_after_save", readable(h5, fpkeys), case=case)

    S.run(setup, post, max_paths=4000)
    return S.finish(replay=replay_save)


# ------------------------------------------------------------------ load_hdf5: reader/writer correspondence
def unit_load(tier=None, seed=None):
    S = Session("C16", "load_hdf5", f"{MOD}:load_hdf5")
    st = {}

    def setup(I):
        h5 = H5(I, None)
        _mk_indent(I, st)
        fpkeys = list(st["fp"].d)
        data, ana = h5.group("/data/"), h5.group("/analysis/")
        h5.root.attrs["members"].update(data=data, analysis=ana)
        raw = h5.group("/data/<dhash>")
        raw.attrs.update(kind="dataset", data=sx.Opaque("raw bytes"))
        raw.attrs["attrs"].attrs["map"]["path"] = "some/file.jpk-force"
        data.attrs["members"]["<dhash>"] = raw
        ent = h5.complete_entry("/analysis/IDD/", fpkeys, "stored")
        am = ent.attrs["attrs"].attrs["map"]
        # attribute values exactly as save_hdf5 encodes them
        am["fit params_initial"] = ("__params_dump__", st["fp"].d["params_initial"][1])
        am["fit params_fitted"] = ("__params_dump__", st["fp"].d["params_fitted"][1])
        am["fit preprocessing"] = "compute_tip_position,correct_force_offset"
        am["fit preprocessing_options"] = ("__json__", sx.SDict())
        am["fit method_kws"] = ("__json__", sx.SDict())
        am["fit range_x"] = "[-1e-06, 2.5e-06]"
        ana.attrs["members"]["IDD"] = ent
        incomplete = I.fork(z3.Bool("second_entry_incomplete"))
        e2 = h5.complete_entry("/analysis/IDD2/", fpkeys, "stored2")
        for k, v in am.items():
            if k.startswith("fit "):
                e2.attrs["attrs"].attrs["map"][k] = v
        if incomplete:
            del e2.attrs["members"]["fit"]
        ana.attrs["members"]["IDD2"] = e2
        meta_only = I.fork(z3.Bool("meta_only"))
        I.lib["h5py.File"] = lambda I, path, mode="r": h5.root
        I.lib["tempfile.mkdtemp"] = lambda I, **k: sx.LibRef("some.path")
        I.lib["opaque:raw bytes.tofile"] = lambda I, self, p: None
        I.lib["shutil.rmtree"] = lambda I, *a, **k: None
        I.lib["pathlib.Path"] = lambda I, p: sx.LibRef("some.path")
        curves = []

        def group_ctor(I, path):
            gcls = sx.ClassVal("IndentationGroup", [sx.OBJECT], {})

            def get_enum(I, self, e):
                ccls = sx.ClassVal("Indentation", [sx.OBJECT], {})
                ccls.ns["__setitem__"] = sx.Builtin("setitem", lambda I, s, k, v: s.attrs["cols"].__setitem__(k, v))
                c = sx.Obj(ccls)
                c.attrs.update(cols={}, enum=e)
                curves.append(c)
                return c
            gcls.ns["get_enum"] = sx.Builtin("get_enum", get_enum)
            return sx.Obj(gcls)
        I.lib["json.loads"] = lambda I, t: t[1] if isinstance(t, tuple) and t[0] == "__json__" else sx.Opaque("json")
        st.update(h5=h5, incomplete=incomplete, meta_only=meta_only, curves=curves, ent=ent)
        mod = I.module(MOD)
        mod.env.vars["IndentationGroup"] = sx.Builtin("IndentationGroup", group_ctor)

        def ps_loads(I, self, txt):
            if isinstance(txt, tuple) and txt[0] == "__params_dump__":
                self.map = txt[1].map
                return
            raise sx.Unsupported("Parameters.loads of this value")
        I.lmfit["Parameters"].ns["loads"] = sx.Builtin("loads", ps_loads)
        return mod.env.vars["load_hdf5"], [SAtom(z3.Int("h5path"))], dict(meta_only=meta_only)

    def post(S, out):
        I = S.I
        case = {"second_entry_incomplete": st["incomplete"], "meta_only": st["meta_only"], "outcome": repr(out)}
        if out.kind != "return":
            # the reader must cope with everything the writer produces
            S.fail("reads_every_complete_entry", f"raises {out.value.cls.name}", case=case)
            return
        S.ok("reads_every_complete_entry")
        ratings = out.value
        S.ensure("incomplete_entries_skipped_with_a_warning",
                 len(ratings) == (1 if st["incomplete"] else 2)
                 and (len(I.ghost["warnings"]) == (1 if st["incomplete"] else 0)), case=case)
        r0 = ratings[0] if ratings else None
        ok = isinstance(r0, sx.SDict)
        S.ensure("rating_record_shape", ok, case=case)
        if not ok:
            return
        am = st["ent"].attrs["attrs"].attrs["map"]
        S.ensure("user_fields_returned", r0.d["name"][1] is am["user name"] and r0.d["rating"][1] is am["user rate"]
                 and r0.d["comment"][1] is am["user comment"], case=case)
        fpd = r0.d["fit properties"][1]
        S.ensure("every_fit_attribute_decoded", isinstance(fpd, sx.SDict)
                 and set(fpd.d) == {k[4:] for k in am if k.startswith("fit ")}, case=case)
        S.ensure("preprocessing_decoded_to_the_list", fpd.d["preprocessing"][1] == ["compute_tip_position", "correct_force_offset"])
        rx = fpd.d["range_x"][1]
        S.ensure("range_x_decoded_to_the_numbers", isinstance(rx, tuple) and len(rx) == 2
                 and rx[0] == V.to_frac(-1e-06) and rx[1] == V.to_frac(2.5e-06), case=case)
        S.ensure("parameters_decoded", fpd.d["params_fitted"][1].map is st["fp"].d["params_fitted"][1].map)
        if not st["meta_only"]:
            c = st["curves"][0]
            S.ensure("columns_overridden_from_the_container",
                     all(c.attrs["cols"].get(d) is st["ent"].attrs["members"][d].attrs["data"] for d in DATASETS), case=case)

    S.run(setup, post)
    return S.finish(replay=replay_save)


# ------------------------------------------------------------------ codec lemmas
def unit_codecs(tier=None, seed=None):
    res = UnitResult(unit="codec_lemmas")
    # preprocessing: ",".join(l) / text.split(","): unique decoding for lists of 1..3 comma-free identifiers,
    # and the empty list (encoded as "" which decodes to [""])
    comma = z3.StringVal(",")
    strs = [z3.String(f"a{i}") for i in range(3)] + [z3.String(f"b{i}") for i in range(3)]
    free = [z3.Not(z3.Contains(s, comma)) for s in strs]
    a, b = strs[:3], strs[3:]

    def join(xs):
        t = xs[0]
        for x in xs[1:]:
            t = z3.Concat(t, comma, x)
        return t
    worst = None
    tot = 0.0
    for k in (1, 2, 3):
        for m in (1, 2, 3):
            goal = z3.Implies(join(a[:k]) == join(b[:m]),
                              z3.And(z3.BoolVal(k == m), *[a[i] == b[i] for i in range(min(k, m))]))
            st_, be, dt, model, det = solve(free, goal, names={f"a{i}": a[i] for i in range(3)} | {f"b{i}": b[i] for i in range(3)},
                                            timeout_ms=20000)
            tot += dt
            if st_ != DISCHARGED and worst is None:
                worst = (st_, k, m, model, det, be)
    if worst is None:
        res.obligations.append(ObResult(oid="C16.codec.preprocessing_join_split_inverse_nonempty", status=DISCHARGED,
                                        backend="z3+cvc5", time_s=round(tot, 3), paths=9,
                                        detail="lists of 1..3 comma-free identifiers decode uniquely"))
    else:
        st_, k, m, model, det, be = worst
        res.obligations.append(ObResult(oid="C16.codec.preprocessing_join_split_inverse_nonempty", status=st_, backend=be,
                                        time_s=round(tot, 3), paths=9, model=model, detail=f"k={k}, m={m}: {det}"))
    # the empty list: decided on the real reader by evaluation (see load unit for non-empty lists)
    emp = replay_empty_preprocessing()
    res.obligations.append(ObResult(oid="C16.codec.preprocessing_empty_list_round_trips",
                                    status=REFUTED if emp["confirmed"] else DISCHARGED, backend="eval", paths=1,
                                    detail=str(emp)[:200], model=emp if emp["confirmed"] else None, witness="empty_list",
                                    replay=emp))
    rxr = replay_range_x_codec()
    res.obligations.append(ObResult(oid="C16.codec.range_x_text_round_trips",
                                    status=REFUTED if rxr["confirmed"] else DISCHARGED, backend="eval", paths=rxr.get("tried", 1),
                                    detail=str(rxr)[:200], model=rxr if rxr["confirmed"] else None, witness="numpy_scalar",
                                    replay=rxr))
    res.trusted += ["libmodel:h5py (attributes/datasets stored natively come back with equal value)",
                    "libmodel:json (loads(dumps(v)) == v), lmfit.Parameters.dumps/loads inverse"]
    return res


def _tmp_curve():
    from . import indent_units as IU
    cur = IU._curve()
    return cur


def replay_empty_preprocessing():
    import pathlib
    import shutil
    import tempfile
    import warnings
    import nanite
    from nanite.rate import io as rio
    warnings.simplefilter("ignore")
    tmp = pathlib.Path(tempfile.mkdtemp(prefix="vf-c16-"))
    try:
        import numpy as np
        cur = _tmp_curve()
        cur.apply_preprocessing([])
        # a curve whose tip position does not come from a preprocessing step
        cur["tip position"] = np.array(cur["height (measured)"]) + np.array(cur["force"]) / cur.metadata["spring constant"]
        cur.fit_model(model_key="hertz_para")
        rio.save_hdf5(tmp / "r.h5", cur, 3, "u", "c")
        got = rio.load(tmp / "r.h5")[0]["fit properties"]["preprocessing"]
        return {"confirmed": list(got) != [], "input": "preprocessing = []", "observed": list(got), "required": []}
    except Exception as exc:
        return {"confirmed": True, "input": "preprocessing = []", "observed": repr(exc)[:160], "required": []}
    finally:
        shutil.rmtree(tmp, ignore_errors=True)


def replay_range_x_codec():
    import pathlib
    import shutil
    import tempfile
    import warnings
    import numpy as np
    from nanite.rate import io as rio
    warnings.simplefilter("ignore")
    tmp = pathlib.Path(tempfile.mkdtemp(prefix="vf-c16-"))
    tried = 0
    try:
        for rx in ([0, 0], (1.76e-5, 1.9e-5), [-np.inf, 1.8e-5], [np.float64(1.76e-5), np.float64(1.9e-5)],
                   [np.float32(1.5e-5), 2e-5]):
            cur = _tmp_curve()
            cur.fit_model(preprocessing=["compute_tip_position"], model_key="hertz_para", range_x=rx)
            tried += 1
            p = tmp / f"r{tried}.h5"
            try:
                rio.save_hdf5(p, cur, 3, "u", "c")
                got = rio.load(p)[0]["fit properties"]["range_x"]
            except Exception as exc:
                return {"confirmed": True, "input": repr(rx), "observed": repr(exc)[:160],
                        "required": "range_x comes back with equal values", "tried": tried}
            if [float(v) for v in got] != [float(v) for v in rx]:
                return {"confirmed": True, "input": repr(rx), "observed": repr(got), "required": repr(rx), "tried": tried}
        return {"confirmed": False, "tried": tried}
    finally:
        shutil.rmtree(tmp, ignore_errors=True)


def replay_save(ob):
    """native: different fit for a stored curve; failure injected at every h5py write"""
    import pathlib
    import shutil
    import tempfile
    import warnings
    import numpy as np
    import h5py
    from nanite.rate import io as rio
    warnings.simplefilter("ignore")
    oid = ob.oid if ob is not None else ""
    tmp = pathlib.Path(tempfile.mkdtemp(prefix="vf-c16-"))
    P = ["compute_tip_position", "correct_force_offset", "correct_tip_offset"]
    try:
        if "accepted_only_if" in oid or "refuses" in oid:
            cur = _tmp_curve()
            cur.fit_model(preprocessing=P, model_key="hertz_para")
            rio.save_hdf5(tmp / "a.h5", cur, 8, "first", "good")
            cur.fit_model(model_key="hertz_cone", weight_cp=False)
            try:
                rio.save_hdf5(tmp / "a.h5", cur, 1, "second", "other fit")
                rec = rio.load(tmp / "a.h5", meta_only=True)[0]
                return {"confirmed": True, "input": "same curve, refitted with another model, saved again",
                        "observed": {"accepted": True, "stored rating now": int(rec["rating"])},
                        "required": "refused (ValueError), file unchanged"}
            except ValueError:
                return {"confirmed": False}
        if "user_fields" in oid or "same_curve_again" in oid:
            cur = _tmp_curve()
            cur.fit_model(preprocessing=P, model_key="hertz_para")
            rio.save_hdf5(tmp / "u.h5", cur, 5, "hans", "looks fine")
            for args in ((5, "greta", "looks fine"), (6, "greta", "looks fine"), (6, "greta", "hm")):
                rio.save_hdf5(tmp / "u.h5", cur, *args)
                rec = rio.load(tmp / "u.h5", meta_only=True)[0]
                got = (int(rec["rating"]), rec["name"], rec["comment"])
                if got != args:
                    return {"confirmed": True, "input": {"stored again with": args}, "observed": got, "required": args}
            return {"confirmed": False}
        # failure injection at every write of a save into a container that already holds a rating
        first = _tmp_curve()
        first.fit_model(preprocessing=P, model_key="hertz_para")
        import nanite
        other = nanite.IndentationGroup(pathlib.Path(os.environ.get("VF_REPO", "/repo")) / "tests" / "data" /
                                        "fmt-jpk-fd_single_bad_2017-01-16_1.jpk-force")[0]
        other.fit_model(preprocessing=P, model_key="hertz_para")
        k = 0
        while k < 60:
            p = tmp / f"f{k}.h5"
            rio.save_hdf5(p, first, 8, "first", "good")
            counter = {"n": 0}
            real_cd, real_set = h5py.Group.create_dataset, h5py.AttributeManager.__setitem__

            def boom():
                counter["n"] += 1
                if counter["n"] == k + 1:
                    raise OSError("injected")

            def cd(self, *a, **kw):
                boom()
                return real_cd(self, *a, **kw)

            def aset(self, *a, **kw):
                boom()
                return real_set(self, *a, **kw)
            h5py.Group.create_dataset, h5py.AttributeManager.__setitem__ = cd, aset
            try:
                try:
                    rio.save_hdf5(p, other, 2, "second", "bad")
                    done = True
                except OSError:
                    done = False
            finally:
                h5py.Group.create_dataset, h5py.AttributeManager.__setitem__ = real_cd, real_set
            try:
                for meta_only in (True, False):
                    recs = rio.load(p, meta_only=meta_only)
                    names = [r["name"] for r in recs]
                    if "first" not in names:
                        return {"confirmed": True, "input": {"failure at write": k + 1, "meta_only": meta_only},
                                "observed": f"stored rating lost: {names}",
                                "required": "previously stored rating still readable"}
            except Exception as exc:
                return {"confirmed": True, "input": {"failure at write": k + 1}, "observed": repr(exc)[:160],
                        "required": "previously stored rating still readable"}
            if done:
                break
            k += 1
        return {"confirmed": False, "writes": k}
    finally:
        shutil.rmtree(tmp, ignore_errors=True)


def unit_bounded_sequences(tier=None, seed=0):
    import pathlib
    import shutil
    import tempfile
    import time
    import warnings
    import numpy as np
    import h5py
    import nanite
    from nanite.rate import io as rio
    from nanite.rate.rater import IndentationRater
    t0 = time.time()
    warnings.simplefilter("ignore")
    data = pathlib.Path(os.environ.get("VF_REPO", "/repo")) / "tests" / "data"
    tmp = pathlib.Path(tempfile.mkdtemp(prefix="vf-c16b-"))
    P = ["compute_tip_position", "correct_force_offset", "correct_tip_offset"]
    problems, ne = [], 0

    def dump(p):
        out = {}
        with h5py.File(p, "r") as h:
            def vis(name, obj):
                out[name] = {k: (v.tolist() if hasattr(v, "tolist") else v) for k, v in obj.attrs.items()
                             if k not in ("user time", "user time str")}
                if isinstance(obj, h5py.Dataset):
                    out[name]["__data__"] = obj[...].tobytes()
            h.visititems(vis)
        return out
    try:
        p = tmp / "c.h5"
        curves = []
        for fn in ("fmt-jpk-fd_spot3-0192.jpk-force", "fmt-jpk-fd_single_bad_2017-01-16_1.jpk-force",
                   "fmt-jpk-fd_map2x2_extracted.jpk-force-map"):
            grp = nanite.IndentationGroup(data / fn)
            for cur in list(grp)[:2]:
                cur.fit_model(preprocessing=P, model_key="hertz_para", range_x=(0, 0))
                curves.append(cur)
        for j, cur in enumerate(curves):
            before = dump(p) if p.exists() else {}
            rio.save_hdf5(p, cur, j, f"user{j}", f"comment {j}")
            after = dump(p)
            ne += 1
            changed = [k for k in before if before[k] != after.get(k)]
            if changed:
                problems.append({"what": f"storing curve {j} altered existing entries {changed[:3]}"})
        recs = rio.load(p)
        if len(recs) != len(curves):
            problems.append({"what": f"{len(recs)} ratings loaded for {len(curves)} stored"})
        for rec in recs:
            src = [c for c in curves if c.enum == rec["enum"] and
                   pathlib.Path(c.path).name in pathlib.Path(rec["data_set"].path).name][0]
            j = curves.index(src)
            ld = rec["data_set"]
            ne += 1
            for col in ("force", "tip position", "segment", "fit", "fit residuals", "fit range"):
                if not np.array_equal(np.array(ld[col]), np.array(src[col]), equal_nan=True):
                    problems.append({"what": f"column {col} differs after loading (curve {j})"})
            if (rec["name"], int(rec["rating"]), rec["comment"]) != (f"user{j}", j, f"comment {j}"):
                problems.append({"what": f"user fields {rec['name']}, {rec['rating']}, {rec['comment']} (curve {j})"})
            fpl, fps = ld.fit_properties, src.fit_properties
            for k in ("model_key", "weight_cp", "gcf_k", "segment", "range_type", "method"):
                if fpl[k] != fps[k]:
                    problems.append({"what": f"fit setting {k}: {fpl[k]!r} vs {fps[k]!r}"})
            if list(fpl["preprocessing"]) != list(fps["preprocessing"]) or [float(v) for v in fpl["range_x"]] != [float(v) for v in fps["range_x"]]:
                problems.append({"what": "preprocessing / range_x differ after loading"})
            if fpl["params_fitted"]["E"].value != fps["params_fitted"]["E"].value:
                problems.append({"what": "fitted parameters differ after loading"})
            f1, f2 = IndentationRater.compute_features(ld), IndentationRater.compute_features(src)
            if not np.allclose(f1, f2, equal_nan=True, rtol=1e-12, atol=0):
                problems.append({"what": "rating features differ after loading"})
        # same curve again with only the user name changed
        rio.save_hdf5(p, curves[0], 0, "someone else", "comment 0")
        ne += 1
        rec0 = [r for r in rio.load(p, meta_only=True) if r["name"] == "someone else"]
        if len(rec0) != 1:
            problems.append({"what": "re-saving a curve with another user name did not update the name"})
        # same curve again: only the user fields change
        before = dump(p)
        rio.save_hdf5(p, curves[0], 9, "again", "new comment")
        after = dump(p)
        ne += 1
        diff = {k for k in after if after[k] != before.get(k)}
        if len(diff) != 1 or any(kk not in ("user comment", "user name", "user rate") for k in diff
                                 for kk in after[k] if after[k][kk] != before[k].get(kk)):
            problems.append({"what": f"saving the same curve again changed {sorted(diff)[:3]}"})
        # a different fit for a stored curve is refused and the file stays as it is
        c0 = curves[0]
        c0.fit_model(model_key="hertz_cone")
        before = dump(p)
        try:
            rio.save_hdf5(p, c0, 0, "evil", "different fit")
            problems.append({"what": "a different fit for a stored curve was accepted"})
        except ValueError:
            pass
        ne += 1
        if dump(p) != before:
            problems.append({"what": "refused save changed the file"})
        r = replay_save(None)
        ne += r.get("writes", 0) + 1
        if r.get("confirmed"):
            problems.append({"what": f"failure injection: {r['observed']} (write {r['input']})"})
    except BaseException as exc:
        problems.append({"what": f"raised {exc!r}"[:200]})
    finally:
        shutil.rmtree(tmp, ignore_errors=True)
    res = UnitResult(unit="bounded.container_sequences")
    res.bounded.append(BoundedResult(
        bid="C16.bounded.save_load_sequences_and_failure_injection", ok=not problems, evaluations=ne, distinct=ne,
        bound="6 fitted curves from 3 files (2 enumerations of a map) saved one after another with file dumps compared, "
              "loaded back, same-curve and different-fit saves, failure injected at every h5py write of a save",
        detail="round trip exact; existing entries never altered; refusal leaves the file; failures keep old ratings readable"
        if not problems else str(problems[0])[:300], samples=[{"curves": 6}],
        failing_input=problems[0] if problems else None, witness="" if not problems else "container",
        time_s=round(time.time() - t0, 2)))
    return res


CANARIES = [
    dict(name="loader skips the fit range column", file="rate/io.py", old='                indent["fit range"] = h5gr["fit range"][...]\n',
         new="", expect="columns_overridden_from_the_container"),
    dict(name="user fields only written for new entries", file="rate/io.py",
         old='        # update user data in any case\n        out.attrs["user comment"] = user_comment\n        out.attrs["user name"] = user_name\n        out.attrs["user rate"] = user_rate',
         new='        # update user data in any case\n        if idd not in ana or True:\n            pass\n        if "user rate" not in out.attrs:\n            out.attrs["user comment"] = user_comment\n            out.attrs["user name"] = user_name\n            out.attrs["user rate"] = user_rate',
         expect="user_fields_stored"),
    dict(name="refusal compares the force instead of the fit", file="rate/io.py",
         old='            if not np.allclose(indent["fit"], ana[idd]["fit"],', new='            if not np.allclose(indent["force"], ana[idd]["force"],',
         expect="compares_the_fit_columns"),
    dict(name="unchanged user fields skip the update (name ignored)", file="rate/io.py", old="            out = ana[idd]\n",
         new='            out = ana[idd]\n            if (out.attrs.get("user rate") == user_rate\n                    and out.attrs.get("user comment") == user_comment):\n                return\n',
         expect="user_fields_stored"),
]


def unit_canaries(tier=None, seed=None):
    from ..selftest import run_canaries
    return run_canaries("C16", CANARIES)


def unit_bounded_meta_override(tier=None, seed=0):
    """the round trip of a curve that could only be loaded with overridden metadata (the workshop csv format has no
    spring constant): the container stores the raw file, not what the user supplied with it"""
    import pathlib
    import shutil
    import tempfile
    import time
    import warnings
    import numpy as np
    import nanite
    from nanite.rate import io as rio
    t0 = time.time()
    src = pathlib.Path(os.environ.get("VF_REPO", "/repo")) / "tests" / "data" / "fmt-afm-workshop-fd_single_2021-10-22_14.16.csv"
    tmp = pathlib.Path(tempfile.mkdtemp(prefix="vf-c16m-"))
    problem, ne = None, 0
    try:
        with warnings.catch_warnings():
            warnings.simplefilter("ignore")
            f = tmp / src.name
            shutil.copy(src, f)
            idnt = nanite.load_group(f, meta_override={"spring constant": 20})[0]
            idnt.fit_model(preprocessing=["compute_tip_position", "correct_force_offset", "correct_tip_offset"],
                           model_key="hertz_para")
            h5 = tmp / "container.h5"
            rio.save_hdf5(h5, idnt, user_rate=5, user_name="u", user_comment="c")
            ne += 1
            try:
                back = rio.load_hdf5(h5)
                ne += 1
                if len(back) != 1 or not np.array_equal(np.array(back[0]["data"]["fit"]), np.array(idnt["fit"]),
                                                         equal_nan=True):
                    problem = {"input": "workshop csv loaded with meta_override={'spring constant': 20}",
                               "what": "loaded entry differs from the stored curve"}
            except BaseException as exc:
                problem = {"input": "workshop csv loaded with meta_override={'spring constant': 20}, fitted, stored",
                           "what": f"load_hdf5 raises {type(exc).__name__}: {exc}"[:200]}
    finally:
        shutil.rmtree(tmp, ignore_errors=True)
    res = UnitResult(unit="bounded.meta_override")
    res.bounded.append(BoundedResult(
        bid="C16.bounded.round_trip_of_a_curve_loaded_with_meta_override", ok=problem is None, evaluations=ne,
        distinct=ne, bound="one recorded curve (afm-workshop csv, spring constant supplied by meta_override), one save, "
                           "one load", detail="round trip ok" if problem is None else problem["what"],
        samples=[], failing_input=problem, witness="" if problem is None else "meta_override",
        time_s=round(time.time() - t0, 2)))
    return res


def unit_bounded_file_identity(tier=None, seed=0):
    """entries are keyed by the hash of the measurement file: "storing further curves never alters entries already
    present" needs different files to get different keys -- wherever in the file they differ (the deductive units take
    hash_file as an injective atom)"""
    import pathlib
    import shutil
    import tempfile
    import time
    import numpy as np
    from nanite.rate import io as rio
    t0 = time.time()
    tmp = pathlib.Path(tempfile.mkdtemp(prefix="vf-c16h-"))
    problems, ne = [], 0
    try:
        rng = np.random.default_rng(seed or 5)
        for size in (10, 70_000, 1_200_000, 3_000_000):
            base = rng.integers(0, 256, size, dtype=np.uint8)
            fa = tmp / f"a_{size}.bin"
            base.tofile(fa)
            for where in sorted({0, size // 2, size - 1}):
                other = base.copy()
                other[where] ^= 0xFF
                fb = tmp / f"b_{size}_{where}.bin"
                other.tofile(fb)
                ne += 1
                if rio.hash_file(fa) == rio.hash_file(fb):
                    problems.append({"file size": size, "byte that differs": where,
                                     "what": "two different measurement files get the same key"})
            fc = tmp / f"c_{size}.bin"
            base.tofile(fc)
            ne += 1
            if rio.hash_file(fa) != rio.hash_file(fc):
                problems.append({"file size": size, "what": "equal files get different keys"})
    finally:
        shutil.rmtree(tmp, ignore_errors=True)
    res = UnitResult(unit="bounded.file_identity")
    res.bounded.append(BoundedResult(
        bid="C16.bounded.different_files_different_keys", ok=not problems, evaluations=ne, distinct=ne,
        bound="random files of 10 B, 70 kB, 1.2 MB and 3 MB; one byte flipped at the start, in the middle, at the end",
        detail="keys differ exactly when the files differ" if not problems else str(problems[0])[:300],
        samples=[], failing_input=problems[0] if problems else None,
        witness="" if not problems else f"size{problems[0]['file size']}", time_s=round(time.time() - t0, 2)))
    return res


def units(tier):
    us = [Unit("save_hdf5", unit_save), Unit("load_hdf5", unit_load), Unit("codec_lemmas", unit_codecs),
          Unit("bounded.file_identity", unit_bounded_file_identity),
          Unit("bounded.container_sequences", unit_bounded_sequences),
          Unit("bounded.meta_override", unit_bounded_meta_override)]
    if tier == "thorough" and not os.environ.get("VF_NO_CANARIES") and str(REPO) == "/repo":
        us.append(Unit("selftest.canaries", unit_canaries))
    return us


def replay_file(path):
    import json
    d = json.load(open(path))

    class _O:
        model = d.get("model")
        oid = d.get("obligation")
        witness = d.get("witness", "")
    if "empty_list" in _O.oid:
        r = replay_empty_preprocessing()
    elif "range_x" in _O.oid:
        r = replay_range_x_codec()
    else:
        r = replay_save(_O)
    print(json.dumps(r, indent=1, default=str))
    return 1 if r.get("confirmed") else 0
