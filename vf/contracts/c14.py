"""C14  Preprocessing order rules are enforced and auto-sorting always satisfies them.

Contracts on the real bodies of autosort / check_order / available / apply.
The input is a list of symbolic identifiers of symbolic-but-bounded length
(distinct members of the step universe bound the length by 6, so unrolling is
complete, not bounded); ``get_func`` forces a case split on every element, which
makes the leaves exactly the ordered selections.  Each leaf is executed by the
engine on the real AST and its clauses are decided by evaluation against an
independently written specification of the order rules.
"""
from __future__ import annotations

import os

import z3

from ..core import REPO
from ..unit import Unit
from ..engine.prove import Session
from ..engine import symex as sx
from ..engine import values as V
from ..engine.values import SAtom

LEVEL = "proof"
EXPLANATION = ("Complete case analysis by symbolic execution of the real autosort/check_order/available/apply "
               "over lists of symbolic identifiers; leaves = all ordered selections of the step universe "
               "(+ one unknown identifier for the rejection clauses).")
MOD = "nanite.preproc"


def read_meta():
    """step universe and requirement declarations, from the decorators in the real source"""
    I = sx.Interp()
    I._reset_path()
    pre = I.module(MOD).env.vars["PREPROCESSORS"]
    meta = {}
    for f in pre:
        meta[f.attrs["identifier"]] = (list(f.attrs["steps_required"] or []),
                                       list(f.attrs["steps_optional"] or []))
    return meta


# ---- independent specification of the order rules (from the statement) -------------------------
def spec_valid(ids, meta):
    for i, p in enumerate(ids):
        req, opt = meta[p]
        for r in req:
            if r not in ids[:i]:
                return False
        for o in opt:
            if o in ids and o not in ids[:i]:
                return False
    return True


def spec_closed(ids, meta):
    return all(r in ids for p in ids for r in meta[p][0])


def spec_apply_accepts(ids, meta):
    return all(set(meta[p][0]) <= set(ids[:i]) for i, p in enumerate(ids))


def _sym_ids(I, n, uni, first=None, allow_unknown=False, closed=None):
    ids = [SAtom(z3.Int(f"id{i}")) for i in range(n)]
    codes = [V.str_code(u) for u in uni]
    for a in ids:
        if allow_unknown:
            I.assume(z3.Or(*[a.term == c for c in codes], a.term == -1))
        else:
            I.assume(z3.Or(*[a.term == c for c in codes]))
    if n > 1:
        known = [a.term for a in ids]
        # members of the universe are distinct; the unknown identifier may repeat
        for i in range(n):
            for j in range(i + 1, n):
                I.assume(z3.Or(known[i] != known[j], known[i] == -1))
    if first is not None and n:
        I.assume(ids[0].term == V.str_code(first))
        I._note_pin(ids[0].term == z3.IntVal(V.str_code(first)))
    if closed is not None:
        for i, a in enumerate(ids):
            for p, (req, _opt) in closed.items():
                for r in req:
                    I.assume(z3.Implies(a.term == V.str_code(p),
                                        z3.Or(*[b.term == V.str_code(r) for b in ids])))
    return ids


def _codes(I, ids):
    out = []
    for a in ids:
        c = I.pins.get(a.term.get_id())
        if c is None and I.valid(a.term == -1):
            c = -1
        out.append(c)
    return out


def _concrete(I, ids):
    out = []
    for a in ids:
        v = I.resolve(a)
        out.append(v if isinstance(v, str) else None)
    return out


# ------------------------------------------------------------------ autosort
def unit_autosort(n, first=None, tier=None, seed=None, prop="C14"):
    meta = read_meta()
    uni = list(meta)
    name = f"autosort.n{n}" + (f".{first}" if first else "")
    S = Session(prop, "autosort", f"{MOD}:autosort")
    S.unit_name = "autosort"
    st = {}

    def setup(I):
        f = I.lookup_qual(f"{MOD}:autosort")
        ids = _sym_ids(I, n, uni, first=first, closed=meta)
        st.update(ids=ids, given=list(ids), f=f)
        return f, [ids], {}

    def post(S, out):
        I = S.I
        conc = _concrete(I, st["given"])
        if None in conc:
            # not all elements were examined: cannot happen for closed selections
            S.fail("leaf_is_concrete", f"unexamined element in {conc}")
            return
        case = {"identifiers": conc}
        assert spec_closed(conc, meta)
        if out.kind != "return":
            S.fail("returns_for_every_complete_selection",
                   f"raises {out.value.cls.name} for {conc}", case=case)
            return
        S.ok("returns_for_every_complete_selection")
        res = [I.resolve(v) for v in out.value]
        case["result"] = res
        S.ensure("result_is_permutation", sorted(map(str, res)) == sorted(conc) and len(res) == len(conc),
                 case=case)
        S.ensure("result_passes_order_rules", all(isinstance(r, str) for r in res) and spec_valid(res, meta),
                 case=case)
        S.ensure("valid_order_unchanged", (not spec_valid(conc, meta)) or res == conc, case=case)
        S.ensure("input_not_modified", [I.resolve(v) for v in st["ids"]] == conc
                 and out.value is not st["ids"], case=case)
        # idempotence: run the real function again on its own output
        try:
            again = I.call(st["f"], [list(out.value)], {})
            S.ensure("idempotent", [I.resolve(v) for v in again] == res, case=case)
        except sx.PyRaise as pr:
            S.fail("idempotent", f"second pass raises {pr.exc.cls.name}", case=case)

    S.run(setup, post)
    res = S.finish(replay=replay_autosort)
    res.unit = name
    return res


def replay_autosort(ob):
    from nanite import preproc
    meta = {f.identifier: (list(f.steps_required or []), list(f.steps_optional or []))
            for f in preproc.PREPROCESSORS}
    ids = (ob.model or {}).get("identifiers")
    if not ids:
        return {"confirmed": False, "why": "no concrete selection in the counter-model"}
    given = list(ids)
    try:
        got = preproc.autosort(ids)
    except Exception as exc:
        return {"confirmed": True, "input": given, "observed": repr(exc)[:200],
                "required": "a permutation that passes the order rules"}
    problems = []
    if sorted(got) != sorted(given):
        problems.append("not a permutation")
    if not spec_valid(got, meta):
        problems.append("order rules violated")
    if spec_valid(given, meta) and got != given:
        problems.append("valid order changed")
    if ids != given:
        problems.append("input modified")
    try:
        if preproc.autosort(list(got)) != got:
            problems.append("not idempotent")
    except Exception as exc:
        problems.append(f"second pass raises {exc!r}"[:80])
    return {"confirmed": bool(problems), "input": given, "observed": {"result": got, "problems": problems}}


# ------------------------------------------------------------------ check_order
def unit_check_order(n, tier=None, seed=None, prop="C14"):
    meta = read_meta()
    uni = list(meta)
    S = Session(prop, "check_order", f"{MOD}:check_order")
    st = {}

    def setup(I):
        f = I.lookup_qual(f"{MOD}:check_order")
        ids = _sym_ids(I, n, uni, allow_unknown=True)
        st.update(ids=ids)
        return f, [ids], {}

    def post(S, out):
        I = S.I
        conc = _concrete(I, st["ids"])
        codes = _codes(I, st["ids"])
        case = {"identifiers": [c if c is not None else ("<unknown>" if k == -1 else "<unexamined>")
                                for c, k in zip(conc, codes)]}
        unknown_seen = any(k == -1 for k in codes)
        if out.kind == "raise":
            cls = out.value.cls.name
            if None in conc:
                # the scan stopped early: an unknown identifier (KeyError) or a violated rule
                if unknown_seen:
                    # rejected either for the unknown identifier (KeyError) or for a rule that
                    # the examined part already violates (ValueError)
                    S.ensure("unknown_identifier_rejected", cls in ("KeyError", "ValueError"), case=case)
                else:
                    # rule violated by the examined prefix: every completion is invalid
                    prefix = [c for c in conc if c is not None]
                    S.ensure("rejects_only_invalid",
                             cls == "ValueError" and not _may_be_valid(conc, meta), case=case)
            else:
                S.ensure("rejects_only_invalid", cls == "ValueError" and not spec_valid(conc, meta), case=case)
        else:
            if None in conc:
                S.fail("accepts_only_valid", f"accepted without examining {case}", case=case)
            else:
                S.ensure("accepts_only_valid", spec_valid(conc, meta), case=case)
                S.ensure("input_not_modified", _concrete(I, st["ids"]) == conc, case=case)

    S.run(setup, post)
    res = S.finish(replay=replay_check_order)
    res.unit = f"check_order.n{n}"
    return res


def _may_be_valid(conc, meta):
    """could any assignment of universe members to the unexamined positions be valid?"""
    import itertools
    holes = [i for i, c in enumerate(conc) if c is None]
    rest = [u for u in meta if u not in conc]
    for combo in itertools.permutations(rest, len(holes)):
        ids = list(conc)
        for i, c in zip(holes, combo):
            ids[i] = c
        if spec_valid(ids, meta):
            return True
    return False


def replay_check_order(ob):
    from nanite import preproc
    meta = {f.identifier: (list(f.steps_required or []), list(f.steps_optional or []))
            for f in preproc.PREPROCESSORS}
    ids = (ob.model or {}).get("identifiers")
    if not ids or any(i.startswith("<") for i in ids):
        return {"confirmed": False}
    try:
        preproc.check_order(list(ids))
        accepted = True
    except ValueError:
        accepted = False
    want = spec_valid(ids, meta)
    return {"confirmed": accepted != want, "input": ids, "observed": f"accepted={accepted}",
            "required": f"accepted={want}"}


# ------------------------------------------------------------------ available
def unit_available(tier=None, seed=None):
    meta = read_meta()
    S = Session("C14", "available", f"{MOD}:available")

    def setup(I):
        return I.lookup_qual(f"{MOD}:available"), [], {}

    def post(S, out):
        if out.kind != "return":
            S.fail("returns", repr(out))
            return
        res = [S.I.resolve(v) for v in out.value]
        case = {"available": res}
        S.ensure("is_permutation_of_universe", sorted(res) == sorted(meta), case=case)
        S.ensure("is_valid_order", spec_valid(res, meta), case=case)

    S.run(setup, post)
    return S.finish()


# ------------------------------------------------------------------ apply (acceptance rule)
def unit_apply(n, tier=None, seed=None):
    meta = read_meta()
    uni = list(meta)
    S = Session("C14", "apply", f"{MOD}:apply")
    st = {}

    def setup(I):
        mod = I.module(MOD)
        f = mod.env.vars["apply"]
        ids = _sym_ids(I, n, uni, allow_unknown=True)
        log = []
        st.update(ids=ids, log=log)
        # the steps themselves are under contract in C07: here only their invocation is observed
        for fn in mod.env.vars["PREPROCESSORS"]:
            I.contracts[f"{MOD}:{fn.qualname}"] = \
                (lambda I, fv, args, kwargs: log.append(fv.attrs["identifier"]))
        apret = sx.Obj(sx.ClassVal("Indentation", [sx.OBJECT], {}))
        apret.cls.ns["reset_data"] = sx.Builtin("reset_data", lambda I, self: log.append("<reset_data>"))
        kw = dict(apret=apret, identifiers=ids, ret_details=False)
        # options are optional in the signature: with and without them
        st["options_given"] = I.fork(z3.Bool("options_given"))
        if st["options_given"]:
            kw["options"] = sx.SDict()
        return f, [], kw

    def post(S, out):
        I = S.I
        conc = _concrete(I, st["ids"])
        codes = _codes(I, st["ids"])
        case = {"identifiers": [c if c is not None else ("<unknown>" if k == -1 else "<unexamined>")
                                for c, k in zip(conc, codes)], "calls": list(st["log"]),
                "options_given": st["options_given"]}
        log = st["log"]
        S.ensure("starts_from_raw_data", bool(log) and log[0] == "<reset_data>" and log.count("<reset_data>") == 1,
                 case=case)
        if out.kind == "return":
            if None in conc:
                S.fail("accepted_iff_requirements_met", "accepted a list with an unknown/unexamined id", case=case)
                return
            S.ensure("accepted_iff_requirements_met", spec_apply_accepts(conc, meta), case=case)
            S.ensure("steps_run_in_given_order", log[1:] == conc, case=case)
        else:
            cls = out.value.cls.name
            if cls not in ("KeyError", "ValueError"):
                S.fail("accepted_iff_requirements_met", f"raises {cls}", case=case,
                       witness="options_omitted" if not st["options_given"] else cls)
                return
            # find the first offending position
            k = len(log) - 1           # steps executed before the rejection
            examined = conc[:k + 1]
            if len(examined) <= k or examined[k] is None:
                S.ensure("unknown_identifier_rejected", cls == "KeyError" and codes[k] == -1, case=case)
            else:
                S.ensure("accepted_iff_requirements_met",
                         cls == "ValueError" and not set(meta[examined[k]][0]) <= set(examined[:k])
                         and spec_apply_accepts(examined[:k], meta), case=case)

    S.run(setup, post)
    res = S.finish(replay=replay_apply)
    res.unit = f"apply.n{n}"
    return res


def replay_apply(ob):
    import nanite
    from nanite import preproc
    import pathlib
    meta = {f.identifier: (list(f.steps_required or []), list(f.steps_optional or []))
            for f in preproc.PREPROCESSORS}
    ids = (ob.model or {}).get("identifiers")
    if not ids or any(i == "<unexamined>" for i in ids):
        return {"confirmed": False}
    ids = [i if not i.startswith("<") else "no_such_step" for i in ids]
    data = pathlib.Path(os.environ.get("VF_REPO", "/repo")) / "tests" / "data" / "fmt-jpk-fd_spot3-0192.jpk-force"
    idnt = nanite.IndentationGroup(data)[0]
    try:
        if (ob.model or {}).get("options_given", True):
            preproc.apply(idnt, list(ids), {})
        else:
            preproc.apply(idnt, list(ids))
        got = "accepted"
    except KeyError:
        got = "KeyError"
    except ValueError:
        got = "ValueError"
    except Exception as exc:
        got = repr(exc)[:80]
    if any(i not in meta for i in ids):
        known_prefix_ok = True
        want = "KeyError or ValueError"
        ok = got in ("KeyError", "ValueError")
    else:
        want = "accepted" if spec_apply_accepts(ids, meta) else "ValueError"
        ok = got == want
    return {"confirmed": not ok, "input": ids, "observed": got, "required": want}


CANARIES = [
    dict(name="autosort comparison inverted", file="preproc.py", old="                if rix > cix:\n                    # We pop",
         new="                if rix < cix:\n                    # We pop", expect="autosort"),
    dict(name="autosort ignores optional steps", file="preproc.py", old="                    if ostep in identifiers:\n                        steps_precursor.append(ostep)",
         new="                    if False:\n                        steps_precursor.append(ostep)", expect="autosort"),
    dict(name="apply requirement test uses union", file="preproc.py", old="((set(req) & set(act)) != set(req))",
         new="((set(req) | set(act)) != set(req))", expect="apply"),
    dict(name="check_order ignores optional order", file="preproc.py", old="            if np.any(np.array(rio) > cix):",
         new="            if False and np.any(np.array(rio) > cix):", expect="check_order"),
    dict(name="apply looks at the whole list for requirements", file="preproc.py", old="            act = identifiers[:ii]",
         new="            act = identifiers", expect="apply"),
    dict(name="autosort works on the caller's list", file="preproc.py", old="sorted_identifiers = copy.copy(identifiers)",
         new="sorted_identifiers = identifiers", expect="input_not_modified"),
]


def unit_canaries(tier=None, seed=None):
    from ..selftest import run_canaries
    return run_canaries("C14", CANARIES)


def units(tier):
    meta = read_meta()
    us = [Unit(f"autosort.n{n}", unit_autosort, n=n) for n in range(0, 6)]
    us += [Unit(f"autosort.n6.{u}", unit_autosort, n=6, first=u) for u in meta]
    us += [Unit(f"check_order.n{n}", unit_check_order, n=n) for n in range(0, 7)]
    us += [Unit("available", unit_available)]
    us += [Unit(f"apply.n{n}", unit_apply, n=n) for n in range(0, 7)]
    if tier == "thorough" and not os.environ.get("VF_NO_CANARIES") and str(REPO) == "/repo":
        us.append(Unit("selftest.canaries", unit_canaries))
    return us


def replay_file(path):
    import json
    d = json.load(open(path))

    class _O:
        model = d.get("model")
        oid = d["obligation"]
    fn = {"autosort": replay_autosort, "check_order": replay_check_order, "apply": replay_apply}.get(
        d["obligation"].split(".")[1])
    if fn is None:
        return 0
    r = fn(_O)
    print(json.dumps(r, indent=1, default=str))
    return 1 if r.get("confirmed") else 0
