"""C20  Loading yields one object per recorded curve; maps put values at their pixel.

nanite's own code here is thin glue; pixel placement, file parsing and enumeration belong to
afmformats (assumed).  Contracts on the real bodies:
  read.load_data            the loop body is executed for a SYMBOLIC file index ii of a symbolic number n
        of files: every progress value handed to the user's callback is (ii + x)/n for the per-file
        progress x in [0,1]; it lies in [0,1], is monotone within a file and (lemma over the same term)
        the first value of file ii+1 is >= the last of file ii; every load uses the Indentation class for
        all three modalities; meta_override is forwarded; results are concatenated in path order.
  IndentationGroup.append   raises MissingMetaDataError iff neither a spring constant nor a tip position
        is available; otherwise delegates.
  QMap.feat_*               success -> contact point * 1e9 nm / modulus in Pa / last rating; otherwise NaN
        plus exactly one DataMissingWarning; cache=False (values follow refits).
Bounded: recorded files and maps in tests/data.
"""
from __future__ import annotations

import os

import z3

from ..core import REPO, UnitResult, BoundedResult
from ..unit import Unit
from ..engine.prove import Session
from ..engine import symex as sx
from ..engine import values as V
from ..engine.values import SAtom, SReal, SBool, SInt, NAN
from ..engine.lmfit_model import sym_parameters
from . import fpstate as F

LEVEL = "other"
EXPLANATION = ("Deductive for nanite's glue (progress arithmetic for a symbolic file index, append precondition, "
               "unit/NaN/warning contracts of the three map features); afmformats (file parsing, enumeration, "
               "pixel placement) is assumed; bounded runs on the recorded files and maps.")


# ------------------------------------------------------------------ load_data
def unit_load_data(tier=None, seed=None):
    S = Session("C20", "load_data", "nanite.read:load_data")
    st = {}

    def setup(I):
        st.pop("find_modality", None)
        mod = I.module("nanite.read")
        n, ii = z3.Int("n_files"), z3.Int("file_index")
        I.assume(z3.And(n >= 1, ii >= 0, ii < n))
        pcls = sx.ClassVal("SymbolicPathList", [sx.OBJECT], {})
        pcls.ns["__len__"] = sx.Builtin("len", lambda I, self: SInt(n))

        def path_at(I, self, k):
            if isinstance(k, SInt) and z3.eq(z3.simplify(k.term), ii):
                return SAtom(z3.Int("path_ii"))
            raise sx.Unsupported("element of the symbolic path list at another index")
        pcls.ns["__getitem__"] = sx.Builtin("getitem", path_at)
        # loops over the files by index are verified for one arbitrary index as well
        I.ghost["havoc_range"] = (n, ii)
        paths = sx.Obj(pcls)
        paths.attrs["__symbolic_enumerate__"] = (SInt(ii), SAtom(z3.Int("path_ii")))
        I.lib["afmformats.find_data"] = lambda I, path, modality=None: (st.update(find_modality=modality), paths)[1]
        loads, values = [], []
        user_cb = sx.Builtin("user_callback", lambda I, v: values.append(v))
        with_cb = I.fork(z3.Bool("callback_given"))
        x1, x2 = z3.Real("x1"), z3.Real("x2")
        I.assume(z3.And(0 <= x1, x1 <= x2, x2 <= 1))
        meas = [sx.Opaque("curve_a"), sx.Opaque("curve_b")]

        def load(I, path, callback=None, meta_override=None, **kw):
            loads.append(dict(path=path, callback=callback, meta_override=meta_override, **kw))
            if callback is not None:
                I.call(callback, [SReal(x1)], {})
                I.call(callback, [SReal(x2)], {})
            return list(meas)
        I.lib["afmformats.load_data"] = load
        mo = sx.SDict([("spring constant", SReal(z3.Real("kspring")))])
        st.update(n=n, ii=ii, loads=loads, values=values, with_cb=with_cb, x1=x1, x2=x2, mo=mo, meas=meas, mod=mod)
        S.names.update(n_files=n, file_index=ii, x1=x1, x2=x2)
        return mod.env.vars["load_data"], [SAtom(z3.Int("path"))], dict(callback=user_cb if with_cb else None,
                                                                        meta_override=mo)

    def post(S, out):
        I = S.I
        if out.kind != "return":
            S.fail("returns", repr(out))
            return
        S.ok("returns")
        n, ii, loads, values = st["n"], st["ii"], st["loads"], st["values"]
        S.ensure("searches_force_distance_data", st.get("find_modality") == "force-distance")
        # (how often afmformats is called and what else is forwarded to it is not part of the property;
        #  loading a file twice would show up in result_is_concatenation_in_order)
        S.ensure("file_is_loaded", len(loads) >= 1)
        cls = st["mod"].env.vars["Indentation"]
        for ld in loads:
            dc = ld.get("data_classes_by_modality")
            S.ensure("indentation_class_for_all_modalities",
                     isinstance(dc, sx.SDict) and all(dc.d.get(m, [0, None])[1] is cls
                                                      for m in ("force-distance", "creep-compliance", "stress-relaxation"))
                     and ld.get("modality") == "force-distance")
        S.ensure("result_is_concatenation_in_order", list(out.value) == st["meas"])
        if st["with_cb"]:
            S.ensure("progress_reported", len(values) >= 1)
            if values:
                vs = [V.rterm(v) for v in values]
                # (the statement asks for non-decreasing values within [0, 1]; neither the formula, nor the number of
                #  calls per file, nor the final value is pinned)
                S.ensure("progress_within_0_1", z3.And(*[z3.And(v >= 0, v <= 1) for v in vs]))
                S.ensure("progress_monotone_within_file", z3.And(*[a <= b for a, b in zip(vs, vs[1:])])
                         if len(vs) > 1 else True)
                # across files: the first value reported for file ii+1 (at x=0) is not below the last one of this file
                # (at x=1)
                nxt = z3.substitute(vs[0], (ii, ii + 1), (st["x1"], z3.RealVal(0)))
                last = z3.substitute(vs[-1], (st["x2"], z3.RealVal(1)))
                S.ensure("progress_monotone_across_files", z3.Implies(ii + 1 < n, nxt >= last))
        else:
            S.ensure("no_callback_no_progress", not values)

    S.run(setup, post)
    return S.finish(replay=replay_load_data)


def replay_load_data(ob):
    import shutil
    import tempfile
    import pathlib
    import nanite
    src = pathlib.Path(os.environ.get("VF_REPO", "/repo")) / "tests" / "data"
    tmp = pathlib.Path(tempfile.mkdtemp(prefix="vf-c20-"))
    try:
        for f in ("fmt-jpk-fd_map2x2_extracted.jpk-force-map", "fmt-jpk-fd_spot3-0192.jpk-force",
                  "fmt-jpk-fd_map-data-reference-points.jpk-force-map"):
            shutil.copy(src / f, tmp / f)
        vals = []
        grp = nanite.load_group(tmp, callback=vals.append)
        bad = None
        if any(b < a - 1e-12 for a, b in zip(vals, vals[1:])):
            bad = "progress decreases"
        elif vals and (min(vals) < 0 or max(vals) > 1 + 1e-12):
            bad = "progress outside [0, 1]"
        elif vals and abs(vals[-1] - 1) > 1e-12:
            bad = "progress does not end at 1"
        return {"confirmed": bad is not None, "input": "folder with 2 maps and 1 single curve",
                "observed": {"progress": [round(v, 4) for v in vals], "problem": bad},
                "required": "non-decreasing within [0, 1]"}
    finally:
        shutil.rmtree(tmp, ignore_errors=True)


# ------------------------------------------------------------------ IndentationGroup.append
def unit_append(tier=None, seed=None):
    S = Session("C20", "IndentationGroup.append", "nanite.group:IndentationGroup.append")
    st = {}

    def setup(I):
        mod = I.module("nanite.group")
        cls = mod.env.vars["IndentationGroup"]
        base = cls.bases[0]
        appended = []
        base.ns["append"] = sx.Builtin("AFMGroup.append", lambda I, self, d: appended.append(d))
        has_k, has_tip = z3.Bool("has_spring_constant"), z3.Bool("has_tip_position")
        dcls = sx.ClassVal("AFMData", [sx.OBJECT], {})
        dcls.ns["__contains__"] = sx.Builtin("contains", lambda I, self, k: SBool(has_tip) if k == "tip position" else False)
        d = sx.Obj(dcls)
        d.attrs["metadata"] = sx.SDict()
        d.attrs["metadata"].d["spring constant"] = [has_k, SReal(z3.Real("k"))]
        grp = sx.Obj(cls)
        st.update(appended=appended, has_k=has_k, has_tip=has_tip, d=d)
        S.names.update(has_spring_constant=has_k, has_tip_position=has_tip)
        f, _ = cls.find("append")
        return sx.BoundMethod(grp, f), [d], {}

    def post(S, out):
        refuse = z3.And(z3.Not(st["has_k"]), z3.Not(st["has_tip"]))
        if out.kind == "raise":
            S.ensure("refusal_is_MissingMetaDataError", any("MissingMetaDataError" in c.name for c in out.value.cls.mro()))
            S.ensure("refuses_only_without_spring_constant_and_tip_position", refuse)
            S.ensure("refused_curve_not_added", not st["appended"])
        else:
            S.ensure("accepts_when_either_is_available", z3.Not(refuse))
            S.ensure("accepted_curve_added_once", st["appended"] == [st["d"]])

    S.run(setup, post)
    return S.finish()


# ------------------------------------------------------------------ QMap features
def unit_qmap_features(tier=None, seed=None):
    S = Session("C20", "QMap.feat", "nanite.qmap:QMap.feat_*")
    FEATS = ["feat_fit_contact_point", "feat_fit_youngs_modulus", "feat_meta_rating"]
    st = {}

    def setup(I):
        def qmap_feature(I, name=None, unit=None, cache=True):
            def deco(I, fn):
                fn.attrs.update(name=name, unit=unit, cache=cache)
                return fn
            return sx.Builtin("qmap_feature.decorator", deco)
        I.lib["afmformats.afm_qmap.qmap_feature"] = qmap_feature
        mod = I.module("nanite.qmap")
        cls = mod.env.vars["QMap"]
        fi = I.choose([z3.Int("feature") == i for i in range(len(FEATS))])
        if fi >= len(FEATS):
            raise sx.PathAbort()
        name = FEATS[fi]
        fp, vals, pres, fpd, res = F.sym_fp(I, "fp")
        succ = z3.Bool("success_value")
        fp.map.d["success"][1] = SBool(succ)
        pf, pt = sym_parameters(I, ["E", "contact_point"], prefix="fitted")
        fp.map.d["params_fitted"][1] = pf
        # representation invariant: success=True is only written together with params_fitted (C04)
        I.assume(z3.Implies(z3.And(pres["success"], succ), pres["params_fitted"]))
        rated = I.fork(z3.Bool("has_rating"))
        rval = SReal(z3.Real("rating_value"))
        # the fit the cached rating was computed for (Indentation.rate_quality stores the fit hash, or "none")
        rhash, curhash = SAtom(z3.Int("rated_fit_hash")), SAtom(z3.Int("current_fit_hash"))
        if "hash" in fp.map.d:
            fp.map.d["hash"][1] = curhash
        # representation invariant: a successful fit has a hash (C03/C12), and no fit hash is the string "none"
        I.assume(z3.Implies(z3.And(pres["success"], succ), pres["hash"]))
        I.assume(curhash.term != V.str_code("none"))
        idnt = sx.Obj(sx.ClassVal("Indentation", [sx.OBJECT], {}))
        idnt.attrs.update(fit_properties=fp, _rating=(rhash, "r", "t", None, None, rval) if rated else None)
        fn, _ = cls.find(name)
        st.update(name=name, pres=pres, succ=succ, pt=pt, rated=rated, rval=rval, fn=fn, rhash=rhash, curhash=curhash)
        S.names.update(has_success=pres["success"], success=succ)
        return fn, [idnt], {}

    def post(S, out):
        I = S.I
        name, fn = st["name"], st["fn"]
        if out.kind != "return":
            S.fail(f"never_raises.{name}", repr(out))
            return
        S.ok(f"never_raises.{name}")
        v = out.value
        warns = I.ghost["warnings"]
        S.ensure(f"not_cached.{name}", fn.attrs.get("cache") is False)
        fitted = z3.And(st["pres"]["success"], st["succ"])
        isnan = (lambda x: V.is_nan_const(x))
        if name == "feat_meta_rating":
            S.ensure("unit.rating_dimensionless", fn.attrs.get("unit") == "")
            # "that curve's CURRENT ... rating, and NaN (with a warning) where a curve is ... unfitted or unrated": a
            # cached rating counts only for a successfully fitted curve and the fit it was computed for
            current = z3.And(fitted, st["rhash"].term == st["curhash"].term) if st["rated"] else z3.BoolVal(False)
            if isnan(v):
                S.ensure("unrated_gives_nan_and_one_warning", warns == ["DataMissingWarning"])
                S.ensure("nan_only_when_unfitted_or_unrated", z3.Not(current), case={"rated": st["rated"]})
            else:
                S.ensure("rating_is_the_current_rating", v is st["rval"] and not warns)
                S.ensure("rating_only_for_the_current_fit", current, case={"rated": st["rated"]},
                         witness="stale_rating")
            return
        if warns:
            S.ensure(f"nan_with_one_warning_only_when_unfitted.{name}",
                     isnan(v) and warns == ["DataMissingWarning"] and I.valid(z3.Not(fitted)))
        else:
            S.ensure(f"value_only_when_fitted.{name}", I.valid(fitted) and not isnan(v))
            if name == "feat_fit_contact_point":
                S.ensure("contact_point_in_nm", fn.attrs.get("unit") == "nm"
                         and I.valid(V.rterm(v) == st["pt"]["contact_point"]["value"] * z3.RealVal("1e9")))
            else:
                S.ensure("modulus_in_Pa", fn.attrs.get("unit") == "Pa"
                         and I.valid(V.rterm(v) == st["pt"]["E"]["value"]))

    S.run(setup, post)
    return S.finish(replay=replay_qmap)


def replay_qmap(ob):
    import warnings
    import numpy as np
    from nanite import qmap
    import pathlib
    f = pathlib.Path(os.environ.get("VF_REPO", "/repo")) / "tests" / "data" / "fmt-jpk-fd_map2x2_extracted.jpk-force-map"
    qm = qmap.QMap(f)
    idnt = qm.group[0]
    idnt.fit_model(preprocessing=["compute_tip_position", "correct_force_offset", "correct_tip_offset"],
                   model_key="hertz_para")
    with warnings.catch_warnings(record=True) as w:
        warnings.simplefilter("always")
        cp = qmap.QMap.feat_fit_contact_point(idnt)
        em = qmap.QMap.feat_fit_youngs_modulus(idnt)
        un = qmap.QMap.feat_fit_youngs_modulus(qm.group[1])
    fp = idnt.fit_properties
    probs = []
    if not np.isclose(cp, fp["params_fitted"]["contact_point"].value * 1e9):
        probs.append(f"contact point {cp} vs {fp['params_fitted']['contact_point'].value * 1e9} nm")
    if em != fp["params_fitted"]["E"].value:
        probs.append(f"modulus {em} vs {fp['params_fitted']['E'].value}")
    if not np.isnan(un) or not any(x.category is qmap.DataMissingWarning for x in w):
        probs.append("unfitted curve: no NaN / no warning")
    # rated for one fit, refitted with another range, not rated again: the map must not show the old rating
    old = idnt.rate_quality()
    idnt.fit_model(range_x=(-2e-7, 0), range_type="absolute")
    with warnings.catch_warnings():
        warnings.simplefilter("ignore")
        shown = qmap.QMap.feat_meta_rating(idnt)
    cur = idnt.rate_quality()
    if not (np.isnan(shown) or abs(shown - cur) < 1e-12):
        probs.append(f"rating map shows {shown} (rating of the previous fit: {old}); current rating {cur}")
    return {"confirmed": bool(probs), "observed": probs,
            "input": "curve 0 of the 2x2 map: fit, rate, refit with range_x=(-2e-7, 0), read the rating feature"}


# ------------------------------------------------------------------ bounded: recorded files / maps
def unit_bounded_files(tier=None, seed=0):
    import time
    import warnings
    import pathlib
    import numpy as np
    import nanite
    from nanite import qmap
    t0 = time.time()
    warnings.simplefilter("ignore")
    data = pathlib.Path(os.environ.get("VF_REPO", "/repo")) / "tests" / "data"
    problems, ne, samples = [], 0, []
    files = sorted(p for p in data.iterdir() if p.suffix in (".jpk-force", ".jpk-force-map", ".csv")
                   and "cl_calibration" not in p.name)   # needs a spring constant override
    for f in files:
        try:
            vals = []
            grp = nanite.load_group(f, callback=vals.append)
        except BaseException as exc:
            if "spring constant" in repr(exc).lower() or "MissingMetaData" in type(exc).__name__:
                continue
            problems.append({"file": f.name, "what": f"raised {exc!r}"[:120]})
            break
        ne += 1
        enums = [c.enum for c in grp]
        if len(set(enums)) != len(enums):
            problems.append({"file": f.name, "what": f"enumerations not unique: {enums}"})
        if not all(isinstance(c, nanite.Indentation) for c in grp):
            problems.append({"file": f.name, "what": "not all curves are Indentation objects"})
        if any(b < a for a, b in zip(vals, vals[1:])) or (vals and (min(vals) < 0 or max(vals) > 1)):
            problems.append({"file": f.name, "what": f"progress not monotone in [0,1]: {vals[:6]}"})
        if len(samples) < 3:
            samples.append({"file": f.name, "curves": len(grp)})
        if problems:
            break
    # maps: values at their pixel, NaN + warning elsewhere, follow refits
    if not problems:
        for mf in ("fmt-jpk-fd_map2x2_extracted.jpk-force-map", "fmt-jpk-fd_map-data-reference-points.jpk-force-map"):
            qm = qmap.QMap(data / mf)
            fitted = {}
            for j, idnt in enumerate(qm.group):
                if j % 2 == 0:
                    idnt.fit_model(preprocessing=["compute_tip_position", "correct_force_offset", "correct_tip_offset"],
                                   model_key="hertz_para")
                    if j == 0:
                        idnt.rate_quality()
                    fitted[j] = idnt
            ne += 1
            for feat, getter in (("fit: Young's modulus", lambda c: c.fit_properties["params_fitted"]["E"].value),
                                 ("fit: contact point", lambda c: c.fit_properties["params_fitted"]["contact_point"].value * 1e9),
                                 ("fit: rating", lambda c: c._rating[-1] if c._rating else np.nan)):
                with warnings.catch_warnings(record=True) as w:
                    warnings.simplefilter("always")
                    qd = qm.get_qmap(feat, qmap_only=True)
                coords = qm.get_coords(which="px")
                for j, idnt in enumerate(qm.group):
                    cx, cy = coords[j]
                    got = qd[int(cy), int(cx)]
                    want = getter(idnt) if j in fitted else np.nan
                    if not ((np.isnan(got) and np.isnan(want)) or np.isclose(got, want, rtol=1e-12)):
                        problems.append({"map": mf, "feature": feat, "curve": j, "what": f"pixel holds {got}, expected {want}"})
                nmissing = sum(1 for j, c in enumerate(qm.group) if np.isnan(getter(c) if j in fitted else np.nan))
                if nmissing and not any(x.category is qmap.DataMissingWarning for x in w):
                    problems.append({"map": mf, "feature": feat, "what": "no DataMissingWarning for missing values"})
            # refit one curve: the map follows
            c0 = fitted[0]
            c0.fit_model(model_key="hertz_cone")
            qd = qm.get_qmap("fit: Young's modulus", qmap_only=True)
            cx, cy = qm.get_coords(which="px")[0]
            if not np.isclose(qd[int(cy), int(cx)], c0.fit_properties["params_fitted"]["E"].value):
                problems.append({"map": mf, "what": "map value does not follow a refit"})
            # re-rate the (unchanged) fit with other rating settings: the same map object shows the current rating
            r1 = c0.rate_quality()
            with warnings.catch_warnings():
                warnings.simplefilter("ignore")
                m1 = qm.get_qmap("fit: rating", qmap_only=True)[int(cy), int(cx)]
                r2 = c0.rate_quality(regressor="Decision Tree")
                m2 = qm.get_qmap("fit: rating", qmap_only=True)[int(cy), int(cx)]
            ne += 2
            if not (np.isclose(m1, r1) and np.isclose(m2, r2)):
                problems.append({"map": mf, "what": f"rating map shows {m1} / {m2} for ratings {r1} / {r2} "
                                                    "(second: re-rated with another regressor, same fit)"})
            if problems:
                break
    res = UnitResult(unit="bounded.recorded_files")
    res.bounded.append(BoundedResult(
        bid="C20.bounded.recorded_files_and_maps", ok=not problems, evaluations=ne, distinct=ne,
        bound=f"{len(files)} recorded files in tests/data (single curves, 0-d/1-d/2x2 maps) + 2 maps with every second "
              "curve fitted / one rated / one refitted",
        detail="one Indentation per curve, unique enums, monotone progress; map values at their pixel, NaN+warning elsewhere"
        if not problems else str(problems[0])[:300], samples=samples,
        failing_input=problems[0] if problems else None, witness="" if not problems else "files",
        time_s=round(time.time() - t0, 2)))
    return res


CANARIES = [
    dict(name="contact point in micrometres", file="qmap.py", old='            value = params["contact_point"].value * 1e9',
         new='            value = params["contact_point"].value * 1e6', expect="contact_point_in_nm"),
    dict(name="progress not divided by the number of files", file="read.py",
         old="            callback=lambda x: callback((ii + x) / len(paths))", new="            callback=lambda x: callback((ii + x))",
         expect="progress"),
    dict(name="append refuses when either is missing", file="group.py", old='        if ("spring constant" not in afmdata.metadata\n                and "tip position" not in afmdata):',
         new='        if ("spring constant" not in afmdata.metadata\n                or "tip position" not in afmdata):', expect="append"),
    dict(name="modulus feature cached", file="qmap.py", old='    @qmap_feature(name="fit: Young\'s modulus",\n                  unit="Pa",\n                  cache=False)',
         new='    @qmap_feature(name="fit: Young\'s modulus",\n                  unit="Pa",\n                  cache=True)', expect="not_cached"),
    dict(name="unrated curve reports 0", file="qmap.py", old="            warnings.warn(msg, DataMissingWarning)\n            value = np.nan\n        else:\n            # use cached rating",
         new="            warnings.warn(msg, DataMissingWarning)\n            value = 0\n        else:\n            # use cached rating", expect="unrated"),
]


def unit_canaries(tier=None, seed=None):
    from ..selftest import run_canaries
    return run_canaries("C20", CANARIES)


def units(tier):
    us = [Unit("load_data", unit_load_data), Unit("IndentationGroup.append", unit_append),
          Unit("QMap.feat", unit_qmap_features), Unit("bounded.recorded_files", unit_bounded_files)]
    if tier == "thorough" and not os.environ.get("VF_NO_CANARIES") and str(REPO) == "/repo":
        us.append(Unit("selftest.canaries", unit_canaries))
    return us


def replay_file(path):
    import json
    d = json.load(open(path))

    class _O:
        model = d.get("model")
        oid = d.get("obligation")
        witness = d.get("witness", "")
    r = replay_load_data(_O) if ".load_data." in _O.oid else (replay_qmap(_O) if "QMap" in _O.oid else {"confirmed": False})
    print(json.dumps(r, indent=1, default=str))
    return 1 if r.get("confirmed") else 0
