"""C07  Each preprocessing step does what its description says.

Pointwise / frame postconditions on the real step bodies.  The curve is a finite map of columns
(symbolic-length arrays); reading a column hands out the stored array (worst case for aliasing), so
"no stored array is written in place" is part of every contract.  compute_poc (C08) and lmfit's
LinearModel are under contract: LinearModel.fit/eval give best_fit[i] = m*x[i] + c.

  compute_tip_position   tip[i] = height_measured[i] + force[i]/k; innate column -> untouched; else ValueError
  correct_force_offset   force'[i] = force[i] - average(force[:idp])  (idp != 0), - force[0] otherwise
  correct_tip_offset     tip'[i] = tip[i] - tip[cpid]; tip'[cpid] = 0
  correct_force_slope    baseline / approach / all regions, shift / drift abscissa, no jump at the region end,
                         data outside the region untouched, invalid option -> ValueError and nothing written
  split_approach_retract segment'[i] = [i >= idturn]; else a CannotSplitWarning and nothing written
  find_turning_point     result is an index of the array; inputs not modified
  smooth_height          only height-like columns are replaced, segment-wise, by smooth_axis_monotone's output
  smooth_axis_monotone   exit-condition lemmas: (L1) loop-1 exit => weakly monotone, (L2) + all distinct =>
                         strictly monotone (median filter / tie breaking themselves: bounded)
"""
from __future__ import annotations

import os

import z3

from ..core import REPO, UnitResult, BoundedResult, ObResult, DISCHARGED, REFUTED, UNDECIDED
from ..unit import Unit
from ..engine.prove import Session, solve
from ..engine import symex as sx
from ..engine import values as V
from ..engine import arrays as A
from ..engine.values import SAtom, SReal, SBool, SInt, fresh
from ..engine.arrays import SArray

LEVEL = "other"
EXPLANATION = ("Deductive: pointwise and frame postconditions of five steps and of find_turning_point for all "
               "arrays of any length and all option values, with compute_poc and LinearModel under contract; "
               "exit-condition lemmas of the monotone smoothing. Bounded: the smoothing itself (median filter, "
               "tie breaking) and all steps on synthetic and recorded curves.")
MOD = "nanite.preproc"
COLS = ["force", "height (measured)", "height (piezo)", "tip position", "time", "segment"]


def mk_apret(I, st, have=None, innate=()):
    """the curve as seen by a step: columns (symbolic arrays of one symbolic length), metadata"""
    n = SInt(z3.Int("n"))
    I.assume(n.term >= 3)
    cols = sx.SDict()
    arrs = {}
    for c in COLS:
        if have is not None and c not in have:
            continue
        a = A.new_array_input(I, "col_" + c.replace(" ", "_").replace("(", "").replace(")", ""),
                              kind="int" if c == "segment" else "real", length=n)
        arrs[c] = a
        cols.d[c] = [True, a]
    kspring = z3.Real("spring_constant")
    I.assume(kspring > 0)
    meta = sx.SDict([("spring constant", SReal(kspring))])
    writes = []
    cls = sx.ClassVal("Indentation", [sx.OBJECT], {})
    cls.ns["__contains__"] = sx.Builtin("contains", lambda I, self, k: I.contains(cols, k))
    cls.ns["__getitem__"] = sx.Builtin("getitem", lambda I, self, k: I.getitem(cols, k))

    def setitem(I, self, k, v):
        writes.append(k)
        cols.d[k] = [True, v]
    cls.ns["__setitem__"] = sx.Builtin("setitem", setitem)
    cls.ns["__len__"] = sx.Builtin("len", lambda I, self: n)
    o = sx.Obj(cls)
    o.attrs.update(metadata=meta, columns_innate=list(innate))
    st.update(apret=o, cols=cols, arrs=arrs, n=n, kspring=kspring, writes=writes, meta=meta)
    return o


def frame_ok(I, st, allowed):
    """only the allowed columns were (re)written; no stored array was modified in place"""
    ok_writes = all(w in allowed for w in st["writes"])
    in_place = any(any(m is a for m in I.mutations) for a in st["arrs"].values())
    same_others = all(st["cols"].d[c][1] is a for c, a in st["arrs"].items() if c not in allowed)
    return ok_writes and not in_place and same_others


def install_poc(I, st, nan_possible=False):
    """contract of poc.compute_poc / poc_deviation_from_baseline (C08): an index of the force array"""
    calls = []

    def compute_poc(I, fv, args, kwargs):
        calls.append(kwargs)
        force = kwargs.get("force", args[0] if args else None)
        j = z3.Int(fresh("cpid"))
        I.assume(z3.And(j >= 0, j < force.len_term()))
        st["cpid"] = j
        if kwargs.get("ret_details"):
            return (SInt(j), sx.SDict([("method", kwargs.get("method"))]))
        return SInt(j)
    I.contracts["nanite.poc:compute_poc"] = compute_poc

    def dev(I, fv, args, kwargs):
        calls.append(dict(kwargs, _pos=args))
        force = args[0]
        j = z3.Int(fresh("idp"))
        I.assume(z3.And(j >= 0, j < force.len_term()))
        st["cpid"] = j
        if I.fork(z3.Bool("poc_is_nan")):
            return V.NAN
        return SInt(j)
    I.contracts["nanite.poc:poc_deviation_from_baseline"] = dev
    st["poc_calls"] = calls


def step(I, name):
    mod = I.module(MOD)
    for fn in mod.env.vars["PREPROCESSORS"]:
        if fn.attrs["identifier"] == name:
            return fn
    raise KeyError(name)


# ------------------------------------------------------------------ compute_tip_position
def unit_tip_position(tier=None, seed=None):
    S = Session("C07", "compute_tip_position", f"{MOD}:preproc_compute_tip_position")
    st = {}
    VAR = ["innate", "computable", "no_height", "no_force", "no_spring_constant"]

    def setup(I):
        vi = I.choose([z3.Int("variant") == i for i in range(len(VAR))])
        if vi >= len(VAR):
            raise sx.PathAbort()
        v = VAR[vi]
        have = set(COLS) - {"tip position"}
        if v == "innate":
            have = set(COLS)
        if v == "no_height":
            have -= {"height (measured)"}
        if v == "no_force":
            have -= {"force"}
        o = mk_apret(I, st, have=have, innate=["tip position"] if v == "innate" else [])
        if v == "no_spring_constant":
            st["meta"].d.clear()
        st["variant"] = v
        return step(I, "compute_tip_position"), [o], {}

    def post(S, out):
        I = S.I
        v = st["variant"]
        case = {"variant": v, "outcome": repr(out)}
        if v in ("no_height", "no_force", "no_spring_constant"):
            S.ensure("missing_input_raises_ValueError", out.raises("ValueError"), case=case)
            S.ensure("nothing_written_on_error", frame_ok(I, st, ()), case=case)
            return
        if out.kind != "return":
            S.fail("returns", repr(out), case=case)
            return
        if v == "innate":
            S.ensure("innate_tip_position_untouched", frame_ok(I, st, ()), case=case)
            return
        tip = st["cols"].d.get("tip position")
        if tip is None or not isinstance(tip[1], SArray):
            S.fail("tip_position_written", "no tip position column", case=case)
            return
        k = z3.Int("k")
        n = st["n"].term
        hm, fo = st["arrs"]["height (measured)"], st["arrs"]["force"]
        val = tip[1].at(k)
        S.names.update(k=k, n=n)
        S.ensure("tip_is_height_plus_force_over_spring_constant",
                 z3.Implies(z3.And(k >= 0, k < n), V.rterm(val) == hm.uf(k) + fo.uf(k) / st["kspring"]))
        S.ensure("point_count_unchanged", tip[1].len_term() == n)
        S.ensure("owns_only_tip_position", frame_ok(I, st, ("tip position",)), case=case)

    S.run(setup, post)
    return S.finish(replay=replay_steps)


# ------------------------------------------------------------------ correct_force_offset
def unit_force_offset(tier=None, seed=None):
    S = Session("C07", "correct_force_offset", f"{MOD}:preproc_correct_force_offset")
    st = {}

    def setup(I):
        o = mk_apret(I, st)
        install_poc(I, st)
        return step(I, "correct_force_offset"), [o], {}

    def post(S, out):
        I = S.I
        if out.kind != "return":
            S.fail("returns", repr(out))
            return
        fo = st["arrs"]["force"]
        new = st["cols"].d["force"][1]
        k, n, idp = z3.Int("k"), st["n"].term, st["cpid"]
        inr = z3.And(k >= 0, k < n)
        S.names.update(k=k, n=n, idp=idp)
        j = z3.Int("red_k")
        avg = L_AVG(fo, idp)
        val = V.rterm(new.at(k))
        # changes the column only by a constant: the mean force before the contact point
        S.ensure("force_shifted_by_mean_of_baseline",
                 z3.Implies(z3.And(inr, idp != 0), val == fo.uf(k) - avg))
        S.ensure("force_shifted_by_first_sample_when_no_baseline",
                 z3.Implies(z3.And(inr, idp == 0), val == fo.uf(k) - fo.uf(0)))
        S.ensure("contact_index_from_deviation_from_baseline_on_the_force",
                 len(st["poc_calls"]) == 1 and st["poc_calls"][0].get("method") == "deviation_from_baseline"
                 and st["poc_calls"][0].get("force") is fo)
        S.ensure("point_count_unchanged", new.len_term() == n)
        S.ensure("owns_only_force", frame_ok(I, st, ("force",)))
        S.I.trusted.add("average is linear: average(f - c) = average(f) - c (so the corrected baseline has zero mean)")

    S.run(setup, post)
    return S.finish(replay=replay_steps)


def L_AVG(arr, upto):
    """the engine's term for np.average(arr[:upto])  (same uninterpreted function, same argument)"""
    from ..engine import lib as L
    j = z3.Int("red_k")
    n = arr.len_term()
    lo = z3.IntVal(0)
    hi = z3.simplify(z3.If(upto < 0, z3.If(upto + n < 0, 0, upto + n), z3.If(upto > n, n, upto)))
    length = z3.simplify(z3.If(hi - lo > 0, hi - lo, 0))
    return L.AVG(z3.Lambda([j], arr.uf(j + lo)), length)


# ------------------------------------------------------------------ correct_tip_offset
def unit_tip_offset(tier=None, seed=None):
    S = Session("C07", "correct_tip_offset", f"{MOD}:preproc_correct_tip_offset")
    st = {}

    def setup(I):
        o = mk_apret(I, st)
        install_poc(I, st)
        rd = I.fork(z3.Bool("ret_details"))
        meth = SAtom(z3.Int("method"))
        st.update(rd=rd, meth=meth)
        return step(I, "correct_tip_offset"), [o], dict(method=meth, ret_details=rd)

    def post(S, out):
        I = S.I
        if out.kind != "return":
            S.fail("returns", repr(out))
            return
        tip = st["arrs"]["tip position"]
        new = st["cols"].d["tip position"][1]
        k, n, cp = z3.Int("k"), st["n"].term, st["cpid"]
        S.names.update(k=k, n=n, cpid=cp)
        val = V.rterm(new.at(k))
        S.ensure("tip_shifted_by_its_value_at_the_contact_index",
                 z3.Implies(z3.And(k >= 0, k < n), val == tip.uf(k) - tip.uf(cp)))
        S.ensure("tip_is_zero_at_the_contact_index", V.rterm(new.at(cp)) == 0)
        c = st["poc_calls"][0] if st["poc_calls"] else {}
        S.ensure("contact_index_from_requested_method_on_the_force",
                 len(st["poc_calls"]) == 1 and c.get("method") is st["meth"] and c.get("force") is st["arrs"]["force"])
        S.ensure("details_only_when_asked", (out.value is None) == (not st["rd"]))
        S.ensure("point_count_unchanged", new.len_term() == n)
        S.ensure("owns_only_tip_position", frame_ok(I, st, ("tip position",)))

    S.run(setup, post)
    return S.finish(replay=replay_steps)


# ------------------------------------------------------------------ correct_force_slope
def install_linear_model(I, st):
    fits = []

    def linear_model(I):
        mcls = sx.ClassVal("LinearModel", [sx.OBJECT], {})
        mcls.ns["guess"] = sx.Builtin("guess", lambda I, self, data, x=None: ("guess", data, x))

        def fit(I, self, data, pars=None, x=None):
            m, c = z3.Real(fresh("slope")), z3.Real(fresh("intercept"))
            xs = x.snap()
            out = sx.Obj(sx.ClassVal("ModelResult", [sx.OBJECT], {}))
            out.attrs["best_fit"] = SArray(data.length, lambda i: SReal(m * V.rterm(xs(i)) + c), "real")
            out.attrs["params"] = ("linear-params", m, c)
            fits.append(dict(data=data, x=x, m=m, c=c, pars=pars))
            return out
        mcls.ns["fit"] = sx.Builtin("fit", fit)

        def ev(I, self, params, x=None):
            _, m, c = params
            xs = x.snap()
            return SArray(x.length, lambda i: SReal(m * V.rterm(xs(i)) + c), "real")
        mcls.ns["eval"] = sx.Builtin("eval", ev)
        return sx.Obj(mcls)
    I.lib["lmfit.models.LinearModel"] = linear_model
    st["fits"] = fits


def unit_force_slope(tier=None, seed=None):
    S = Session("C07", "correct_force_slope", f"{MOD}:preproc_correct_force_slope")
    st = {}
    REG = ["baseline", "approach", "all", "bogus_region"]
    STR = ["shift", "drift", "bogus_strategy"]

    def setup(I):
        st.pop("ftp", None)
        o = mk_apret(I, st)
        install_linear_model(I, st)
        ri = I.choose([z3.Int("region") == i for i in range(len(REG))])
        si = I.choose([z3.Int("strategy") == i for i in range(len(STR))])
        if ri >= len(REG) or si >= len(STR):
            raise sx.PathAbort()
        region, strategy = REG[ri], STR[si]

        def ftp(I, fv, args, kwargs):
            j = z3.Int("idturn_raw")
            I.assume(z3.And(j >= 0, j < st["n"].term))
            st["ftp"] = dict(kwargs, _pos=args)
            return SInt(j)
        I.contracts[f"{MOD}:find_turning_point"] = ftp
        st.update(region=region, strategy=strategy)
        return step(I, "correct_force_slope"), [o], dict(region=region, strategy=strategy, ret_details=False)

    def post(S, out):
        I = S.I
        region, strategy = st["region"], st["strategy"]
        case = {"region": region, "strategy": strategy, "outcome": repr(out)}
        if region.startswith("bogus") or strategy.startswith("bogus"):
            S.ensure("invalid_option_raises_ValueError", out.raises("ValueError"), case=case)
            S.ensure("nothing_written_for_invalid_option", frame_ok(I, st, ()), case=case)
            return
        if out.kind != "return":
            S.fail("returns", repr(out), case=case)
            return
        fo, tip, tm = st["arrs"]["force"], st["arrs"]["tip position"], st["arrs"]["time"]
        new = st["cols"].d["force"][1]
        k, n = z3.Int("k"), st["n"].term
        inr = z3.And(k >= 0, k < n)
        S.names.update(k=k, n=n)
        absc = tip if strategy == "shift" else tm
        fit = st["fits"][-1] if st["fits"] else None
        S.ensure("trend_is_fitted", fit is not None, case=case)
        if fit is None:
            return
        m = fit["m"]
        # the code's contact index: max(2, argmin |tip|) -- recover it from the fitted baseline slice
        idp = fit["data"].len_term()          # = clip(idp, 0, n) = idp since 2 <= idp <= n-1
        S.names.update(idp=idp, slope=m)
        # the trend is fitted to the baseline part of the force over the selected abscissa
        S.ensure(f"trend_fitted_over_{'tip_position' if strategy == 'shift' else 'time'}",
                 fit["x"].root() is absc and fit["data"].root() is fo
                 and I.valid(fit["x"].len_term() == idp), case=case)
        val = V.rterm(new.at(k))
        a = lambda i: absc.uf(i)
        if region == "baseline":
            end = idp
        elif region == "approach":
            idturn = z3.Int("idturn_raw")
            end = z3.If(idturn >= 2, idturn, 2)
            S.ensure("turning_point_from_tip_position_and_force",
                     st.get("ftp", {}).get("tip_position") is tip and st["ftp"].get("contact_point_index") is not None)
        if region in ("baseline", "approach"):
            # inside the region: the fitted trend is removed, pinned to zero at the last point of the region
            S.ensure(f"removes_fitted_trend_in_region.{region}",
                     z3.Implies(z3.And(inr, k < end), val == fo.uf(k) - m * (a(k) - a(end - 1))), witness=strategy)
            S.ensure(f"no_jump_at_region_end.{region}",
                     z3.Implies(z3.And(end >= 1, end <= n), V.rterm(new.at(end - 1)) == fo.uf(end - 1)), witness=strategy)
            S.ensure(f"data_outside_region_untouched.{region}",
                     z3.Implies(z3.And(inr, k >= end), val == fo.uf(k)), witness=strategy)
        else:
            S.ensure("removes_fitted_trend_in_region.all",
                     z3.Implies(z3.And(inr, idp < n), val == fo.uf(k) - m * (a(k) - a(idp))), witness=strategy)
            S.ensure("correction_zero_at_contact_index.all",
                     z3.Implies(idp < n, V.rterm(new.at(idp)) == fo.uf(idp)), witness=strategy)
        S.ensure("point_count_unchanged", new.len_term() == n)
        S.ensure("owns_only_force", frame_ok(I, st, ("force",)), case=case)

    S.run(setup, post)
    return S.finish(replay=replay_steps)


# ------------------------------------------------------------------ split approach / retract
def unit_split(tier=None, seed=None):
    S = Session("C07", "correct_split_approach_retract", f"{MOD}:preproc_correct_split_approach_retract")
    st = {}

    def setup(I):
        st.pop("ftp", None)
        o = mk_apret(I, st)
        install_poc(I, st, nan_possible=True)

        def ftp(I, fv, args, kwargs):
            j = z3.Int("idturn")
            I.assume(z3.And(j >= 0, j < st["n"].term))
            st["ftp"] = dict(kwargs, _pos=args)
            return SInt(j)
        I.contracts[f"{MOD}:find_turning_point"] = ftp
        return step(I, "correct_split_approach_retract"), [o], {}

    def post(S, out):
        I = S.I
        if out.kind != "return":
            S.fail("returns", repr(out))
            return
        warns = I.ghost["warnings"]
        k, n = z3.Int("k"), st["n"].term
        S.names.update(k=k, n=n, idturn=z3.Int("idturn"))
        if "ftp" in st:
            seg = st["cols"].d["segment"][1]
            idturn = z3.Int("idturn")
            S.ensure("single_switch_at_the_turning_point",
                     z3.Implies(z3.And(k >= 0, k < n), V.rterm(seg.at(k)) == z3.If(k >= idturn, 1, 0)))
            S.ensure("turning_point_from_tip_position_force_and_contact_index",
                     st["ftp"].get("tip_position") is st["arrs"]["tip position"] and st["ftp"].get("force") is st["arrs"]["force"])
            S.ensure("point_count_unchanged", seg.len_term() == n)
            S.ensure("owns_only_segment", frame_ok(I, st, ("segment",)) and not warns)
        else:
            S.ensure("cannot_split_warns_and_writes_nothing", warns == ["CannotSplitWarning"] and frame_ok(I, st, ()))

    S.run(setup, post)
    return S.finish(replay=replay_steps)


# ------------------------------------------------------------------ find_turning_point
def unit_find_turning_point(tier=None, seed=None):
    S = Session("C07", "find_turning_point", f"{MOD}:find_turning_point")
    S.check_domain = False     # normalisation divides by data extrema: well-formedness assumption, see notes
    st = {}

    def setup(I):
        n = SInt(z3.Int("n"))
        I.assume(n.term >= 3)
        tip = A.new_array_input(I, "tip", length=n)
        force = A.new_array_input(I, "force", length=n)
        idp = z3.Int("idp")
        I.assume(z3.And(idp >= 1, idp < n.term))
        st.update(n=n, tip=tip, force=force)
        return I.lookup_qual(f"{MOD}:find_turning_point"), [], dict(tip_position=tip, force=force,
                                                                    contact_point_index=SInt(idp))

    def post(S, out):
        I = S.I
        if out.kind != "return":
            S.fail("returns_an_index", repr(out))
            return
        r = out.value
        S.ensure("returns_an_index", isinstance(r, SInt) and I.valid(z3.And(r.term >= 0, r.term < st["n"].term)))
        S.ensure("inputs_not_modified", not any(m is st["tip"] or m is st["force"] for m in I.mutations))

    S.run(setup, post)
    return S.finish()


# ------------------------------------------------------------------ smooth_height (column bookkeeping)
def unit_smooth_height(tier=None, seed=None):
    S = Session("C07", "smooth_height", f"{MOD}:preproc_smooth_height")
    st = {}

    def setup(I):
        have = set(COLS)
        if I.fork(z3.Bool("no_piezo_height")):
            have -= {"height (piezo)"}
        o = mk_apret(I, st, have=have)
        log = []

        def sam(I, fv, args, kwargs):
            log.append(args[0])
            return ("smoothed", args[0])
        I.contracts[f"{MOD}:smooth_axis_monotone"] = sam
        I.contracts["nanite.smooth:smooth_axis_monotone"] = sam
        segw = []

        def mk_seg(name):
            scls = sx.ClassVal("AFMSegment", [sx.OBJECT], {})
            scls.ns["__getitem__"] = sx.Builtin("seg.getitem", lambda I, self, k: (name, k))
            scls.ns["__setitem__"] = sx.Builtin("seg.setitem", lambda I, self, k, v: segw.append((name, k, v)))
            return sx.Obj(scls)
        o.attrs["appr"], o.attrs["retr"] = mk_seg("appr"), mk_seg("retr")
        st.update(log=log, segw=segw, have=have)
        return step(I, "smooth_height"), [o], {}

    def post(S, out):
        I = S.I
        if out.kind != "return":
            S.fail("returns", repr(out))
            return
        hl = [c for c in ("height (measured)", "height (piezo)", "tip position") if c in st["have"]]
        want = []
        for c in hl:
            want += [("appr", c, ("smoothed", ("appr", c))), ("retr", c, ("smoothed", ("retr", c)))]
        S.ensure("every_height_like_column_smoothed_per_segment", sorted(map(repr, st["segw"])) == sorted(map(repr, want)),
                 case={"writes": [w[:2] for w in st["segw"]]})
        S.ensure("no_other_column_written", not st["writes"] and frame_ok(I, st, ()))

    S.run(setup, post)
    return S.finish()


# ------------------------------------------------------------------ smoothing exit-condition lemmas
def unit_smoothing_lemmas(tier=None, seed=None):
    """reads which difference operator the real loop-1 exit test uses (np.gradient / np.diff) and
    decides 'exit condition => weakly monotone' for arrays of 3..6 symbolic samples"""
    import ast
    from ..core import SRC
    res = UnitResult(unit="smooth_axis_monotone.exit_lemmas")
    tree = ast.parse((SRC / "smooth.py").read_text())
    # Which difference operator feeds the loop-1 exit test?  Read structurally (names of variables and helpers, and
    # np.f(x) vs x.f() spellings, do not matter): every function of smooth.py that smooth_axis_monotone can reach is
    # searched for  <operator>(...)  calls and for a comparison of the shape  |sum(v)| == sum(|v|).
    funcs = {}
    for node in ast.walk(tree):
        if isinstance(node, (ast.FunctionDef, ast.Lambda)) and getattr(node, "name", None):
            funcs.setdefault(node.name, node)
    reach, todo = set(), ["smooth_axis_monotone"]
    while todo:
        nm = todo.pop()
        if nm in reach or nm not in funcs:
            continue
        reach.add(nm)
        for n in ast.walk(funcs[nm]):
            if isinstance(n, ast.Call) and isinstance(n.func, ast.Name):
                todo.append(n.func.id)
            if isinstance(n, ast.FunctionDef) and n is not funcs[nm]:
                todo.append(n.name)

    def shape(e):
        """abs/sum nesting of an expression over one variable: 'abs(sum(v))', 'sum(abs(v))', ... or None"""
        if isinstance(e, ast.Call):
            f = e.func
            fname = f.attr if isinstance(f, ast.Attribute) else (f.id if isinstance(f, ast.Name) else None)
            if fname in ("abs", "absolute", "sum", "fabs"):
                fname = "abs" if fname != "sum" else "sum"
                if e.args:
                    inner = shape(e.args[0])
                elif isinstance(f, ast.Attribute):          # method form: v.sum()
                    inner = shape(f.value)
                else:
                    inner = None
                return None if inner is None else f"{fname}({inner})"
            return None
        if isinstance(e, ast.Name):
            return "v"
        return None
    ops, cond_ok = set(), False
    for nm in reach:
        for n in ast.walk(funcs[nm]):
            if isinstance(n, ast.Call) and isinstance(n.func, ast.Attribute) and n.func.attr in ("gradient", "diff") \
                    and isinstance(n.func.value, ast.Name) and n.func.value.id in ("np", "numpy"):
                # (np.diff of an index list -- tie bookkeeping -- is not a difference of the data; it never feeds an
                #  abs/sum comparison, and counting it can only make the lemma harder: gradient wins below)
                ops.add(n.func.attr)
            if isinstance(n, ast.Compare) and len(n.ops) == 1 and isinstance(n.ops[0], ast.Eq):
                pair = {shape(n.left), shape(n.comparators[0])}
                if pair == {"abs(sum(v))", "sum(abs(v))"}:
                    cond_ok = True
    # a central-difference operator anywhere on the path decides the (harder) lemma
    op = "gradient" if "gradient" in ops else ("diff" if "diff" in ops else None)
    if op not in ("gradient", "diff") or not cond_ok:
        res.obligations.append(ObResult(oid="C07.smooth_axis_monotone.L1_exit_implies_weakly_monotone", status=UNDECIDED,
                                        backend="engine", detail=f"exit test not recognised (operator {op})"))
        return res
    worst = None
    tot = 0.0
    for n in range(3, 7):
        s = [z3.Real(f"s{i}") for i in range(n)]
        if op == "diff":
            g = [s[i + 1] - s[i] for i in range(n - 1)]
        else:   # numpy.gradient: central differences inside, one-sided at the ends
            g = [s[1] - s[0]] + [(s[i + 1] - s[i - 1]) / 2 for i in range(1, n - 1)] + [s[n - 1] - s[n - 2]]
        ab = lambda t: z3.If(t >= 0, t, -t)
        exit_cond = ab(z3.Sum(g)) == z3.Sum([ab(t) for t in g])
        mono = z3.Or(z3.And(*[s[i] <= s[i + 1] for i in range(n - 1)]), z3.And(*[s[i] >= s[i + 1] for i in range(n - 1)]))
        st_, be, dt, model, detail = solve([exit_cond], mono, names={f"s{i}": s[i] for i in range(n)})
        tot += dt
        if st_ != DISCHARGED and worst is None:
            worst = (st_, n, model, detail, be)
    if worst is None:
        ob = ObResult(oid="C07.smooth_axis_monotone.L1_exit_implies_weakly_monotone", status=DISCHARGED, backend="z3",
                      time_s=round(tot, 3), paths=4,
                      detail=f"loop-1 exit test on np.{op}: |sum d| = sum |d| implies weakly monotone (n = 3..6 symbolic samples)")
    else:
        st_, n, model, detail, be = worst
        ob = ObResult(oid="C07.smooth_axis_monotone.L1_exit_implies_weakly_monotone", status=st_, backend=be,
                      time_s=round(tot, 3), paths=4, model=model, witness=f"np.{op}",
                      detail=f"exit test on np.{op} does not imply monotone for n={n}: {detail}")
        if st_ == REFUTED:
            ob.replay = replay_smoothing(model, n)
    res.obligations.append(ob)
    # L2: weakly monotone and pairwise distinct => strictly monotone
    n = 5
    s = [z3.Real(f"s{i}") for i in range(n)]
    weak = z3.Or(z3.And(*[s[i] <= s[i + 1] for i in range(n - 1)]), z3.And(*[s[i] >= s[i + 1] for i in range(n - 1)]))
    strict = z3.Or(z3.And(*[s[i] < s[i + 1] for i in range(n - 1)]), z3.And(*[s[i] > s[i + 1] for i in range(n - 1)]))
    st2, be2, dt2, m2, d2 = solve([weak, z3.Distinct(*s)], strict)
    res.obligations.append(ObResult(oid="C07.smooth_axis_monotone.L2_distinct_and_weakly_monotone_is_strict",
                                    status=st2, backend=be2, time_s=round(dt2, 3), paths=1, detail=d2))
    res.trusted.append("exit-condition lemmas are decided for 3..6 symbolic samples (the condition is a symmetric "
                       "sum; not an induction over the length)")
    return res


def replay_smoothing(model, n):
    import numpy as np
    from nanite.smooth import smooth_axis_monotone
    try:
        data = np.array([float(model[f"s{i}"]["float"] if isinstance(model[f"s{i}"], dict) else model[f"s{i}"])
                         for i in range(n)])
    except Exception:
        data = np.array([0.0, 1.0, 0.5, 2.0])
    for cand in (data, np.array([0.0, 1.0, 0.5, 2.0])):
        try:
            out = smooth_axis_monotone(cand.copy(), window=1)
        except Exception as exc:
            continue
        d = np.diff(out)
        if not (np.all(d > 0) or np.all(d < 0)):
            return {"confirmed": True, "input": {"data": cand.tolist(), "window": 1}, "observed": out.tolist(),
                    "required": "strictly monotonic output"}
    return {"confirmed": False}


# ------------------------------------------------------------------ native replays and bounded runs
def _synth(n=400, noise=0.0, tilt=0.0, seed=0):
    """synthetic approach+retract curve on a real Indentation object"""
    import numpy as np
    import afmformats
    import nanite
    rng = np.random.default_rng(seed)
    half = n // 2
    z = np.concatenate([np.linspace(2e-6, -1e-6, half), np.linspace(-1e-6, 2e-6, n - half)])
    contact = np.maximum(-z, 0)
    force = 1e3 * contact ** 1.5 * 4 / 3 * np.sqrt(5e-6) / (1 - 0.25) + tilt * z + 2e-10
    force = force + noise * rng.standard_normal(n) * 1e-11
    kspr = 0.05
    hm = z - force / kspr
    data = {"force": force, "height (measured)": hm, "height (piezo)": hm.copy(),
            "time": np.linspace(0, 1, n), "segment": np.concatenate([np.zeros(half, bool), np.ones(n - half, bool)])}
    meta = {"spring constant": kspr, "imaging mode": "force-distance", "path": "synthetic", "enum": 0}
    return nanite.Indentation(data=data, metadata=meta)


def replay_steps(ob):
    """native: the step's clause on synthetic curves with known ground truth"""
    import numpy as np
    import warnings
    from nanite import preproc, poc
    warnings.simplefilter("ignore")
    oid = ob.oid
    for noise, tilt, seed in ((0, 0, 0), (1.0, 5e-5, 1), (3.0, -1e-4, 2)):
        cur = _synth(noise=noise, tilt=tilt, seed=seed)
        f0 = np.array(cur["force"], copy=True)
        hm = np.array(cur["height (measured)"], copy=True)
        k = cur.metadata["spring constant"]
        case = {"noise": noise, "tilt": tilt}
        try:
            if "compute_tip_position" in oid:
                preproc.apply(cur, ["compute_tip_position"], {})
                if not np.allclose(cur["tip position"], hm + f0 / k, rtol=1e-12, atol=0):
                    return {"confirmed": True, "input": case, "observed": "tip != height + force/k"}
            elif "correct_force_offset" in oid:
                preproc.apply(cur, ["correct_force_offset"], {})
                idp = poc.compute_poc(f0, "deviation_from_baseline")
                want = f0 - (np.average(f0[:idp]) if idp else f0[0])
                if not np.allclose(cur["force"], want, rtol=1e-12, atol=1e-25):
                    return {"confirmed": True, "input": case, "observed": "force not shifted by the baseline mean"}
            elif "correct_tip_offset" in oid:
                preproc.apply(cur, ["compute_tip_position", "correct_tip_offset"], {})
                tip0 = hm + f0 / k
                cp = poc.compute_poc(f0, "deviation_from_baseline")
                if not np.allclose(cur["tip position"], tip0 - tip0[cp], rtol=1e-12, atol=1e-20) or cur["tip position"][cp] != 0:
                    return {"confirmed": True, "input": case, "observed": "tip position not zero at the contact index"}
            elif "correct_force_slope" in oid:
                for region in ("baseline", "approach", "all"):
                    for strategy in ("shift", "drift"):
                        c2 = _synth(noise=noise, tilt=tilt, seed=seed)
                        preproc.apply(c2, ["compute_tip_position", "correct_tip_offset", "correct_force_slope"],
                                      {"correct_force_slope": {"region": region, "strategy": strategy}})
                        c3 = _synth(noise=noise, tilt=tilt, seed=seed)
                        preproc.apply(c3, ["compute_tip_position", "correct_tip_offset"], {})
                        tip, tm, fb = np.array(c3["tip position"]), np.array(c3["time"]), np.array(c3["force"])
                        idp = max(2, int(np.argmin(np.abs(tip))))
                        ab = tip if strategy == "shift" else tm
                        m = np.polyfit(ab[:idp], fb[:idp], 1)[0]
                        got = np.array(c2["force"])
                        if region == "baseline":
                            end = idp
                        elif region == "approach":
                            end = max(2, preproc.find_turning_point(tip, fb.copy(), idp))
                        if region == "all":
                            want = fb - m * (ab - ab[idp])
                        else:
                            want = fb.copy()
                            want[:end] -= m * (ab[:end] - ab[end - 1])
                        scale = np.ptp(fb)
                        if not np.allclose(got, want, rtol=0, atol=1e-6 * scale):
                            return {"confirmed": True, "input": {**case, "region": region, "strategy": strategy},
                                    "observed": f"max deviation {np.max(np.abs(got - want)) / scale:.3g} of the force range",
                                    "required": "fitted trend removed over the selected abscissa"}
            elif "split" in oid:
                preproc.apply(cur, ["compute_tip_position", "correct_split_approach_retract"], {})
                seg = np.array(cur["segment"], dtype=int)
                if np.sum(np.abs(np.diff(seg))) != 1:
                    return {"confirmed": True, "input": case, "observed": "not a single approach-to-retract switch"}
        except Exception as exc:
            return {"confirmed": True, "input": case, "observed": repr(exc)[:200], "required": "no exception"}
    return {"confirmed": False}


def unit_bounded_steps(tier=None, seed=0):
    import time
    import warnings
    import numpy as np
    from nanite import preproc
    from nanite.smooth import smooth_axis_monotone
    t0 = time.time()
    warnings.simplefilter("ignore")
    problems, ne = [], 0
    for name in ("compute_tip_position", "correct_force_offset", "correct_tip_offset", "correct_force_slope", "split"):
        class O:
            oid = "C07." + name
            model = None
        r = replay_steps(O)
        ne += 3
        if r.get("confirmed"):
            problems.append({"step": name, **r})
    # smoothing: strictly monotone per segment on well-formed height data (noise below one sample step)
    rng = np.random.default_rng(seed or 3)
    nmono = 0
    for t in range(200 if tier == "quick" else 3000):
        n = int(rng.integers(30, 400))
        ramp = np.linspace(0, 1, n) * rng.choice([-1, 1])
        step_ = 1 / n
        data = ramp + rng.uniform(-0.45, 0.45, n) * step_
        try:
            out = smooth_axis_monotone(data)
        except Exception as exc:
            problems.append({"step": "smooth_height", "what": f"raised {exc!r}"[:100], "n": n})
            break
        ne += 1
        d = np.diff(out)
        if not (np.all(d > 0) or np.all(d < 0)):
            nmono += 1
            if nmono == 1:
                problems.append({"step": "smooth_height", "what": "output not strictly monotonic", "data": data.tolist()[:40],
                                 "n": n})
        if out.shape != data.shape:
            problems.append({"step": "smooth_height", "what": "point count changed"})
    # turning point: the farthest point, independent of a constant force offset (lagged force maximum)
    for t in range(6):
        n = 3000
        z = np.concatenate([np.linspace(2e-6, -1e-6, n // 2), np.linspace(-1e-6, 2e-6, n - n // 2)])
        lag = 60
        contact = np.maximum(-np.roll(z, lag), 0)
        f = 1e3 * contact ** 1.5 * 4 / 3 * np.sqrt(5e-6) / 0.75 + rng.normal(0, 1e-12, n)
        idp = int(np.argmin(np.abs(z[:n // 2])))
        ref = preproc.find_turning_point(z.copy(), f.copy(), idp)
        for off in (2e-9, -2e-9, 2e-8, -2e-8):
            got = preproc.find_turning_point(z.copy(), f + off, idp)
            ne += 1
            if got != ref:
                problems.append({"step": "find_turning_point", "what": f"turning point {got} vs {ref} after adding a constant "
                                                                     f"force offset {off}"})
                break
        # independent statement of the docstring: farthest point in normalised coordinates
        x = z - z[idp]
        x = np.where(x / x.min() < 0, 0, x / x.min()) if x.min() != 0 else x
        y = f - np.average(f[:idp])
        y = y / y.max()
        y = np.where(y < np.std(y[:idp]), 0, y)
        want = int(np.argmax(x ** 2 + y ** 2))
        if ref != want:
            problems.append({"step": "find_turning_point", "what": f"turning point {ref}, farthest point {want}"})
        if problems:
            break
    # recorded curves: column counts / point counts
    from . import indent_units as IU
    cur = IU._curve()
    npts = len(cur)
    ncols = set(cur.columns)
    cur.apply_preprocessing(["compute_tip_position", "correct_force_offset", "correct_tip_offset", "correct_force_slope",
                             "correct_split_approach_retract", "smooth_height"])
    ne += 1
    if len(cur) != npts or not ncols <= set(cur.columns):
        problems.append({"step": "all", "what": "number of points / columns changed on the recorded curve"})
    for col in ("height (measured)", "tip position"):
        for seg in (cur.appr, cur.retr):
            d = np.diff(np.array(seg[col]))
            if not (np.all(d > 0) or np.all(d < 0)):
                problems.append({"step": "smooth_height", "what": f"{col} not strictly monotonic in a segment (recorded curve)"})
    # the smooth_height STEP (not only the smoother) on recorded data whose height columns are clean ramps with a few
    # repeated values (a piezo that rests for three samples): weakly monotonic input must come out strictly monotonic
    import warnings as _w
    import nanite as _nanite
    cur0 = IU._curve()
    sg_ = np.array(cur0["segment"], dtype=bool)
    data_ = {c: np.array(cur0[c], copy=True) for c in cur0.columns}
    for col in ("height (measured)", "height (piezo)"):
        for s_, (a_, b_) in ((~sg_, (6e-6, -1e-6)), (sg_, (-1e-6, 6e-6))):
            n_ = int(s_.sum())
            ramp_ = np.linspace(a_, b_, n_)
            for k_ in (10, n_ // 3, n_ // 2, n_ - 20):
                ramp_[k_:k_ + 3] = ramp_[k_]
            data_[col][s_] = ramp_
    cur = _nanite.Indentation(data=data_, metadata=dict(cur0.metadata))
    try:
        with _w.catch_warnings():
            _w.simplefilter("ignore")
            cur.apply_preprocessing(["compute_tip_position", "smooth_height"])
        ne += 1
        for col in ("height (measured)", "height (piezo)", "tip position"):
            for seg in (cur.appr, cur.retr):
                d = np.diff(np.array(seg[col]))
                if not (np.all(d > 0) or np.all(d < 0)):
                    problems.append({"step": "smooth_height", "what": f"{col} not strictly monotonic in a segment: clean "
                                     f"ramp with four runs of three equal samples ({int((d == 0).sum())} ties left)"})
    except Exception as exc:
        problems.append({"step": "smooth_height", "what": f"ramp with repeated samples: raised {exc!r}"[:160]})
    res = UnitResult(unit="bounded.steps_on_curves")
    res.bounded.append(BoundedResult(
        bid="C07.bounded.steps_on_synthetic_and_recorded_curves", ok=not problems, evaluations=ne, distinct=ne,
        bound="5 steps x 3 synthetic curves (noise, tilt) x all regions/strategies; smoothing on seeded noisy ramps "
              "(noise below one sample step); all six steps on a recorded curve; the smooth_height step on a recorded "
              "curve whose height columns are clean ramps with four runs of three equal samples",
        detail="every clause holds" if not problems else str({k: v for k, v in problems[0].items() if k != 'data'})[:300],
        samples=[{"step": "correct_force_slope", "regions": 3, "strategies": 2}],
        failing_input=problems[0] if problems else None,
        witness="" if not problems else problems[0]["step"], time_s=round(time.time() - t0, 2)))
    return res


CANARIES = [
    dict(name="tip position subtracts the cantilever deflection", file="preproc.py", old='        apret["tip position"] = zcant + force / k',
         new='        apret["tip position"] = zcant - force / k', expect="tip_is_height_plus_force"),
    dict(name="offset averaged one sample too far", file="preproc.py", old='np.average(apret["force"][:idp])',
         new='np.average(apret["force"][:idp+1])', expect="force_shifted_by_mean_of_baseline"),
    dict(name="baseline pinned at its first point", file="preproc.py", old="        force_edit[:idp] -= out.best_fit - out.best_fit[-1]",
         new="        force_edit[:idp] -= out.best_fit - out.best_fit[0]", expect="baseline"),
    dict(name="segment flag inverted", file="preproc.py", old="        segment[idturn:] = 1", new="        segment[:idturn] = 1",
         expect="single_switch"),
    dict(name="approach region extended over time axis", file="preproc.py",
         old="        best_fit_approach = mod.eval(out.params, x=abscissa[:idturn])",
         new="        best_fit_approach = mod.eval(out.params, x=time_position[:idturn])", expect="approach"),
    dict(name="tip offset uses the wrong column", file="preproc.py", old='                             - apret["tip position"][cpid])',
         new='                             - apret["height (measured)"][cpid])', expect="correct_tip_offset"),
]


def unit_canaries(tier=None, seed=None):
    from ..selftest import run_canaries
    return run_canaries("C07", CANARIES)


def units(tier):
    us = [Unit("compute_tip_position", unit_tip_position), Unit("correct_force_offset", unit_force_offset),
          Unit("correct_tip_offset", unit_tip_offset), Unit("correct_force_slope", unit_force_slope),
          Unit("correct_split_approach_retract", unit_split), Unit("find_turning_point", unit_find_turning_point),
          Unit("smooth_height", unit_smooth_height), Unit("smooth_axis_monotone.exit_lemmas", unit_smoothing_lemmas),
          Unit("bounded.steps_on_curves", unit_bounded_steps)]
    # a step "does what its description says" for the option values of the request only if the request reaches it:
    # Indentation.apply_preprocessing hands exactly the requested steps and options to preproc.apply, which hands
    # every step its own options (contracts shared with C06)
    from . import indent_units as IU
    from . import c06
    us += [Unit("apply_preprocessing", IU.unit_apply_preprocessing, prop="C07"),
           Unit("preproc.apply", c06.unit_apply_options, prop="C07")]
    if tier == "thorough" and not os.environ.get("VF_NO_CANARIES") and str(REPO) == "/repo":
        us.append(Unit("selftest.canaries", unit_canaries))
    return us


def replay_file(path):
    import json
    d = json.load(open(path))

    class _O:
        model = d.get("model")
        oid = d.get("obligation")
        witness = d.get("witness", "")
    if "smooth_axis_monotone" in _O.oid:
        r = replay_smoothing(_O.model or {}, 4)
    else:
        r = replay_steps(_O)
    print(json.dumps(r, indent=1, default=str))
    return 1 if r.get("confirmed") else 0
