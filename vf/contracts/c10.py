"""C10  Arguments are taken by value: no mutation of, or aliasing to, caller objects.

Two clause kinds on every API function that takes a mutable argument:
  frame      nothing reachable from an argument is written to (array stores, in-place operators,
             list/dict mutation, Parameter.set, setflags on argument arrays);
  ownership  whatever is stored into the curve / fit properties / rating cache, and whatever is handed
             out from internal state, is a fresh object (so a later in-place edit by the caller cannot
             change stored settings behind the change detection, and is noticed when passed again).
Together with the by-value invariants of C03/C06 they give the statement's second sentence.
"""
from __future__ import annotations

import os

import z3

from ..core import REPO, UnitResult, BoundedResult
from ..unit import Unit
from ..engine.prove import Session
from ..engine import symex as sx
from ..engine import values as V
from ..engine.values import SInt
from . import fitter_units as FT
from . import indent_units as IU
from . import resid
from . import models as M
from . import fpstate as F
from . import c02, c06, c14

LEVEL = "proof"
EXPLANATION = ("Deductive: frame and ownership obligations on the real bodies of every API taking a mutable "
               "argument (symbolic arguments, mutation log and object identity tracked by the engine). Bounded: "
               "in-place edit scenarios on a recorded curve compared with fresh equal-valued objects.")


def unit_setitem_owns(tier=None, seed=None):
    """FitProperties.__setitem__ stores mutable settings by value"""
    S = Session("C10", "FitProperties.__setitem__", "nanite.fit:FitProperties.__setitem__")
    st = {}
    KEYS = ["params_initial", "preprocessing", "preprocessing_options", "range_x", "method_kws"]

    def setup(I):
        o, vals, pres, fpd, res = F.sym_fp(I, "old")
        ki = I.choose([z3.Int("key_index") == i for i in range(len(KEYS))])
        if ki >= len(KEYS):
            raise sx.PathAbort()
        key = KEYS[ki]
        new = F.sym_value(I, key, "new")
        if key == "method_kws":
            # further optimiser keywords may or may not be present in the caller's dictionary (current and legacy
            # lmfit / scipy names): nothing the caller handed over may be renamed, removed or added
            for kw in ("maxfev", "maxiter", "max_nfev", "ftol", "xtol", "tol", "options"):
                if kw not in new.obj.d:
                    new.obj.d[kw] = [z3.Bool(f"caller_gives_{kw}"), SInt(z3.Int(f"caller_{kw}"))]
            st["caller_kws"] = {kk: (e[0], e[1]) for kk, e in new.obj.d.items()}
        st.update(o=o, key=key, new=new)
        f, _ = o.cls.find("__setitem__")
        return sx.BoundMethod(o, f), [key, new.obj], {}

    def reach(obj):
        out = [obj]
        if isinstance(obj, sx.SDict):
            for e in obj.d.values():
                out += reach(e[1])
        elif isinstance(obj, list):
            for x in obj:
                if isinstance(x, (list, sx.SDict, sx.Obj)):
                    out += reach(x)
        elif isinstance(obj, sx.Obj) and obj.map is not None:
            out.append(obj.map)
            for e in obj.map.d.values():
                out += reach(e[1])
        return out

    def post(S, out):
        I = S.I
        key, new, o = st["key"], st["new"], st["o"]
        if out.kind != "return":
            S.fail("total", repr(out))
            return
        e = o.map.d.get(key)
        stored = e[1] if e is not None and e[0] is not False else None
        mine = {id(x) for x in reach(new.obj) if isinstance(x, (list, sx.SDict, sx.Obj))}
        theirs = {id(x) for x in reach(stored) if isinstance(x, (list, sx.SDict, sx.Obj))} if stored is not None else set()
        S.ensure(f"owns.{key}", not (mine & theirs), case={"key": key}, witness=key)
        S.ensure(f"frame.{key}", not any(id(m) in mine or (isinstance(m, tuple) and id(m[0]) in mine)
                                         for m in I.mutations), case={"key": key})
        if key == "method_kws":
            same = set(new.obj.d) == set(st["caller_kws"]) and all(
                F.same_presence(new.obj.d[kk][0], p0) and new.obj.d[kk][1] is v0 for kk, (p0, v0) in st["caller_kws"].items())
            S.ensure("frame.method_kws_entries", same, case={"key": key, "now": sorted(map(str, new.obj.d))})

    S.run(setup, post)
    return S.finish(replay=replay_c10)


def unit_getitem_by_value(tier=None, seed=None):
    """FitProperties.__getitem__ hands out mutable settings by value ("... or previously RETURNED object in place
    and passes it again ... the change is noticed": what is handed out must not be the stored object, nor the object
    of the module-level defaults)"""
    S = Session("C10", "FitProperties.__getitem__", "nanite.fit:FitProperties.__getitem__")
    st = {}
    KEYS = ["params_initial", "preprocessing", "preprocessing_options", "range_x", "method_kws"]

    def reach(obj):
        out = [obj]
        if isinstance(obj, sx.SDict):
            for e in obj.d.values():
                out += reach(e[1])
        elif isinstance(obj, list):
            for x in obj:
                if isinstance(x, (list, sx.SDict, sx.Obj)):
                    out += reach(x)
        elif isinstance(obj, sx.Obj) and obj.map is not None:
            out.append(obj.map)
            for e in obj.map.d.values():
                out += reach(e[1])
        return out

    def setup(I):
        o, vals, pres, fpd, res = F.sym_fp(I, "old")
        ki = I.choose([z3.Int("key_index") == i for i in range(len(KEYS))])
        if ki >= len(KEYS):
            raise sx.PathAbort()
        key = KEYS[ki]
        st.update(o=o, key=key, vals=vals)
        return sx.Builtin("read_item", lambda I: I.getitem(o, key)), [], {}

    def post(S, out):
        I = S.I
        key, o = st["key"], st["o"]
        e = o.map.d.get(key)
        if out.kind != "return":
            # a missing key raises KeyError like any dictionary
            S.ensure("missing_key_raises_KeyError", out.raises("KeyError"), case={"key": key})
            return
        stored = e[1] if e is not None and e[0] is not False else None
        rv = out.value
        mine = {id(x) for x in reach(rv) if isinstance(x, (list, sx.SDict, sx.Obj))}
        theirs = {id(x) for x in reach(stored) if isinstance(x, (list, sx.SDict, sx.Obj))} if stored is not None else set()
        S.ensure(f"hands_out_a_copy.{key}", not (mine & theirs), case={"key": key}, witness=key)
        from .c03 import val_eq
        eq = val_eq(I, rv, st["vals"][key].obj)
        S.ensure(f"hands_out_the_stored_value.{key}", eq if isinstance(eq, bool) else V.bterm(eq), case={"key": key})
        S.ensure(f"reading_changes_nothing.{key}", not any(id(m) in theirs or (isinstance(m, tuple) and id(m[0]) in theirs)
                                                           for m in I.mutations), case={"key": key})

    S.run(setup, post)
    return S.finish(replay=replay_c10)


def replay_c10(ob):
    import copy
    import numpy as np
    oid = ob.oid
    if "frame.method_kws" in oid:
        from nanite.fit import FitProperties
        for kws in ({"maxfev": 40}, {"maxiter": 5}, {"max_nfev": 7, "maxfev": 3}, {"ftol": 1e-3}, {"xtol": 1e-4, "tol": 1},
                    {"options": {"maxiter": 3}}):
            mine = copy.deepcopy(kws)
            fp = FitProperties()
            try:
                fp["method_kws"] = mine
            except BaseException:
                pass
            if mine != kws:
                return {"confirmed": True, "input": {"method_kws": kws}, "observed": {"caller's dict afterwards": mine},
                        "required": "unchanged"}
        return {"confirmed": False}
    if "FitProperties.__getitem__.hands_out_a_copy" in oid:
        key = oid.rsplit(".", 1)[-1]
        P = ["compute_tip_position", "correct_force_offset", "correct_tip_offset"]
        import nanite.fit as nf
        cur = IU._curve()
        cur.fit_model(preprocessing=P, model_key="hertz_para")
        got = cur.fit_properties[key]
        before = copy.deepcopy(got)
        # the caller edits what it was handed out ...
        if key == "params_initial":
            got["E"].set(value=50000, vary=False)
        elif key == "range_x":
            got[0] = -1e-6
        elif key == "preprocessing":
            got.append("correct_force_slope")
        elif key == "preprocessing_options":
            got["correct_tip_offset"] = {"method": "fit_constant_line"}
        else:
            got["max_nfev"] = 3
        again = cur.fit_properties[key]
        changed = (again != before) if key != "params_initial" else (again["E"].value != before["E"].value)
        default_hit = key in ("range_x", "method_kws", "preprocessing", "preprocessing_options") \
            and nf.FP_DEFAULT[key] not in ([], {}, [0, 0])
        return {"confirmed": bool(changed or default_hit),
                "input": f"fit_properties[{key!r}] edited in place by the caller after a fit",
                "observed": {"stored setting changed without a reset": bool(changed),
                             "module default now": repr(nf.FP_DEFAULT.get(key))[:80]},
                "required": "the stored settings (and the module defaults) are not reachable through what is handed out"}
    if "FitProperties.__setitem__.owns" in oid:
        key = oid.rsplit(".", 1)[-1]
        P = ["compute_tip_position", "correct_force_offset", "correct_tip_offset"]
        cur = IU._curve()
        if key == "params_initial":
            cur.apply_preprocessing(P)
            p = copy.deepcopy(cur.get_initial_fit_parameters(model_key="hertz_para"))
            cur.fit_model(model_key="hertz_para", params_initial=p)
            e0 = cur.fit_properties["params_fitted"]["E"].value
            p["R"].value = p["R"].value * 4
            cur.fit_model(params_initial=p)
            e1 = cur.fit_properties["params_fitted"]["E"].value
            fresh = IU._curve()
            fresh.apply_preprocessing(P)
            fresh.fit_model(model_key="hertz_para", params_initial=copy.deepcopy(p))
            e2 = fresh.fit_properties["params_fitted"]["E"].value
            return {"confirmed": e1 != e2, "input": "params_initial['R'] edited in place, same object passed again",
                    "observed": {"E after": e1, "E for a fresh equal-valued object": e2, "E before": e0},
                    "required": "equal"}
        if key in ("range_x", "method_kws"):
            P = ["compute_tip_position"]
            cur.apply_preprocessing(P)
            if key == "range_x":
                rx = [1.76e-5, 1.9e-5]
                cur.fit_model(model_key="hertz_para", range_x=rx)
                rx[0] = 1.85e-5
                cur.fit_model(range_x=rx)
                fresh = IU._curve()
                fresh.apply_preprocessing(P)
                fresh.fit_model(model_key="hertz_para", range_x=list(rx))
                a, b = cur.fit_properties["xmin"], fresh.fit_properties["xmin"]
                return {"confirmed": a != b, "input": "range_x list edited in place and passed again",
                        "observed": {"xmin": a, "fresh": b}, "required": "equal"}
            kws = {}
            cur.fit_model(model_key="hertz_para", method_kws=kws)
            h0 = cur.fit_properties["hash"]
            kws["max_nfev"] = 2
            cur.fit_model(method_kws=kws)
            fresh = IU._curve()
            fresh.apply_preprocessing(P)
            fresh.fit_model(model_key="hertz_para", method_kws=dict(kws))
            a, b = cur.fit_properties["params_fitted"]["E"].value, fresh.fit_properties["params_fitted"]["E"].value
            return {"confirmed": a != b, "input": "method_kws dict edited in place and passed again",
                    "observed": {"E": a, "fresh": b}, "required": "equal"}
        class O2:
            oid = "C10.apply_preprocessing.owns.fit_properties." + key
            model = None
        return IU.replay(O2)
    if "_fit" in oid or ".fit." in oid:
        return FT.replay_fitter(ob)
    return IU.replay(ob)


def unit_bounded_inplace(tier=None, seed=0):
    """in-place edit between two calls == fresh equal-valued object (native, recorded curve)"""
    import time
    import warnings
    t0 = time.time()
    warnings.simplefilter("ignore")
    scen = ["C10.FitProperties.__setitem__.owns.params_initial", "C10.FitProperties.__setitem__.owns.range_x",
            "C10.FitProperties.__setitem__.owns.method_kws", "C10.apply_preprocessing.owns.fit_properties.preprocessing",
            "C10.apply_preprocessing.owns.fit_properties.preprocessing_options", "C10.rate_quality.owns.rating_names",
            "C10.get_initial_fit_parameters.result_fresh", "C10._fit.frame.params_initial_unchanged"]
    bad, ne = None, 0
    for s in scen:
        class O:
            oid = s
            model = None
            witness = ""
        r = replay_c10(O)
        ne += 1
        if r.get("confirmed"):
            bad = {"scenario": s, **r}
            break
    if bad is None:
        # an in-memory training set handed to the rater is not modified -- whatever estimator pipeline is behind the
        # regressor (tree ensembles and the scaled support-vector regressors)
        import numpy as np
        from nanite.rate import IndentationRater
        cur = IU._curve()
        cur.fit_model(preprocessing=["compute_tip_position", "correct_force_offset", "correct_tip_offset"],
                      model_key="hertz_para")
        X0, y0 = IndentationRater.load_training_set()
        for reg_ in ("Extra Trees", "SVR (RBF kernel)", "SVR (linear kernel)"):
            X, y = np.array(X0, dtype=float), np.array(y0, dtype=float)
            cur.rate_quality(regressor=reg_, training_set=(X, y))
            ne += 1
            if not (np.array_equal(X, np.array(X0, dtype=float), equal_nan=True) and np.array_equal(y, y0)):
                bad = {"scenario": "C10.rate_quality.frame.training_set", "input": f"in-memory training set, regressor {reg_}",
                       "observed": f"caller's X changed by up to {float(np.nanmax(np.abs(X - np.array(X0, dtype=float)))):.3g}",
                       "required": "unchanged"}
                break
    res = UnitResult(unit="bounded.inplace_edits")
    res.bounded.append(BoundedResult(
        bid="C10.bounded.inplace_edit_equals_fresh_object", ok=bad is None, evaluations=ne, distinct=ne,
        bound=f"{len(scen)} in-place-edit scenarios (initial parameters, range list, method kwargs, step list, "
              "option dict, feature names, returned parameters, gcf_k fits) on a recorded curve",
        detail="every in-place edit is noticed; nothing handed in is modified" if bad is None else str(bad)[:400],
        samples=[{"scenario": scen[0]}], failing_input=bad,
        witness="" if bad is None else bad["scenario"].split(".", 1)[1], time_s=round(time.time() - t0, 2)))
    return res


CANARIES = [
    dict(name="deep copy of step options dropped", file="preproc.py", old="kwargs = copy.deepcopy(options.get(pid, {}))",
         new="kwargs = options.get(pid, {})", expect="preproc.apply"),
    dict(name="weights computed in place on delta", file="model/residuals.py", old="x = np.abs(delta-cp)",
         new="x = delta\n    x -= cp\n    x = np.abs(x)", expect="frame.delta"),
    dict(name="autosort sorts the caller's list", file="preproc.py", old="sorted_identifiers = copy.copy(identifiers)",
         new="sorted_identifiers = identifiers", expect="autosort"),
    dict(name="clip works on the caller's force array", file="poc.py", old="    fg0 = np.array(force, copy=True)",
         new="    fg0 = force\n    fg0 -= 0", expect="C10"),
]


def unit_canaries(tier=None, seed=None):
    from ..selftest import run_canaries
    return run_canaries("C10", CANARIES)


def units(tier):
    us = [Unit("FitProperties.__setitem__", unit_setitem_owns), Unit("FitProperties.__getitem__", unit_getitem_by_value)]
    us += FT.units_for("C10") + IU.units_for("C10")
    us += [Unit("residual", resid.unit_residual, prop="C10"), Unit("weights", resid.unit_weights, prop="C10"),
           Unit("model_direction_agnostic", resid.unit_mda, prop="C10", which="mda"),
           Unit("default_residuals_wrapper", resid.unit_mda, prop="C10", which="residuals_wrapper"),
           Unit("preproc.apply", c06.unit_apply_options, prop="C10")]
    us += [Unit(f"model.{k}", c02.unit_model, key=k, prop="C10") for k in M.MODELS]
    us += [Unit(f"autosort.n{n}", c14.unit_autosort, n=n, prop="C10") for n in (3, 4)]
    us.append(Unit("bounded.inplace_edits", unit_bounded_inplace))
    if tier == "thorough" and not os.environ.get("VF_NO_CANARIES") and str(REPO) == "/repo":
        us.append(Unit("selftest.canaries", unit_canaries))
    return us


def replay_file(path):
    import json
    d = json.load(open(path))

    class _O:
        model = d.get("model")
        oid = d.get("obligation")
        witness = d.get("witness", "")
    r = replay_c10(_O)
    print(json.dumps(r, indent=1, default=str))
    return 1 if r.get("confirmed") else 0
