"""C09  Quality rating is total, deterministic, in range, and tied to the current fit.

  Indentation.rate_quality     case postcondition over every curve state / argument combination:
        pseudo-regressor 'none' (any case) -> -1 and no rater; cache hit iff hash, regressor, training
        set, feature names and LDA flag all equal -> cached value, no rater; otherwise one rater with
        exactly the given arguments, its value returned and cached under the full key (current hash
        or 'none'); fit properties untouched; NEVER raises.
  IndentationRater.rate        per curve: a failed binary criterion -> 0; else an undefined continuous
        feature -> -1; else the pipeline's prediction (features and pipeline uninterpreted).
  feature predicates / guards  total for every state of the fit properties (C17 shares them).
  apply_preprocessing          resets the rating when the pipeline changes.
  regressors                   every shipped estimator that takes random_state gets a constant one.
  training responses           all shipped ratings are integers in 0..10 (range of averaging trees).
Bounded: reachable curve states x regressors x training sets x feature subsets on a recorded curve.
"""
from __future__ import annotations

import os

import z3

from ..core import REPO, UnitResult, BoundedResult, ObResult, DISCHARGED, REFUTED
from ..unit import Unit
from ..engine.prove import Session
from ..engine import symex as sx
from ..engine import values as V
from ..engine.values import SAtom, SReal, SBool, SInt
from ..engine.arrays import SArray
from . import indent_units as IU
from . import feat_units as FU

LEVEL = "other"
EXPLANATION = ("Deductive: rate_quality's case postcondition and totality, the per-curve decision of "
               "IndentationRater.rate, totality of the feature predicates and guards, rating reset on pipeline "
               "change. Syntactic/data obligations: fixed random_state, shipped responses in 0..10. The numeric "
               "prediction itself (scikit-learn) is assumed deterministic and range-preserving; bounded runs "
               "exercise it on a recorded curve.")


def unit_rate(tier=None, seed=None):
    S = Session("C09", "IndentationRater.rate", "nanite.rate.rater:IndentationRater.rate")
    st = {}

    def setup(I):
        cls = I.lookup_qual("nanite.rate.rater:IndentationRater")
        rater = sx.Obj(cls)
        rater.attrs["names"] = ["feat_bin_a", "feat_bin_b", "feat_con_a", "feat_con_b"]
        b = [SReal(z3.Real(f"bin{i}"), z3.Bool(f"bin{i}_isnan")) for i in range(2)]
        c = [SReal(z3.Real(f"con{i}"), z3.Bool(f"con{i}_isnan")) for i in range(2)]
        for x in b:
            I.assume(z3.Or(x.term == 0, x.term == 1))
        pred = SReal(z3.Real("prediction"))
        calls = []

        def compute_features(I, fv, args, kwargs):
            calls.append(kwargs)
            wt = kwargs.get("which_type")
            vals = b if wt == "binary" else c
            return SArray(2, lambda i, vals=vals: V_ite(i, vals), "real")
        I.contracts["nanite.rate.features:IndentationFeatures.compute_features"] = compute_features
        pipe = sx.Obj(sx.ClassVal("Pipeline", [sx.OBJECT], {}))
        seen = []

        def predict(I, self, X):
            seen.append(X)
            return SArray(1, lambda i: pred, "real")
        pipe.cls.ns["predict"] = sx.Builtin("predict", predict)
        rater.attrs["pipeline"] = pipe
        idnt = sx.Opaque("curve")
        st.update(b=b, c=c, pred=pred, calls=calls, seen=seen, idnt=idnt)
        S.names.update({f"bin{i}": b[i].term for i in range(2)})
        S.names.update({f"bin{i}_isnan": b[i].nan for i in range(2)})
        S.names.update({f"con{i}_isnan": c[i].nan for i in range(2)})
        f, _ = cls.find("rate")
        return sx.BoundMethod(rater, f), [], dict(datasets=idnt)

    def V_ite(i, vals):
        from ..engine.arrays import ite_val
        return ite_val(i == 0, vals[0], vals[1])

    def post(S, out):
        I = S.I
        if out.kind != "return" or not isinstance(out.value, SArray):
            S.fail("returns_one_rating_per_curve", repr(out))
            return
        res = out.value
        S.ensure("returns_one_rating_per_curve", V.iterm(res.length) == 1)
        r = res.at(z3.IntVal(0))
        b, c, pred = st["b"], st["c"], st["pred"]
        failed = z3.Or(*[z3.And(z3.Not(x.nan), x.term == 0) for x in b])
        undefined = z3.Or(*[x.nan for x in c])
        rt = V.rterm(r)
        S.ensure("failed_binary_criterion_gives_0", z3.Implies(failed, rt == 0))
        S.ensure("undefined_feature_gives_minus_1", z3.Implies(z3.And(z3.Not(failed), undefined), rt == -1))
        S.ensure("otherwise_the_prediction", z3.Implies(z3.And(z3.Not(failed), z3.Not(undefined)), rt == pred.term))
        S.ensure("features_of_this_curve_with_the_raters_names",
                 all(k.get("idnt") is st["idnt"] and k.get("names") == ["feat_bin_a", "feat_bin_b", "feat_con_a", "feat_con_b"]
                     for k in st["calls"]) and len(st["calls"]) == 2)

    S.run(setup, post)
    return S.finish()


def unit_get_rater(tier=None, seed=None):
    """get_rater: shipped hyper-parameters are never modified (they are what makes ratings
    reproducible), overrides apply to this rater only, arguments reach the rater unchanged"""
    S = Session("C09", "get_rater", "nanite.rate.rater:get_rater")
    st = {}

    def snapshot(reg):
        return {k: (e[1][0], {kk: ee[1] for kk, ee in e[1][1].d.items()}) for k, e in reg.d.items()}

    def setup(I):
        mod = I.module("nanite.rate.rater")
        regmod = I.module("nanite.rate.regressors")
        reg = regmod.env.vars["reg_dict"]
        names = sorted(reg.d)
        ri = I.choose([z3.Int("regressor_choice") == i for i in range(len(names) + 1)])
        if ri > len(names):
            raise sx.PathAbort()
        regname = names[ri] if ri < len(names) else "No Such Regressor"
        built = []

        def mk_ctor(libname):
            def ctor(I, **kw):
                o = sx.Obj(sx.ClassVal(libname, [sx.OBJECT], {}))
                o.attrs["kwargs"] = dict(kw)
                built.append(o)
                return o
            return ctor
        for k, e in reg.d.items():
            I.lib[e[1][0].name] = mk_ctor(e[1][0].name)
        override = I.fork(z3.Bool("passes_hyperparameter_overrides"))
        ov = {"n_estimators": SInt(z3.Int("ov_n_estimators")), "max_depth": SInt(z3.Int("ov_max_depth"))} \
            if override else {}
        in_memory = I.fork(z3.Bool("training_set_in_memory"))
        loaded = []
        cls = mod.env.vars["IndentationRater"]
        raters = []
        cls.ns["__init__"] = sx.Builtin("IndentationRater.__init__",
                                        lambda I, self, **kw: raters.append(kw))
        cls.ns["get_training_set_path"] = sx.Builtin("gtsp", lambda I, label="zef18": ("path-of", label))
        cls.ns["get_training_set_path"].is_static = True

        def load_ts(I, path=None, names=None, **kw):
            loaded.append((path, names))
            return [sx.Opaque("X"), sx.Opaque("y")]
        cls.ns["load_training_set"] = sx.Builtin("lts", load_ts)
        I.contracts["nanite.rate.rater:get_available_training_sets"] = lambda I, fv, a, k: ["zef18"]
        ts = (sx.Opaque("Xmem"), sx.Opaque("ymem")) if in_memory else "zef18"
        fnames = None if I.fork(z3.Bool("names_None")) else ["feat_con_apr_sum"]
        lda = SBool(z3.Bool("lda"))
        st.update(reg=reg, snap=snapshot(reg), regname=regname, built=built, ov=ov, ts=ts, names=fnames, lda=lda,
                  raters=raters, loaded=loaded, in_memory=in_memory)
        return mod.env.vars["get_rater"], [], dict(regressor=regname, training_set=ts, names=fnames, lda=lda, **ov)

    def post(S, out):
        I = S.I
        case = {"regressor": st["regname"], "overrides": sorted(st["ov"]), "outcome": repr(out)}
        S.ensure("shipped_hyperparameters_never_modified", snapshot(st["reg"]) == st["snap"], case=case,
                 witness="reg_dict")
        if st["regname"] == "No Such Regressor":
            S.ensure("unknown_regressor_rejected", out.raises("ValueError"), case=case)
            return
        if out.kind != "return":
            S.fail("returns_a_rater", repr(out), case=case)
            return
        S.ok("returns_a_rater")
        want = dict(st["snap"][st["regname"]][1])
        want.update(st["ov"])
        S.ensure("estimator_gets_defaults_plus_overrides",
                 len(st["built"]) == 1 and st["built"][0].attrs["kwargs"] == want, case=case)
        r = st["raters"][0] if len(st["raters"]) == 1 else {}
        # (names / lda by value: handing the rater a copy is as good as the object itself)
        S.ensure("rater_gets_the_arguments", r.get("regressor") is (st["built"][0] if st["built"] else None)
                 and I.truth(I.equals(r.get("names"), st["names"])) and I.truth(I.equals(r.get("lda"), st["lda"])),
                 case=case)
        if st["in_memory"]:
            S.ensure("in_memory_training_set_used_as_given", r.get("training_set") is st["ts"] and not st["loaded"],
                     case=case)
        else:
            S.ensure("label_resolved_and_loaded_with_the_names",
                     len(st["loaded"]) == 1 and st["loaded"][0][0] == ("path-of", "zef18")
                     and I.truth(I.equals(st["loaded"][0][1], st["names"])), case=case)

    S.run(setup, post)
    return S.finish(replay=replay_get_rater)


def unit_get_rater_twice(tier=None, seed=None):
    """"identical across repeated calls, fresh objects and processes ... a cached value is returned only while ...
    training set ... unchanged": a training set given by NAME (label or folder) is files on disk; a rater built for
    it must be trained on what the files hold when it is built.  Two get_rater calls with equal arguments, the files
    rewritten in between (the loader contract returns different arrays): the second rater is trained on the second
    content."""
    S = Session("C09", "get_rater.twice", "nanite.rate.rater:get_rater")
    st = {}

    def setup(I):
        mod = I.module("nanite.rate.rater")
        regmod = I.module("nanite.rate.regressors")
        reg = regmod.env.vars["reg_dict"]
        for k, e in reg.d.items():
            I.lib[e[1][0].name] = (lambda I, **kw: sx.Obj(sx.ClassVal("Estimator", [sx.OBJECT], {})))
        cls = mod.env.vars["IndentationRater"]
        raters, loaded = [], []
        cls.ns["__init__"] = sx.Builtin("IndentationRater.__init__", lambda I, self, **kw: raters.append(kw))
        cls.ns["get_training_set_path"] = sx.Builtin("gtsp", lambda I, label="zef18": ("path-of", label))
        cls.ns["get_training_set_path"].is_static = True

        def load_ts(I, path=None, names=None, **kw):
            content = [sx.Opaque(f"X as on disk at load {len(loaded)}"), sx.Opaque(f"y as on disk at load {len(loaded)}")]
            loaded.append(content)
            return content
        cls.ns["load_training_set"] = sx.Builtin("lts", load_ts)
        I.contracts["nanite.rate.rater:get_available_training_sets"] = lambda I, fv, a, k: ["zef18"]
        names = None if I.fork(z3.Bool("names_None")) else ["feat_con_apr_sum"]
        fn = mod.env.vars["get_rater"]
        st.update(raters=raters, loaded=loaded)

        def driver(I):
            kw = dict(regressor="Extra Trees", training_set="zef18", names=names, lda=None)
            I.call(fn, [], dict(kw))
            st["raters_after_first"] = len(raters)
            # ... the training set on disk is rewritten here ...
            I.call(fn, [], dict(kw, names=None if names is None else list(names)))
        return sx.Builtin("two_calls", driver), [], {}

    def post(S, out):
        if out.kind != "return":
            S.fail("returns", repr(out))
            return
        S.ok("returns")
        raters, loaded = st["raters"], st["loaded"]
        second = raters[st["raters_after_first"]:] if len(raters) > st["raters_after_first"] else []
        ok = bool(second) and len(loaded) >= 2 and isinstance(second[-1].get("training_set"), (list, tuple)) \
            and all(a is b for a, b in zip(second[-1]["training_set"], loaded[-1]))
        S.ensure("second_rater_trained_on_the_training_set_as_it_is_now", ok,
                 case={"raters_built": len(raters), "training_set_loads": len(loaded)}, witness="stale_rater")

    S.run(setup, post)
    return S.finish(replay=replay_get_rater)


def replay_get_rater(ob):
    import copy
    from nanite.rate import rater as nr
    from nanite.rate.regressors import reg_dict
    before = copy.deepcopy({k: v[1] for k, v in reg_dict.items()})
    r0 = nr.get_rater("Extra Trees")
    curve = IU._curve()
    curve.fit_model(preprocessing=["compute_tip_position", "correct_force_offset", "correct_tip_offset"],
                    model_key="hertz_para")
    a = r0.rate(datasets=curve)[0]
    nr.get_rater("Extra Trees", n_estimators=3, max_depth=2)
    after = {k: v[1] for k, v in reg_dict.items()}
    b = nr.get_rater("Extra Trees").rate(datasets=curve)[0]
    changed = after != before
    for k in reg_dict:        # restore for the rest of this process
        reg_dict[k][1].clear()
        reg_dict[k][1].update(before[k])
    return {"confirmed": bool(changed or a != b), "input": "get_rater('Extra Trees', n_estimators=3, max_depth=2), "
            "then the default rater again", "observed": {"defaults changed": changed, "rating before": float(a),
                                                         "rating after": float(b)},
            "required": "defaults untouched, equal ratings"}


def unit_regressors(tier=None, seed=None):
    import inspect
    res = UnitResult(unit="regressors_fixed_random_state")
    from nanite.rate.regressors import reg_dict
    bad = []
    for name, (cls, kw) in reg_dict.items():
        if "random_state" in inspect.signature(cls.__init__).parameters:
            if not isinstance(kw.get("random_state"), int):
                bad.append(name)
    res.obligations.append(ObResult(
        oid="C09.regressors.random_state_fixed", status=DISCHARGED if not bad else REFUTED, backend="eval",
        paths=len(reg_dict), detail=f"{len(reg_dict)} shipped regressors inspected" if not bad
        else f"no constant random_state for {bad}", model={"regressors": bad} if bad else None,
        replay={"confirmed": bool(bad)}))
    import numpy as np
    from nanite.rate.rater import IndentationRater
    y = np.loadtxt(str(IndentationRater.get_training_set_path() / "train_response.txt"))
    ok = bool(np.all(y == np.round(y)) and y.min() >= 0 and y.max() <= 10)
    res.obligations.append(ObResult(
        oid="C09.training_set.responses_are_integers_in_0_10", status=DISCHARGED if ok else REFUTED, backend="eval",
        paths=int(y.size), detail=f"{y.size} shipped responses, min {y.min()}, max {y.max()}",
        replay={"confirmed": not ok}))
    res.trusted.append("libmodel:scikit-learn (averaging tree ensembles predict within [min y, max y]; a fixed "
                       "random_state makes fit/predict deterministic)")
    return res


def unit_bounded_states(tier=None, seed=0):
    import time
    import warnings
    import tempfile
    import shutil
    import numpy as np
    import nanite
    from nanite.rate import rater as nrater
    t0 = time.time()
    warnings.simplefilter("ignore")
    P = ["compute_tip_position", "correct_force_offset", "correct_tip_offset"]

    def mk(state):
        i = IU._curve()
        if state == "fresh":
            return i
        i.apply_preprocessing(P)
        if state == "preprocessed":
            return i
        if state == "unsuccessful":
            i.fit_model(model_key="hertz_para", range_x=(1e-3, 1.1e-3))
            return i
        i.fit_model(model_key="hertz_para", range_x=(0, 0))
        if state == "edited":
            i.fit_properties["weight_cp"] = 3e-7
        if state == "refit":
            i.fit_model(weight_cp=2e-6)
        return i
    states = ["fresh", "preprocessed", "fitted", "edited", "unsuccessful", "refit"]
    regs = ["Extra Trees", "none", "NONE", "Decision Tree", "Random Forest"] if tier == "quick" else \
        ["none", "None"] + list(nrater.reg_names)
    tree = {"Extra Trees", "Decision Tree", "Random Forest", "AdaBoost", "Gradient Tree Boosting"}
    tmp = tempfile.mkdtemp(prefix="vf-c09-")
    problems, ne, samples = [], 0, []
    try:
        tsdir = os.path.join(tmp, "ts_copy")
        shutil.copytree(str(nrater.IndentationRater.get_training_set_path()), tsdir)
        X, y = nrater.IndentationRater.load_training_set()
        sets = [("label", "zef18"), ("directory", tsdir), ("in-memory", (X, y))]
        names_opts = [None, ["feat_con_apr_flatness", "feat_con_apr_sum", "feat_bin_size"]]
        for state in states:
            for reg in regs:
                for ts_label, ts in (sets if (tier != "quick" or reg == "Extra Trees") else sets[:1]):
                    for names in (names_opts if reg == "Extra Trees" else names_opts[:1]):
                        if ts_label == "in-memory" and names is not None:
                            continue
                        case = {"state": state, "regressor": reg, "training_set": ts_label, "names": names}
                        ne += 1
                        try:
                            i1 = mk(state)
                            r1 = i1.rate_quality(regressor=reg, training_set=ts, names=names)
                            r1b = i1.rate_quality(regressor=reg, training_set=ts, names=names)
                            i2 = mk(state)
                            r2 = i2.rate_quality(regressor=reg, training_set=ts, names=names)
                        except BaseException as exc:
                            problems.append({**case, "what": f"raised {exc!r}"[:160]})
                            break
                        if not (r1 == r1b == r2):
                            problems.append({**case, "what": f"not reproducible: {r1}, {r1b}, {r2}"})
                        ok_state = state in ("fitted", "refit")
                        if reg.lower() == "none" and r1 != -1:
                            problems.append({**case, "what": f"'none' gave {r1}"})
                        elif reg.lower() != "none" and not ok_state and r1 not in (-1, 0):
                            problems.append({**case, "what": f"no successful current fit but rating {r1}"})
                        elif reg in tree and ok_state and not (0 <= r1 <= 10):
                            problems.append({**case, "what": f"rating {r1} outside [0, 10]"})
                        if reg.lower() != "none" and ok_state and ts_label != "in-memory":
                            ref = nrater.get_rater(regressor=reg, training_set=ts, names=names).rate(datasets=i2)[0]
                            if ref != r1:
                                problems.append({**case, "what": f"differs from the standalone rater: {r1} vs {ref}"})
                        if len(samples) < 4:
                            samples.append({**case, "rating": float(r1)})
                    if problems:
                        break
                if problems:
                    break
            if problems:
                break
        # user training sets whose responses contain the "not rated" value -1 (the rating GUI exports it): the
        # prediction of the averaging tree regressors still lies in [0, 10]
        if not problems:
            rng = np.random.default_rng(seed or 5)
            # 40 look-alikes of the curve that is rated (so that they dominate its leaves), labelled -1
            fc = np.array(nrater.IndentationRater.compute_features(mk("fitted"), which_type="continuous"), dtype=float)
            look = np.nan_to_num(fc)[None, :] * (1 + 1e-3 * rng.standard_normal((40, fc.size)))
            X2 = np.concatenate([X, look])
            y2 = np.concatenate([y, -np.ones(40)])
            for reg in ("Extra Trees", "Random Forest", "Decision Tree"):
                ne += 1
                case = {"state": "fitted", "regressor": reg, "training_set": "in-memory with 40 unrated (-1) samples",
                        "names": None}
                try:
                    r = mk("fitted").rate_quality(regressor=reg, training_set=(X2, y2))
                except BaseException as exc:
                    problems.append({**case, "what": f"raised {exc!r}"[:160]})
                    break
                if not (0 <= r <= 10):
                    problems.append({**case, "what": f"rating {r} outside [0, 10]"})
                    break
    finally:
        shutil.rmtree(tmp, ignore_errors=True)
    res = UnitResult(unit="bounded.curve_states")
    res.bounded.append(BoundedResult(
        bid="C09.bounded.states_x_regressors_x_training_sets", ok=not problems, evaluations=ne, distinct=ne,
        bound=f"{len(states)} curve states x {len(regs)} regressor names x 3 kinds of training set x 2 feature "
              "selections on one recorded curve; repeated call, fresh object and standalone rater compared",
        detail="never raised; values reproducible, in range and equal to the standalone rater"
        if not problems else str(problems[0])[:400], samples=samples,
        failing_input=problems[0] if problems else None,
        witness="" if not problems else (problems[0]["state"] + ":" + problems[0]["training_set"]),
        time_s=round(time.time() - t0, 2)))
    return res


CANARIES = [
    dict(name="rating not reset on preprocessing change", file="indent.py",
         old="            # Reset rating\n            self._rating = None\n", new="", expect="rating"),
    dict(name="lda missing from the cache key", file="indent.py", old="              self._rating[3] != names or\n              self._rating[4] != lda):",
         new="              self._rating[3] != names):", expect="cached_value_only_while_key_unchanged"),
    dict(name="failed binary criterion gives -1", file="rate/rater.py", old="                gd = 0\n", new="                gd = -1\n",
         expect="failed_binary_criterion_gives_0"),
    dict(name="random_state removed", file="rate/regressors.py",
         old='         "n_estimators": 100,\n         "random_state": 42,\n         }\n    ],\n    "Gradient Tree Boosting"',
         new='         "n_estimators": 100,\n         }\n    ],\n    "Gradient Tree Boosting"', expect="random_state_fixed"),
    dict(name="'none' compared case-sensitively", file="indent.py", old='        if regressor.lower() == "none":',
         new='        if regressor == "none":', expect="pseudo_regressor_none"),
    dict(name="cache ignores the fit hash", file="indent.py", old="              self._rating[0] != curhash or\n", new="",
         expect="cached_value_only_while_key_unchanged"),
]


def unit_canaries(tier=None, seed=None):
    from ..selftest import run_canaries
    return run_canaries("C09", CANARIES)


def units(tier):
    us = IU.units_for("C09") + [Unit("IndentationRater.rate", unit_rate), Unit("get_rater", unit_get_rater),
                                Unit("get_rater.twice", unit_get_rater_twice),
                                Unit("feature_predicates", FU.unit_predicates, prop="C09"),
                                Unit("regressors_fixed_random_state", unit_regressors),
                                Unit("bounded.curve_states", unit_bounded_states)]
    # "equals what the standalone rater computes from the curve's features": the rater, the training-set loader and
    # compute_features agree on the column order through get_feature_names (contract shared with C17)
    from . import c17
    us.append(Unit("get_feature_names", c17.unit_feature_names, prop="C09"))
    if tier == "thorough" and not os.environ.get("VF_NO_CANARIES") and str(REPO) == "/repo":
        us.append(Unit("selftest.canaries", unit_canaries))
    return us


def replay_file(path):
    import json
    d = json.load(open(path))

    class _O:
        model = d.get("model")
        oid = d.get("obligation")
        witness = d.get("witness", "")
    r = FU.replay_predicates(_O) if "feature" in _O.oid else (
        replay_get_rater(_O) if ".get_rater." in _O.oid else IU.replay(_O))
    print(json.dumps(r, indent=1, default=str))
    return 1 if r.get("confirmed") else 0
