"""C19  CLI profile persists what was entered and every producible profile can be fitted.

  Profile (real bodies, the file is a finite map with symbolic presence per key; json assumed to
  round-trip JSON values):
      __setitem__(k, v)     file' = file[k -> v]; a 'fit param ...' key must end in value|vary, else
                            ValueError and file' = file;
      __getitem__(k)        returns file[k] if stored, else the default, and writes it through; no other
                            key changes;
      Profile(path)         adds the missing defaults and changes no stored value (so later reads from any
                            new object return what was written);
      get/set_fit_params    result = the model's defaults overridden by exactly the stored value/vary entries;
      statelessness         a Profile object keeps no state besides its path (frame on self) -- this is what
                            makes the clauses compose over every sequence of set/get calls on any number of
                            objects.
  Bounded: legacy key=value files vs their JSON form, the interactive setup with scripted answers (stored =
  answered; the batch fit accepts the produced profile), statistics.tsv rows of fit_perform.
"""
from __future__ import annotations

import os

import z3

from ..core import REPO, UnitResult, BoundedResult
from ..unit import Unit
from ..engine.prove import Session
from ..engine import symex as sx
from ..engine import values as V
from ..engine.values import SAtom, SReal, SBool, SInt
from ..engine.lmfit_model import sym_parameters

LEVEL = "other"
EXPLANATION = ("Deductive: map contracts and statelessness of cli.profile.Profile on the real bodies for every "
               "file content and key. Bounded: legacy parsing, the 18-prompt interactive dialogue (symbolic paths "
               "explode without state merging) with scripted answers, and the statistics file of the batch fit.")
MOD = "nanite.cli.profile"
PN = ["E", "R"]


class FileModel:
    """ghost model of the profile file"""

    def __init__(self, kind, data=None):
        self.kind, self.data = kind, data     # "json" (SDict) | "empty"
        self.writes = 0


def _setup_module(I, st, file_kind="json", symbolic=True, defaults_present=False):
    st.pop("dumps_kw", None)
    I.lib["appdirs.user_config_dir"] = lambda I, **k: SAtom(z3.Int("config_dir"))
    I.lib["argparse.ArgumentParser"] = lambda I, **k: sx.Opaque("parser")
    I.lib["pathlib.Path"] = lambda I, p: p if isinstance(p, sx.Obj) else sx.LibRef("some.path")
    mod = I.module(MOD)
    defaults = mod.env.vars["DEFAULTS"]
    keys = list(defaults.d)
    data = sx.SDict()
    vals = {}
    if file_kind == "json":
        for k in keys + [f"fit param {p} {w}" for p in PN for w in ("value", "vary")] + ["unrelated key"]:
            if k.endswith("vary"):
                v = SBool(z3.Bool("file_" + k.replace(" ", "_")))
            elif k.endswith("value") or k == "weight_cp":
                v = SReal(z3.Real("file_" + k.replace(" ", "_")))
            elif k in ("segment",):
                v = SInt(z3.Int("file_segment"))
            elif k == "model_key":
                v = "hertz_para"
            else:
                v = sx.Opaque("file value of " + k)
            p = z3.Bool("file_has_" + k.replace(" ", "_")) if symbolic else True
            if k == "model_key":
                p = True if st.get("need_model_key") else p
            if defaults_present and k in keys:
                # any earlier Profile(path) has filled in the defaults
                p = True
            data.d[k] = [p, v]
            vals[k] = v
    fm = FileModel(file_kind if file_kind != "json" else "json", data)
    JSONERR = I.external_exc("json.decoder.JSONDecodeError")

    pcls = sx.ClassVal("FilePath", [sx.OBJECT], {})

    def read_text(I, self):
        if fm.kind == "empty":
            return ""
        return ("__filetext__", fm.kind, fm.data)
    pcls.ns["read_text"] = sx.Builtin("read_text", read_text)

    def write_text(I, self, text):
        assert isinstance(text, tuple) and text[0] == "__jsontext__", text
        fm.kind, fm.data = "json", text[1]
        fm.writes += 1
    pcls.ns["write_text"] = sx.Builtin("write_text", write_text)
    pcls.ns["exists"] = sx.Builtin("exists", lambda I, self: True)
    pcls.ns["touch"] = sx.Builtin("touch", lambda I, self: None)

    class _Fop:
        pass
    fopcls = sx.ClassVal("TextFile", [sx.OBJECT], {})
    fopcls.ns["__enter__"] = sx.Builtin("enter", lambda I, self: self)
    fopcls.ns["__exit__"] = sx.Builtin("exit", lambda I, self, *a: None)
    fopcls.ns["readlines"] = sx.Builtin("readlines", lambda I, self: [] if fm.kind == "empty" else _unsup())
    pcls.ns["open"] = sx.Builtin("open", lambda I, self, *a, **k: sx.Obj(fopcls))
    path = sx.Obj(pcls)
    path.attrs["parent"] = sx.Obj(sx.ClassVal("Dir", [sx.OBJECT], {"mkdir": sx.Builtin("mkdir", lambda I, self, **k: None)}))

    def loads(I, text):
        if text == "":
            raise sx.PyRaise(I.make_exc(JSONERR, ()))
        if isinstance(text, tuple) and text[0] == "__filetext__":
            if text[1] == "json":
                cp = sx.SDict()
                for k, e in text[2].d.items():
                    cp.d[k] = [e[0], e[1]]
                return cp
            raise sx.PyRaise(I.make_exc(JSONERR, ()))
        raise sx.Unsupported("json.loads of this value")
    I.lib["json.loads"] = loads

    def dumps(I, d, **kw):
        cp = sx.SDict()
        for k, e in d.d.items():
            cp.d[k] = [e[0], e[1]]
        st.setdefault("dumps_kw", []).append(kw)
        return ("__jsontext__", cp)
    I.lib["json.dumps"] = dumps
    cls = mod.env.vars["Profile"]
    st.update(mod=mod, cls=cls, defaults=defaults, keys=keys, fm=fm, vals=vals, path=path,
              snap={k: (e[0], e[1]) for k, e in data.d.items()})
    return cls, path


def _unsup():
    raise sx.Unsupported("legacy profile text (bounded stand-in)")


def _entry_same(fm, snap, k):
    e = fm.data.d.get(k)
    if k not in snap:
        return e is None or e[0] is False
    p, v = snap[k]
    if e is None:
        return p is False
    same_p = (e[0] is p) or (not isinstance(e[0], bool) and not isinstance(p, bool) and z3.eq(e[0], p))
    return same_p and e[1] is v


def _profile_obj(st, I=None):
    """a Profile object built by the real constructor (create=False)"""
    if I is not None:
        w0 = st["fm"].writes
        o = I.instantiate(st["cls"], [], dict(path=st["path"], create=False))
        st["fm"].writes = w0
        st["snap"] = {k: (e[0], e[1]) for k, e in st["fm"].data.d.items()} if st["fm"].kind == "json" else {}
        return o
    o = sx.Obj(st["cls"])
    o.attrs["path"] = st["path"]
    return o


def _stateless(o):
    """no attribute other than the path holds profile data (None / False / numbers are fine)"""
    return all(k == "path" or v is None or isinstance(v, (bool, int)) for k, v in o.attrs.items())


# ------------------------------------------------------------------ __setitem__
def unit_setitem(tier=None, seed=None):
    S = Session("C19", "Profile.__setitem__", f"{MOD}:Profile.__setitem__")
    st = {}
    KEYS = ["weight_cp", "range_type", "preprocessing", "fit param E value", "fit param R vary",
            "fit param E stderr", "unrelated key"]

    def setup(I):
        empty = False
        cls, path = _setup_module(I, st, "json", defaults_present=True)
        ki = I.choose([z3.Int("key_index") == i for i in range(len(KEYS))])
        if ki >= len(KEYS):
            raise sx.PathAbort()
        key = KEYS[ki]
        val = sx.Opaque("new value")
        o = _profile_obj(st, I)
        st.update(o=o, key=key, val=val, empty=empty)
        f, _ = cls.find("__setitem__")
        return sx.BoundMethod(o, f), [key, val], {}

    def post(S, out):
        fm, key, snap = st["fm"], st["key"], st["snap"]
        case = {"key": key, "file_empty": st["empty"], "outcome": repr(out)}
        if key == "fit param E stderr":
            S.ensure("malformed_fit_param_key_rejected", out.raises("ValueError"), case=case)
            S.ensure("rejected_write_leaves_file", fm.writes == 0, case=case)
            return
        if out.kind != "return":
            S.fail("write_succeeds", repr(out), case=case)
            return
        e = fm.data.d.get(key) if fm.kind == "json" else None
        S.ensure("value_written_to_file", e is not None and e[0] is True and e[1] is st["val"], case=case)
        S.ensure("no_other_key_changed", fm.kind == "json" and all(_entry_same(fm, snap, k) for k in snap if k != key)
                 and set(k for k, ee in fm.data.d.items() if ee[0] is not False) <= set(snap) | {key}, case=case)
        S.ensure("profile_object_keeps_no_state", _stateless(st["o"]), case=case)

    S.run(setup, post)
    return S.finish(replay=replay_profile)


# ------------------------------------------------------------------ __getitem__
def unit_getitem(tier=None, seed=None):
    S = Session("C19", "Profile.__getitem__", f"{MOD}:Profile.__getitem__")
    st = {}

    def setup(I):
        empty = False
        cls, path = _setup_module(I, st, "json", defaults_present=True)
        keys = st["keys"]
        ki = I.choose([z3.Int("key_index") == i for i in range(len(keys))])
        if ki >= len(keys):
            raise sx.PathAbort()
        key = keys[ki]
        o = _profile_obj(st, I)
        st.update(o=o, key=key, empty=empty)
        f, _ = cls.find("__getitem__")
        return sx.BoundMethod(o, f), [key], {}

    def post(S, out):
        I = S.I
        fm, key, snap = st["fm"], st["key"], st["snap"]
        case = {"key": key, "file_empty": st["empty"], "outcome": repr(out)}
        if out.kind != "return":
            S.fail("read_succeeds", repr(out), case=case)
            return
        rv = out.value
        default = st["defaults"].d[key][1]
        if st["empty"]:
            S.ensure("default_when_not_stored", rv is default or I.truth(I.equals(rv, default)), case=case)
        else:
            p, v = snap[key]
            # returned unchanged: the stored value when there is one, the default otherwise
            if rv is v:
                S.ensure("stored_value_returned_unchanged", p if not isinstance(p, bool) else z3.BoolVal(p))
            else:
                S.ensure("default_when_not_stored", z3.Not(p) if not isinstance(p, bool) else z3.BoolVal(not p))
                S.ensure("default_is_the_documented_one", rv is default or I.truth(I.equals(rv, default)), case=case)
        # (that a read writes the returned default back into the file is nanite's way, not part of the property)
        if not st["empty"]:
            S.ensure("no_other_key_changed", all(_entry_same(fm, snap, k) for k in snap if k != key), case=case)
        S.ensure("profile_object_keeps_no_state", _stateless(st["o"]), case=case)

    S.run(setup, post)
    return S.finish(replay=replay_profile)


# ------------------------------------------------------------------ Profile(path)
def unit_init(tier=None, seed=None):
    S = Session("C19", "Profile.__init__", f"{MOD}:Profile.__init__")
    st = {}

    def setup(I):
        empty = I.fork(z3.Bool("file_is_empty"))
        cls, path = _setup_module(I, st, "empty" if empty else "json")
        if empty:
            st["snap"] = {}
        create = I.fork(z3.Bool("create"))
        st.update(create=create, empty=empty)
        return cls, [], dict(path=path, create=create)

    def post(S, out):
        fm, snap = st["fm"], st["snap"]
        if out.kind != "return":
            S.fail("constructs", repr(out))
            return
        o = out.value
        # a new object changes no stored value (it may fill in defaults for keys that are not stored; whether it
        # does is not part of the property)
        for k in snap:
            p, v = snap[k]
            e = fm.data.d.get(k)
            if k in st["keys"]:
                if e is None or e[0] is not True or e[1] is not v:
                    S.ensure("stored_values_survive_a_new_object", z3.Not(p) if not isinstance(p, bool) else not p,
                             witness=k)
                else:
                    S.ok("stored_values_survive_a_new_object")
            else:
                S.ensure("other_keys_untouched", _entry_same(fm, snap, k), case={"key": k})
        S.ensure("profile_object_keeps_no_state", _stateless(o))

    S.run(setup, post, max_paths=3000)
    return S.finish(replay=replay_profile)


# ------------------------------------------------------------------ get_fit_params
def unit_get_fit_params(tier=None, seed=None):
    S = Session("C19", "Profile.get_fit_params", f"{MOD}:Profile.get_fit_params")
    st = {"need_model_key": True}

    def setup(I):
        cls, path = _setup_module(I, st, "json", defaults_present=True)
        model = st["mod"].env.vars["model"]
        defaults, dt = sym_parameters(I, PN, prefix="def")
        md = sx.Obj(sx.ClassVal("NaniteFitModel", [sx.OBJECT], {}))
        md.attrs["get_parameter_defaults"] = sx.Builtin("gpd", lambda I: defaults)
        model.env.vars["models_available"] = sx.SDict([("hertz_para", md)])
        o = _profile_obj(st, I)
        st.update(o=o, dt=dt)
        f, _ = cls.find("get_fit_params")
        return sx.BoundMethod(o, f), [], {}

    def post(S, out):
        I = S.I
        fm, snap, vals, dt = st["fm"], st["snap"], st["vals"], st["dt"]
        if out.kind != "return":
            S.fail("returns", repr(out))
            return
        ps = out.value
        S.ensure("parameters_of_the_selected_model", list(ps.map.d) == PN)
        for pn in PN:
            a = ps.map.d[pn][1].attrs
            kv, kf = f"fit param {pn} value", f"fit param {pn} vary"
            pv, pf = snap.get(kv, (False, None))[0], snap.get(kf, (False, None))[0]
            pv = pv if not isinstance(pv, bool) else z3.BoolVal(pv)
            pf = pf if not isinstance(pf, bool) else z3.BoolVal(pf)
            S.ensure("value_overridden_exactly_when_stored",
                     V.rterm(a["value"]) == z3.If(pv, V.rterm(vals[kv]), dt[pn]["value"]), witness=pn)
            S.ensure("vary_overridden_exactly_when_stored",
                     V.bterm(a["vary"]) == z3.If(pf, V.bterm(vals[kf]), dt[pn]["vary"]), witness=pn)
            S.ensure("bounds_are_the_model_defaults",
                     z3.And(V.rterm(a["min"]) == dt[pn]["min"], V.rterm(a["max"]) == dt[pn]["max"]), witness=pn)
            # reading the parameters never alters an entry that IS stored (defaults may or may not be written back)
            for kk, pres, rd in ((kv, pv, lambda t: V.rterm(t)), (kf, pf, lambda t: V.bterm(t))):
                e = fm.data.d.get(kk)
                if e is None:
                    S.ensure("stored_fit_parameters_not_altered", z3.Not(pres), witness=kk)
                else:
                    now_p = e[0] if not isinstance(e[0], bool) else z3.BoolVal(e[0])
                    S.ensure("stored_fit_parameters_not_altered",
                             z3.Implies(pres, z3.And(now_p, rd(e[1]) == rd(vals[kk]))), witness=kk)
        for k in snap:
            if not k.startswith("fit param"):
                S.ensure("no_other_key_changed", _entry_same(fm, snap, k), case={"key": k})
        S.ensure("profile_object_keeps_no_state", _stateless(st["o"]))

    S.run(setup, post)
    return S.finish(replay=replay_profile)


def unit_get_fit_params_two_profiles(tier=None, seed=None):
    """"the fit parameters returned are the selected model's defaults overridden by exactly the stored value/vary
    entries" -- of THIS profile: a profile without stored entries, read after another profile with stored entries
    was read in the same process, gets the plain model defaults"""
    S = Session("C19", "Profile.get_fit_params.two_profiles", f"{MOD}:Profile.get_fit_params")
    st = {"need_model_key": True}

    def setup(I):
        cls, path = _setup_module(I, st, "json", defaults_present=True)
        model = st["mod"].env.vars["model"]
        defaults, dt = sym_parameters(I, PN, prefix="def")
        md = sx.Obj(sx.ClassVal("NaniteFitModel", [sx.OBJECT], {}))
        # (the real get_parameter_defaults builds a new Parameters object on every call)
        md.attrs["get_parameter_defaults"] = sx.Builtin("gpd", lambda I: I.lib["copy.deepcopy"](I, defaults))
        model.env.vars["models_available"] = sx.SDict([("hertz_para", md)])
        o = _profile_obj(st, I)
        f, _ = cls.find("get_fit_params")
        st.update(dt=dt)

        def driver(I):
            I.call(sx.BoundMethod(o, f), [], {})
            # another profile file: same model, no fit parameter stored
            fm = st["fm"]
            for kk, e in fm.data.d.items():
                if kk.startswith("fit param"):
                    e[0] = False
            o2 = _profile_obj(st, I)
            return I.call(sx.BoundMethod(o2, f), [], {})
        return sx.Builtin("two_profiles", driver), [], {}

    def post(S, out):
        if out.kind != "return":
            S.fail("returns", repr(out))
            return
        S.ok("returns")
        ps, dt = out.value, st["dt"]
        for pn in PN:
            a = ps.map.d[pn][1].attrs
            S.ensure("second_profile_gets_the_model_defaults",
                     z3.And(V.rterm(a["value"]) == dt[pn]["value"], V.bterm(a["vary"]) == dt[pn]["vary"]), witness=pn)

    S.run(setup, post)
    return S.finish(replay=replay_profile)


# ------------------------------------------------------------------ native replays / bounded
def replay_profile(ob):
    """two live Profile objects on one file + a new object: everything written is read back"""
    import pathlib
    import tempfile
    import shutil
    from nanite.cli import profile
    tmp = pathlib.Path(tempfile.mkdtemp(prefix="vf-c19-"))
    try:
        path = tmp / "p.cfg"
        a = profile.Profile(path=path)
        b = profile.Profile(path=path)
        b["weight_cp"] = 2e-6
        b["segment"] = 1
        b["range_x"] = [1e-6, 2e-6]
        b["fit param E vary"] = False
        b["fit param R value"] = 7e-6
        _ = a["model_key"]
        a["rating regressor"] = "Random Forest"
        c = profile.Profile(path=path, create=False)
        got = {k: c[k] for k in ("weight_cp", "segment", "range_x", "rating regressor")}
        p = c.get_fit_params()
        got["E.vary"], got["R.value"] = p["E"].vary, p["R"].value
        want = {"weight_cp": 2e-6, "segment": 1, "range_x": [1e-6, 2e-6], "rating regressor": "Random Forest",
                "E.vary": False, "R.value": 7e-6}
        bad = {k: (got[k], want[k]) for k in want if got[k] != want[k]}
        try:
            c["fit param E stderr"] = 1
            bad["malformed key"] = ("accepted", "ValueError")
        except ValueError:
            pass
        return {"confirmed": bool(bad), "input": "writes through object B, reads through objects A and a new C",
                "observed": {k: v[0] for k, v in bad.items()}, "required": {k: v[1] for k, v in bad.items()}}
    finally:
        shutil.rmtree(tmp, ignore_errors=True)


def unit_bounded_legacy(tier=None, seed=0):
    import json
    import pathlib
    import shutil
    import tempfile
    import time
    from nanite.cli import profile
    t0 = time.time()
    tmp = pathlib.Path(tempfile.mkdtemp(prefix="vf-c19-"))
    problems, ne = [], 0
    try:
        cases = [
            dict(model_key="hertz_cone", preprocessing=["compute_tip_position", "correct_tip_offset"],
                 range_type="relative cp", range_x=[-1e-06, 2.5e-06], segment=1, weight_cp=5e-07),
            dict(model_key="sneddon_spher_approx", preprocessing=["compute_tip_position"], range_type="absolute",
                 range_x=[0.0, 0.0], segment=0, weight_cp=0.0),
            {"rating regressor": "Extra Trees", "rating training set": "zef18", "segment": 0},
        ]
        legacy_seg = {0: "approach", 1: "retract"}
        for variant in ("numeric_segment", "named_segment"):
            for c in cases:
                lines = []
                for k, v in c.items():
                    if isinstance(v, list):
                        v = ",".join(str(x) for x in v)
                    if k == "segment" and variant == "named_segment":
                        v = legacy_seg[v]
                    lines.append(f"{k} = {v}")
                lp, jp = tmp / "legacy.cfg", tmp / "json.cfg"
                lp.write_text("\n".join(lines) + "\n")
                jp.write_text(json.dumps(c))
                a, b = profile.Profile(path=lp), profile.Profile(path=jp)
                ne += 1
                for k in c:
                    if a[k] != b[k]:
                        problems.append({"key": k, "legacy": a[k], "json": b[k], "variant": variant})
        for name in ("cli-profile-1.7.8.cfg", "cli-profile-2.1.0.cfg"):
            src = pathlib.Path(os.environ.get("VF_REPO", "/repo")) / "tests" / "data" / name
            shutil.copy(src, tmp / name)
        a, b = profile.Profile(path=tmp / "cli-profile-1.7.8.cfg"), profile.Profile(path=tmp / "cli-profile-2.1.0.cfg")
        ne += 1
        for k in profile.DEFAULTS:
            if a[k] != b[k]:
                problems.append({"key": k, "legacy file": a[k], "json file": b[k]})
    except BaseException as exc:
        problems.append({"what": f"raised {exc!r}"[:160]})
    finally:
        shutil.rmtree(tmp, ignore_errors=True)
    res = UnitResult(unit="bounded.legacy_profiles")
    res.bounded.append(BoundedResult(
        bid="C19.bounded.legacy_equals_json", ok=not problems, evaluations=ne, distinct=ne,
        bound="6 generated legacy files (all key kinds, numeric and named segment) against their JSON form + the two "
              "recorded sample profiles",
        detail="legacy and JSON profiles load to the same values" if not problems else str(problems[0])[:300],
        samples=[{"legacy line": "range_x = -1e-06,2.5e-06"}], failing_input=problems[0] if problems else None,
        witness="" if not problems else "legacy", time_s=round(time.time() - t0, 2)))
    return res


def _run_setup(answers, tmp):
    """run the real interactive setup with scripted answers; returns the profile"""
    import builtins
    import sys
    import io
    import contextlib
    from nanite.cli import profile
    path = tmp / "cli_profile.cfg"
    it = iter(answers)
    asked = []

    def fake_input(prompt=""):
        asked.append(prompt)
        try:
            return next(it)
        except StopIteration:
            return ""
    real_input, real_argv, real_profile = builtins.input, sys.argv, profile.Profile
    builtins.input = fake_input
    sys.argv = ["nanite-setup-profile"]
    profile.Profile = lambda *a, **k: real_profile(path=path)
    try:
        with contextlib.redirect_stdout(io.StringIO()):
            profile.setup_profile()
    finally:
        builtins.input, sys.argv, profile.Profile = real_input, real_argv, real_profile
    return real_profile(path=path, create=False), asked


def unit_bounded_setup(tier=None, seed=0):
    """every accepted answer is the value stored; every producible profile is accepted by the batch fit"""
    import pathlib
    import shutil
    import tempfile
    import time
    import warnings
    import nanite
    from nanite.cli import rating
    t0 = time.time()
    warnings.simplefilter("ignore")
    data = pathlib.Path(os.environ.get("VF_REPO", "/repo")) / "tests" / "data" / "fmt-jpk-fd_spot3-0192.jpk-force"
    # prompt order: preprocessing, model, (value, vary) x 5 parameters, range type, left, right, weight, training set, regressor
    NP = 16
    base = [""] * NP

    def script(**at):
        s = list(base)
        for i, v in at.items():
            s[int(i[1:])] = v
        return s
    scripts = {
        "all skipped": (script(), {}),
        "preprocessing 1,2,4": (script(p0="1,2,4"), {"preprocessing": ["compute_tip_position", "correct_force_offset",
                                                                      "correct_tip_offset"]}),
        "preprocessing 1": (script(p0="1"), {"preprocessing": ["compute_tip_position"]}),
        "preprocessing 4 (prerequisite missing)": (script(p0="4"), "reprompt-or-valid"),
        # selections that pass the order rules but lack the tip position the batch fit works on
        "preprocessing 2 (no tip position)": (script(p0="2"), "reprompt-or-valid"),
        "preprocessing 6 (no tip position)": (script(p0="6"), "reprompt-or-valid"),
        "preprocessing 2,6 (no tip position)": (script(p0="2,6"), "reprompt-or-valid"),
        "preprocessing 1,6": (script(p0="1,6"), "reprompt-or-valid"),
        # steps whose required step is missing altogether (the order check of nanite.preproc has to refuse them)
        "preprocessing 1,3 (slope correction without tip offset)": (script(p0="1,3"), "reprompt-or-valid"),
        "preprocessing 1,5": (script(p0="1,5"), "reprompt-or-valid"),
        "preprocessing 1,3,4 (prerequisite after the step)": (script(p0="1,3,4"), "reprompt-or-valid"),
        "preprocessing 1,2,3,4,5,6 in the order of available()": (script(p0="AVAILABLE"), "reprompt-or-valid"),
        "model 1": (script(p1="1"), {"model_key": "hertz_cone"}),
        "E value 1234": (script(p2="1234"), {"fit param E value": 1234.0}),
        # a fit cannot start from a non-finite number: such an answer must not end up in a profile
        "E value nan": (script(p2="nan") + ["", ""], "reprompt-or-valid"),
        "contact point value inf": (script(p8="inf") + ["", ""], "reprompt-or-valid"),
        "E vary false": (script(p3="false"), {"fit param E vary": False}),
        "range type relative": (script(p12="relative"), "relative"),
        "range type absolute": (script(p12="absolute"), {"range_type": "absolute"}),
        "left only": (script(p13="-1.5"), {"range_x": [-1.5e-6, 0.0]}),
        "right only": (script(p14="2.5"), {"range_x": [0.0, 2.5e-6]}),
        "left and right": (script(p13="-1", p14="3"), {"range_x": [-1e-6, 3e-6]}),
        "weight 0.7": (script(p15="0.7"), {"weight_cp": 0.7e-6}),
        "weight 0": (script(p15="0"), {"weight_cp": 0.0}),
        "interval -2..0": (script(p13="-2", p14="0"), {"range_x": [-2e-6, 0.0]}),
        "contact point value 0 over a non-zero default": (script(p8="1e-6"), {"fit param contact_point value": 1e-6}),
    }
    from nanite import preproc as _pp
    _steps = [pp.identifier for pp in _pp.PREPROCESSORS]
    _avail = ",".join(str(_steps.index(a) + 1) for a in _pp.available())
    problems, ne, samples = [], 0, []
    for name, (answers, expect) in scripts.items():
        answers = [(_avail if a == "AVAILABLE" else a) for a in answers]
        tmp = pathlib.Path(tempfile.mkdtemp(prefix="vf-c19s-"))
        try:
            ne += 1
            case = {"script": name}
            try:
                pf, asked = _run_setup(answers, tmp)
            except BaseException as exc:
                problems.append({**case, "what": f"setup raised {exc!r}"[:160]})
                continue
            if isinstance(expect, dict):
                for k, v in expect.items():
                    got = pf.load().get(k, None) if k.startswith("fit param") else pf[k]
                    same = (got == v) or (isinstance(v, list) and len(got) == len(v)
                                          and all(abs(a - b) <= 1e-12 * max(1, abs(b)) for a, b in zip(got, v))) \
                        or (isinstance(v, float) and abs(got - v) <= 1e-12 * abs(v))
                    if not same:
                        problems.append({**case, "what": f"stored {k} = {got!r}, answered {v!r}"})
            elif expect == "relative":
                if pf["range_type"] not in ("relative cp",):
                    problems.append({**case, "what": f"answer 'relative' stored as {pf['range_type']!r}: "
                                                     "not a range type the fitter accepts"})
            # every producible profile is accepted by the batch fit
            try:
                rating.fit_data.cache_clear()
                idnt = nanite.IndentationGroup(data)[0]
                rating.fit_data(idnt, profile_path=pf.path)
            except BaseException as exc:
                problems.append({**case, "what": f"batch fit rejects the produced profile: {exc!r}"[:200]})
            if len(samples) < 3:
                samples.append(case)
        finally:
            shutil.rmtree(tmp, ignore_errors=True)
    # answers given in a SECOND session must replace what the first session stored (incl. zeros)
    tmp = pathlib.Path(tempfile.mkdtemp(prefix="vf-c19s-"))
    try:
        ne += 1
        _run_setup(script(p8="1e-6", p13="-2", p14="3", p15="1"), tmp)
        pf, _ = _run_setup(script(p8="0", p13="0", p15="0"), tmp)
        got = {"range_x": pf["range_x"], "weight_cp": pf["weight_cp"],
               "fit param contact_point value": pf.load().get("fit param contact_point value")}
        want = {"range_x": [0.0, 3e-6], "weight_cp": 0.0, "fit param contact_point value": 0.0}
        for k in want:
            g, w = got[k], want[k]
            ok = (g == w) or (isinstance(w, list) and all(abs(a - b) < 1e-15 for a, b in zip(g, w)))
            if not ok:
                problems.append({"script": "second session answers 0", "what": f"stored {k} = {g!r}, answered {w!r}"})
    except BaseException as exc:
        problems.append({"script": "second session answers 0", "what": f"raised {exc!r}"[:160]})
    finally:
        shutil.rmtree(tmp, ignore_errors=True)
    res = UnitResult(unit="bounded.interactive_setup")
    first = problems[0] if problems else None
    res.bounded.append(BoundedResult(
        bid="C19.bounded.setup_answers_stored_and_fittable", ok=not problems, evaluations=ne, distinct=ne,
        bound=f"{len(scripts)} answer scripts for the 16 prompts (each prompt kind answered at least once, others "
              "skipped) through the real setup_profile and fit_data on a recorded curve",
        detail="stored = answered; batch fit accepts every produced profile" if not problems
        else "; ".join(p["script"] + ": " + p["what"] for p in problems)[:600],
        samples=samples, failing_input=first, witness="" if not problems else first["script"].replace(" ", "_"),
        time_s=round(time.time() - t0, 2)))
    return res


def unit_bounded_statistics(tier=None, seed=0):
    import pathlib
    import shutil
    import tempfile
    import time
    import warnings
    from nanite.cli import rating, profile
    t0 = time.time()
    warnings.simplefilter("ignore")
    src = pathlib.Path(os.environ.get("VF_REPO", "/repo")) / "tests" / "data"
    tmp = pathlib.Path(tempfile.mkdtemp(prefix="vf-c19f-"))
    problems, ne = [], 0
    try:
        ddir = tmp / "data"
        ddir.mkdir()
        for f in ("fmt-jpk-fd_spot3-0192.jpk-force", "fmt-jpk-fd_map2x2_extracted.jpk-force-map"):
            shutil.copy(src / f, ddir / f)
        pf = profile.Profile(path=tmp / "p.cfg")
        pf["preprocessing"] = ["compute_tip_position", "correct_force_offset", "correct_tip_offset"]
        out = tmp / "out"
        out.mkdir()
        rating.fit_data.cache_clear()
        rating.fit_perform(ddir, out, profile_path=pf.path)
        rows = (out / "statistics.tsv").read_text().strip().splitlines()
        ne = len(rows) - 1
        if rows[0].split("\t") != ["path", "enum", "E", "rating"]:
            problems.append({"what": f"header {rows[0]!r}"})
        if ne != 5:
            problems.append({"what": f"{ne} rows for 5 curves"})
        seen = set()
        import nanite
        for r in rows[1:]:
            p, enum, e, rt = r.split("\t")
            seen.add((pathlib.Path(p).name, int(enum)))
            grp = nanite.IndentationGroup(p)
            idnt = [c for c in grp if c.enum == int(enum)][0]
            rating.fit_data.cache_clear()
            rating.fit_data(idnt, profile_path=pf.path)
            if abs(float(e) - idnt.fit_properties["params_fitted"]["E"].value) > 1e-9 * abs(float(e)):
                problems.append({"what": f"E {e} in row differs from the curve's fit"})
            want = round(idnt.rate_quality(training_set=pf["rating training set"], regressor=pf["rating regressor"]), 1)
            if float(rt) != want:
                problems.append({"what": f"rating {rt} vs {want}"})
        if len(seen) != ne:
            problems.append({"what": "rows are not one per (path, enum)"})
    except BaseException as exc:
        problems.append({"what": f"raised {exc!r}"[:200]})
    finally:
        shutil.rmtree(tmp, ignore_errors=True)
    res = UnitResult(unit="bounded.statistics_file")
    res.bounded.append(BoundedResult(
        bid="C19.bounded.statistics_one_row_per_curve", ok=not problems, evaluations=max(ne, 1), distinct=max(ne, 2),
        bound="fit_perform on a folder with one single-curve file and one 2x2 map (5 curves)",
        detail="one row per curve with its path, enum, fitted E and rating rounded to one decimal" if not problems
        else str(problems[0])[:300], samples=[{"rows": ne}], failing_input=problems[0] if problems else None,
        witness="" if not problems else "statistics", time_s=round(time.time() - t0, 2)))
    return res


CANARIES = [
    dict(name="reads ignore the file", file="cli/profile.py", old="        val = data.get(key, default)",
         new="        val = default", expect="Profile.__getitem__"),
    dict(name="writes are not saved", file="cli/profile.py", old="        data[key] = value\n        self.save(data)",
         new="        data[key] = value", expect="Profile.__setitem__"),
    dict(name="value/vary keys swapped when reading", file="cli/profile.py",
         old='            vkey = "fit param {} value".format(p)\n            if vkey in cdict:\n                default[p].value = cdict[vkey]',
         new='            vkey = "fit param {} value".format(p)\n            if vkey in cdict:\n                default[p].min = cdict[vkey]',
         expect="get_fit_params"),
    dict(name="defaults written only on create", file="cli/profile.py", old="        # also set default\n        self[key] = val",
         new="        # also set default\n        pass", expect="Profile"),
]


def unit_canaries(tier=None, seed=None):
    from ..selftest import run_canaries
    return run_canaries("C19", CANARIES)


def units(tier):
    us = [Unit("Profile.__setitem__", unit_setitem), Unit("Profile.__getitem__", unit_getitem),
          Unit("Profile.__init__", unit_init), Unit("Profile.get_fit_params", unit_get_fit_params),
          Unit("Profile.get_fit_params.two_profiles", unit_get_fit_params_two_profiles),
          Unit("bounded.legacy_profiles", unit_bounded_legacy), Unit("bounded.interactive_setup", unit_bounded_setup),
          Unit("bounded.statistics_file", unit_bounded_statistics)]
    # "every profile the setup can produce is accepted by the batch fit": the setup relies on the order check of
    # nanite.preproc to refuse selections the batch fit cannot apply (contract shared with C14)
    from . import c14
    us += [Unit(f"check_order.n{n}", c14.unit_check_order, n=n, prop="C19") for n in range(0, 4)]
    if tier == "thorough" and not os.environ.get("VF_NO_CANARIES") and str(REPO) == "/repo":
        us.append(Unit("selftest.canaries", unit_canaries))
    return us


def replay_file(path):
    import json
    d = json.load(open(path))

    class _O:
        model = d.get("model")
        oid = d.get("obligation")
        witness = d.get("witness", "")
    r = replay_profile(_O)
    print(json.dumps(r, indent=1, default=str))
    return 1 if r.get("confirmed") else 0
