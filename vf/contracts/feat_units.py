"""Contracts on nanite/rate/features.py (shared by C09 and C17): validity predicates and
the guard structure of every feature."""
from __future__ import annotations

import ast

import z3

from ..core import SRC
from ..unit import Unit
from ..engine.prove import Session
from ..engine import symex as sx
from ..engine import values as V
from ..engine.values import SAtom, SReal, SBool, SInt, NAN
from ..engine.lmfit_model import sym_parameters
from . import fpstate as F

MOD = "nanite.rate.features"


def feature_names():
    tree = ast.parse((SRC / "rate" / "features.py").read_text())
    for node in tree.body:
        if isinstance(node, ast.ClassDef) and node.name == "IndentationFeatures":
            return sorted(n.name for n in node.body if isinstance(n, ast.FunctionDef) and n.name.startswith("feat_"))
    return []


def _mk_features(I, S=None, allow_reads=False):
    """IndentationFeatures over a curve whose fit properties are fully symbolic"""
    cls = I.lookup_qual(f"{MOD}:IndentationFeatures")
    fp, vals, pres, fpd, res = F.sym_fp(I, "fp")
    succ = z3.Bool("fp_success_value")
    if "success" in fp.map.d:
        fp.map.d["success"][1] = SBool(succ)
    pf, _ = sym_parameters(I, ["E", "contact_point"], prefix="fitted")
    pf.map.d["contact_point"][0] = z3.Bool("fitted_params_have_contact_point")
    if "params_fitted" in fp.map.d:
        fp.map.d["params_fitted"][1] = pf
    # representation invariant of the fit properties (established by IndentationFitter: its private
    # FitProperties start from all FP_DEFAULT keys, and `success=True` is written together with
    # `params_fitted`): a successful fit is only ever present together with its settings and parameters
    inv = z3.Implies(z3.And(pres["success"], succ),
                     z3.And(pres["params_fitted"], pres["x_axis"], pres["y_axis"]))
    I.assume(inv)
    ds = sx.Obj(sx.ClassVal("Indentation", [sx.OBJECT], {}))
    ds.attrs["fit_properties"] = fp
    reads = []

    from ..engine import arrays as A

    def getitem(I, self, k):
        k = I.resolve(k)
        reads.append(k)
        if not allow_reads:
            raise sx.Unsupported("data column read (outside the guard contracts)")
        n = SInt(z3.Int("n_points"))
        if k == "segment":
            return A.new_array_input(I, "col_segment", kind="int", length=n)
        return A.new_array_input(I, "col_data", length=n)
    ds.cls.ns["__getitem__"] = sx.Builtin("getitem", getitem)
    o = sx.Obj(cls)
    o.attrs["dataset"] = ds
    if S is not None:
        S.names.update(has_success=pres["success"], success=succ, has_params_fitted=pres["params_fitted"],
                       has_cp=pf.map.d["contact_point"][0], has_y_axis=pres["y_axis"], has_x_axis=pres["x_axis"])
    return o, cls, fp, pres, succ, pf, reads


def unit_predicates(prop, tier=None, seed=None):
    """is_valid / is_fitted / has_contact_point are total and mean what the features assume"""
    S = Session(prop, "feature_predicates", f"{MOD}:IndentationFeatures.has_contact_point")
    st = {}

    def setup(I):
        o, cls, fp, pres, succ, pf, reads = _mk_features(I, S)
        st.update(o=o, fp=fp, pres=pres, succ=succ, pf=pf)

        def driver(I):
            return (I.getattr(o, "is_valid"), I.getattr(o, "is_fitted"), I.getattr(o, "has_contact_point"))
        return sx.Builtin("driver", driver), [], {}

    def post(S, out):
        I = S.I
        pres, succ, pf = st["pres"], st["succ"], st["pf"]
        state = {"outcome": repr(out)}
        if out.kind != "return":
            # "without a successful fit ... rather than an error": the predicates must be total
            S.fail("predicates_never_raise", f"raises {out.value.cls.name}", case=state,
                   witness=out.value.cls.name)
            return
        S.ok("predicates_never_raise")
        valid, fitted, hascp = out.value
        nonempty = z3.Or(*[p for p in pres.values() if not isinstance(p, bool)])
        tb = lambda v: V.bterm(v) if not isinstance(v, bool) else z3.BoolVal(v)
        S.ensure("is_fitted_iff_successful_fit_present", tb(fitted) == z3.And(pres["success"], succ))
        S.ensure("has_contact_point_iff_fitted_with_cp",
                 tb(hascp) == z3.And(pres["success"], succ, pres["params_fitted"],
                                     pf.map.d["contact_point"][0]))
        S.ensure("is_valid_implies_something_stored", z3.Implies(tb(valid), nonempty))

    S.run(setup, post)
    return S.finish(replay=replay_predicates)


def replay_predicates(ob):
    import os
    import nanite
    from nanite.rate.features import IndentationFeatures
    data = os.path.join(os.environ.get("VF_REPO", "/repo"), "tests", "data", "fmt-jpk-fd_spot3-0192.jpk-force")
    states = []
    idnt = nanite.IndentationGroup(data)[0]
    idnt.apply_preprocessing(["compute_tip_position"])
    states.append(("preprocessed, never fitted", idnt))
    i2 = nanite.IndentationGroup(data)[0]
    i2.fit_model(preprocessing=["compute_tip_position", "correct_force_offset", "correct_tip_offset"])
    i2.fit_properties["weight_cp"] = 3e-7
    states.append(("fitted, then a setting edited", i2))
    for label, cur in states:
        f = IndentationFeatures(cur)
        for name in ("is_valid", "is_fitted", "has_contact_point"):
            try:
                getattr(f, name)
            except Exception as exc:
                return {"confirmed": True, "input": {"state": label, "predicate": name},
                        "observed": repr(exc)[:120], "required": "a boolean"}
        try:
            cur.rate_quality()
        except Exception as exc:
            return {"confirmed": True, "input": {"state": label, "call": "rate_quality()"},
                    "observed": repr(exc)[:120], "required": "-1 (no successful current fit)"}
    return {"confirmed": False}


def unit_feature_guards(prop, tier=None, seed=None):
    """every feature returns NaN -- without touching the data and without an exception --
    when its guard (has_contact_point / is_valid) is false"""
    S = Session(prop, "feature_guards", f"{MOD}:IndentationFeatures.feat_*")
    names = feature_names()
    st = {}

    def setup(I):
        fi = I.choose([z3.Int("feature") == i for i in range(len(names))])
        if fi >= len(names):
            raise sx.PathAbort()
        name = names[fi]
        # feat_bin_size only depends on the data: it may read columns even without a fit
        o, cls, fp, pres, succ, pf, reads = _mk_features(I, S, allow_reads=(name == "feat_bin_size"))
        # only the states WITHOUT a usable fit are in scope here
        has_fit = z3.And(pres["success"], succ, pres["params_fitted"], pf.map.d["contact_point"][0])
        I.assume(z3.Not(has_fit))
        st.update(name=name, reads=reads)
        f, _ = cls.find(name)
        return sx.BoundMethod(o, f), [], {}

    def post(S, out):
        name = st["name"]
        case = {"feature": name, "outcome": repr(out), "columns_read": list(st["reads"])}
        if out.kind != "return":
            S.fail(f"nan_not_error_without_fit.{name}", f"raises {out.value.cls.name}", case=case,
                   witness=out.value.cls.name)
            return
        v = out.value
        if name == "feat_bin_size":
            # data-only feature: 0/1 when a y axis is known, NaN otherwise; never an error
            S.ok(f"nan_not_error_without_fit.{name}")
            return
        S.ensure(f"nan_not_error_without_fit.{name}", V.is_nan_const(v) or
                 (isinstance(v, SReal) and S.I.valid(V.nanflag(v) if not isinstance(V.nanflag(v), bool)
                                                      else z3.BoolVal(V.nanflag(v)))), case=case)
        # (whether the feature looks at the data before it finds out that there is no fit is not part of the property)

    S.run(setup, post)
    return S.finish(replay=replay_predicates)
