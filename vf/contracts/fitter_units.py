"""Contracts on nanite/fit.py: IndentationFitter._fit and IndentationFitter.fit
(shared by C04, C05, C10, C11).

lmfit.minimize is under its ASSUMED contract (DESIGN.md 2.6): it returns a fresh
Parameters object with the same names; it does not modify what it is given; fixed
parameters keep their value, varied ones lie in [min, max]; chisqr is the sum of
squared residuals of the returned parameters.  Nothing about which minimiser it finds.
The model's ``model`` is a pointwise uninterpreted function of (E, contact_point, baseline, abscissa sample) and
``residual`` is (data - model) x contact-point weight (their contracts are C02/C13).
"""
from __future__ import annotations

import os

import z3

from ..unit import Unit
from ..engine.prove import Session
from ..engine import symex as sx
from ..engine import values as V
from ..engine import arrays as A
from ..engine.values import SAtom, SReal, SBool, SInt, fresh
from ..engine.arrays import SArray, SCompressed
from ..engine.lmfit_model import sym_parameters

PN = ["E", "contact_point", "baseline"]
TAGS = {"C04", "C05", "C10", "C11"}


def _mk_fitter(I, S, st, with_results=False):
    fit = I.module("nanite.fit")
    cls = fit.env.vars["IndentationFitter"]
    fpcls = fit.env.vars["FitProperties"]
    fpd = list(fit.env.vars["FP_DEFAULT"].d)
    n = SInt(z3.Int("n"))
    I.assume(n.term >= 0)
    seg = A.new_array_input(I, "segment", kind="bool", length=n)
    x = A.new_array_input(I, "x_axis", length=n)
    y = A.new_array_input(I, "y_axis", length=n)
    fr = A.new_array_input(I, "fit_range", kind="bool", length=n)
    fc = A.new_array_input(I, "fit_curve_before", length=n, nan=True)
    fres = A.new_array_input(I, "fit_residuals_before", length=n, nan=True)
    pinit, pt = sym_parameters(I, PN, prefix="init")
    k = z3.Real("gcf_k")
    W = z3.Real("weight_cp")
    I.assume(z3.And(k > 0, W >= 0))
    fp = sx.Obj(fpcls)
    fp.map = sx.SDict([
        ("model_key", "M"), ("optimal_fit_edelta", False), ("optimal_fit_num_samples", 100),
        ("params_initial", pinit), ("preprocessing", []), ("preprocessing_options", sx.SDict()),
        ("range_type", "absolute"), ("range_x", [0, 0]), ("segment", 0), ("weight_cp", SReal(W)),
        ("gcf_k", SReal(k)), ("x_axis", "tip position"), ("y_axis", "force"),
        ("method", SAtom(z3.Int("method"))), ("method_kws", sx.SDict([("max_nfev", SInt(z3.Int("max_nfev")))])),
    ])
    assert list(fp.map.d) == fpd, (list(fp.map.d), fpd)
    if with_results:
        for r in fit.env.vars["FP_RESULTS"]:
            fp.map.d[r] = [z3.Bool(f"had_{r}"), sx.Opaque(f"stale_{r}")]
    o = sx.Obj(cls)
    o.attrs.update(fp=fp, segment=seg, x_axis=x, y_axis=y, fit_range=fr, fit_curve=fc, fit_residuals=fres)
    st.update(fitter=o, cls=cls, fp=fp, seg=seg, x=x, y=y, fr=fr, fc=fc, fres=fres, pinit=pinit, pt=pt, k=k, W=W, n=n)
    S.names.update(n=n.term, gcf_k=k, weight_cp=W, cp_initial=pt["contact_point"]["value"])
    return o


def cpw_term(cp, xv, W):
    """contact-point weight of one sample (contract of compute_contact_point_weights, proved in C13/C04):
    |x - cp| / W capped at 1; no weighting when the weight distance is zero/False"""
    d = z3.If(xv - cp >= 0, xv - cp, cp - xv) / W
    return z3.If(W != 0, z3.If(d > 1, 1, d), 1)


def _mk_fitter_init(I, S, st, with_results=False, plateau=False):
    """The fitter object is built by the REAL IndentationFitter.__init__ from a symbolic curve, so that whatever
    internal representation __init__ chooses (which attribute holds what, in which units) is the pre-state of the
    _fit / fit units -- the clauses speak about the CURVE's columns and settings, not about private attributes.
    Afterwards the attributes that change between passes are havocked: the fit mask (set by fit()), the two
    result columns (content of an earlier pass) and, with_results, result keys of an earlier pass."""
    fit = I.module("nanite.fit")
    cls = fit.env.vars["IndentationFitter"]
    fpcls = fit.env.vars["FitProperties"]
    fpd = fit.env.vars["FP_DEFAULT"]
    n = SInt(z3.Int("n"))
    I.assume(n.term >= 0)
    segcode = A.new_array_input(I, "segment_code", kind="int", length=n)
    sv = z3.Int("segment_setting")
    I.assume(z3.Or(sv == 0, sv == 1))
    x = A.new_array_input(I, "x_axis", length=n)
    y = A.new_array_input(I, "y_axis", length=n)
    fr = A.new_array_input(I, "fit_range", kind="bool", length=n)
    fc = A.new_array_input(I, "fit_curve_before", length=n, nan=True)
    fres = A.new_array_input(I, "fit_residuals_before", length=n, nan=True)
    pinit, pt = sym_parameters(I, PN, prefix="init")
    # the contact point may or may not be constrained by an expression (lmfit drops an expression when a value is
    # set, so code that converts the contact point has to distinguish the two)
    if not I.fork(z3.Bool("contact_point_has_expression")):
        pinit.map.d["contact_point"][1].attrs["expr"] = None
    k = z3.Real("gcf_k")
    W = z3.Real("weight_cp")
    I.assume(z3.And(k > 0, W >= 0))
    cfp = sx.Obj(fpcls)
    cfp.map = sx.SDict([(kk, e[1]) for kk, e in fpd.d.items()])
    cfp.map.d.update({"model_key": [True, "M"], "params_initial": [True, pinit], "segment": [True, SInt(sv)],
                      "weight_cp": [True, SReal(W)], "gcf_k": [True, SReal(k)],
                      "method": [True, SAtom(z3.Int("method"))],
                      "method_kws": [True, sx.SDict([("max_nfev", SInt(z3.Int("max_nfev")))])]})
    if plateau:
        ns = z3.Int("num_samples")
        ra, rb = z3.Real("range_a"), z3.Real("range_b")
        I.assume(ns >= 1)
        cfp.map.d.update({"optimal_fit_edelta": [True, True], "optimal_fit_num_samples": [True, SInt(ns)],
                          "range_x": [True, [SReal(ra), SReal(rb)]]})
        st.update(num_samples=ns, range_a=ra, range_b=rb)
    icls = sx.ClassVal("Indentation", [sx.OBJECT], {})
    cols = {"segment": segcode, "tip position": x, "force": y}
    icls.ns["__getitem__"] = sx.Builtin("idnt.getitem", lambda I, s, c: cols[I.resolve(c) if not isinstance(c, str) else c])
    idnt = sx.Obj(icls)
    idnt.attrs.update(fit_properties=cfp)
    I.contracts["nanite.fit:IndentationFitter._hash"] = lambda I, fv, a, kw: SAtom(z3.Int("fit_hash"))
    _install_model(I, st)
    o = I.call(cls, [idnt], {})
    fp = o.attrs["fp"]
    if with_results:
        for r in fit.env.vars["FP_RESULTS"]:
            fp.map.d[r] = [z3.Bool(f"had_{r}"), sx.Opaque(f"stale_{r}")]

    class _Seg:
        """the requested segment as a mask over the curve's samples (independent of the fitter's attributes)"""
        def uf(self, i):
            return segcode.uf(i) == sv
    I.mutations.clear()
    o.attrs.update(fit_range=fr, fit_curve=fc, fit_residuals=fres)
    st["fp_range0"] = list(fp.map.d["range_x"][1])
    st.update(fitter=o, cls=cls, fp=fp, seg=_Seg(), x=x, y=y, fr=fr, fc=fc, fres=fres, pinit=fp.map.d["params_initial"][1],
              pt=pt, k=k, W=W, n=n, idnt=idnt, caller_pinit=pinit)
    S.names.update(n=n.term, gcf_k=k, weight_cp=W, cp_initial=pt["contact_point"]["value"])
    return o


_mk_fitter_direct = _mk_fitter      # (kept for reference: attributes written directly, bypassing __init__)
_mk_fitter = _mk_fitter_init        # noqa: F811


def _install_model(I, st):
    """registered model 'M' under the CONTRACT of NaniteFitModel.model / .residual (C02, C13): model() is a
    pointwise, otherwise uninterpreted function MODELF of the three parameter values and the abscissa sample;
    residual() is (data - model) times the contact-point weight.  Parameter values are read when called."""
    fit = I.module("nanite.fit")
    R = z3.RealSort()
    MODELF = z3.Function("MODELF", R, R, R, R, R)
    calls = []

    def vals(params):
        return [V.rterm(params.map.d[nm][1].attrs["value"]) for nm in PN]

    def model(I, self, params, x):
        pv = vals(params)
        calls.append(("model", params, pv[1], x))
        return SCompressed(lambda i: SReal(MODELF(*pv, V.rterm(x.fn(i)))), x.maskfn, x.length, "real")

    def residual(I, self, params, x, y, w):
        pv = vals(params)
        calls.append(("residual", params, pv[1], x, y, w))
        wt = V.rterm(w)
        return SCompressed(lambda i: SReal((V.rterm(y.fn(i)) - MODELF(*pv, V.rterm(x.fn(i))))
                                           * cpw_term(pv[1], V.rterm(x.fn(i)), wt)),
                           x.maskfn, x.length, "real")
    mdcls = sx.ClassVal("NaniteFitModel", [sx.OBJECT], {})
    mdcls.ns["model"] = sx.Builtin("md.model", model)
    mdcls.ns["residual"] = sx.Builtin("md.residual", residual)
    mdcls.ns["get_parameter_defaults"] = sx.Builtin("md.get_parameter_defaults",
                                                    lambda I, self: sym_parameters(I, PN, prefix="model_default")[0])
    md = sx.Obj(mdcls)
    fit.env.vars["model"].env.vars["models_available"] = sx.SDict([("M", md)])
    st.update(md=md, MODELF=MODELF, model_calls=calls)


def _install_minimize(I, st):
    mins = []

    def minimize(I, fcn=None, params=None, method=None, args=None, **kws):
        # assumed contract of lmfit.minimize
        cp_at_call = V.rterm(params.map.d["contact_point"][1].attrs["value"])
        snapshot = {nm: dict(e[1].attrs) for nm, e in params.map.d.items()}
        phat, ph = sym_parameters(I, list(params.map.d), prefix=f"fit{len(mins)}")
        for nm in params.map.d:
            a = snapshot[nm]
            I.assume(z3.Implies(z3.Not(V.bterm(a["vary"])), ph[nm]["value"] == V.rterm(a["value"])))
            I.assume(z3.Implies(V.bterm(a["vary"]), z3.And(ph[nm]["value"] >= V.rterm(a["min"]),
                                                           ph[nm]["value"] <= V.rterm(a["max"]))))
            for f in ("min", "max"):
                I.assume(ph[nm][f] == V.rterm(a[f]))
            I.assume(ph[nm]["vary"] == V.bterm(a["vary"]))
            # the returned parameters carry the expressions they were given
            phat.map.d[nm][1].attrs["expr"] = a["expr"]
        res = sx.Obj(sx.ClassVal("MinimizerResult", [sx.OBJECT], {}))
        chi = SReal(z3.Real(f"chisqr{len(mins)}"))
        res.attrs.update(params=phat, chisqr=chi)
        mins.append(dict(fcn=fcn, params=params, method=method, args=args, kws=kws, cp_at_call=cp_at_call,
                         phat=phat, ph=ph, chi=chi, snapshot=snapshot))
        return res
    I.lib["lmfit.minimize"] = minimize
    st["mins"] = mins


def _param_mutated(I, pobj):
    ps = {id(e[1]) for e in pobj.map.d.values()}
    return any(isinstance(m, tuple) and id(m[0]) in ps for m in I.mutations) or any(m is pobj.map for m in I.mutations)


# =================================================================== _fit
def unit__fit(prop, tier=None, seed=None):
    S = Session(prop, "_fit", "nanite.fit:IndentationFitter._fit")
    st = {}

    def setup(I):
        o = _mk_fitter(I, S, st, with_results=True)
        _install_model(I, st)
        _install_minimize(I, st)
        i = z3.Int("pre_i")
        # caller's obligation (established by fit()): the fitted points lie in the segment
        I.assume(z3.ForAll([i], z3.Implies(z3.And(i >= 0, i < st["n"].term, st["fr"].uf(i)), st["seg"].uf(i))))
        st["snap_fp"] = {kk: (e[0], e[1]) for kk, e in st["fp"].map.d.items()}
        st["init_values"] = {nm: dict(e[1].attrs) for nm, e in st["pinit"].map.d.items()}
        f, _ = st["cls"].find("_fit")
        return sx.BoundMethod(o, f), [], {}

    def post(S, out):
        I = S.I
        if out.kind != "return":
            S.fail("no_exception", f"raises {out.value.cls.name}")
            return
        S.ok("no_exception")
        o, fp, mins, calls = st["fitter"], st["fp"], st["mins"], st["model_calls"]
        seg, x, y, fr, k, W, n = st["seg"], st["x"], st["y"], st["fr"], st["k"], st["W"], st["n"].term
        i = z3.Int("i")
        inr = z3.And(i >= 0, i < n)
        S.names.update(i=i, segment_i=seg.uf(i), fit_range_i=fr.uf(i), x_i=x.uf(i))
        fc, fres = o.attrs["fit_curve"], o.attrs["fit_residuals"]
        cv, rv = fc.at(i), fres.at(i)
        nan = lambda v: A._zb(V.nanflag(v))
        succ = fp.map.d.get("success")
        cp0 = st["pt"]["contact_point"]["value"]
        if mins:
            # (how often the optimiser runs is not part of any property: the LAST run is the one reported)
            m = mins[-1]
            # ---- call-site obligations at lmfit.minimize --------------------------------
            args = m["args"] if isinstance(m["args"], tuple) else ()
            ok_args = len(args) == 3 and isinstance(args[0], SCompressed) and isinstance(args[1], SCompressed)
            S.ensure("minimize_gets_x_y_weight", ok_args and args[2] is fp.map.d["weight_cp"][1]
                     and m["fcn"] is not None and m["method"] is fp.map.d["method"][1]
                     and list(m["kws"]) == ["max_nfev"])
            if ok_args:
                xa, ya = args[0], args[1]
                if prop in ("C05", "C04"):
                    # exactly the points of fit_range are handed to the optimiser
                    S.ensure("points_used_are_exactly_fit_range",
                             z3.Implies(inr, z3.And(xa.maskfn(i) == fr.uf(i), ya.maskfn(i) == fr.uf(i))))
                    S.ensure("ordinate_is_measured_force", z3.Implies(z3.And(inr, fr.uf(i)),
                                                                      V.rterm(ya.fn(i)) == y.uf(i)))
                if prop in ("C11", "C04"):
                    S.ensure("abscissa_corrected_by_k", z3.Implies(z3.And(inr, fr.uf(i)),
                                                                   V.rterm(xa.fn(i)) == x.uf(i) * k))
            if prop in ("C11",):
                # the initial contact-point guess is in measured units: the optimiser sees cp * k
                # (a contact point constrained by an expression has no value of its own: lmfit evaluates the
                #  expression; what nanite must do then is keep the constraint -- C04 reported_expression...)
                if st["init_values"]["contact_point"]["expr"] is None:
                    S.ensure("initial_contact_point_scaled_once", m["cp_at_call"] == cp0 * k)
                    # ... and so are its bounds ("equivalent to fitting with k = 1": the abscissa the optimiser works
                    # on is k times the measured one, a bound b on the measured contact point is k*b there)
                    for bd in ("min", "max"):
                        S.ensure("contact_point_bounds_corrected_like_the_value",
                                 V.rterm(m["snapshot"]["contact_point"][bd]) == st["pt"]["contact_point"][bd] * k,
                                 witness=bd)
                for nm in ("E", "baseline"):
                    S.ensure("other_initial_values_unscaled",
                             V.rterm(m["snapshot"][nm]["value"]) == st["pt"][nm]["value"], witness=nm)
            ph = m["ph"]
            # ---- write-back --------------------------------------------------------------
            # the model of the FITTED parameters (contact point still in corrected units) at the corrected abscissa
            fitted = [ph[nm]["value"] for nm in PN]
            mod_i = st["MODELF"](*fitted, x.uf(i) * k)
            if prop in ("C04", "C11"):
                S.ensure("fit_column_is_model_on_segment_nan_elsewhere",
                         z3.Implies(inr, z3.And(z3.Implies(seg.uf(i), z3.And(cv.term == mod_i, z3.Not(nan(cv)))),
                                                z3.Implies(z3.Not(seg.uf(i)), nan(cv)))))
            if prop == "C04":
                want = (y.uf(i) - mod_i) * cpw_term(ph["contact_point"]["value"], x.uf(i) * k, W)
                S.ensure("residual_column_is_weighted_residual_on_segment_nan_elsewhere",
                         z3.Implies(inr, z3.And(z3.Implies(seg.uf(i), z3.And(rv.term == want, z3.Not(nan(rv)))),
                                                z3.Implies(z3.Not(seg.uf(i)), nan(rv)))), timeout_ms=60000)
                e = fp.map.d.get("chi_sqr")
                S.ensure("chi_square_is_the_optimisers", e is not None and e[0] is True and e[1] is m["chi"])
                S.ensure("success_reported", succ is not None and succ[0] is True and succ[1] is True)
            pf = fp.map.d.get("params_fitted")
            okpf = pf is not None and pf[0] is True and pf[1] is m["phat"]
            if prop in ("C04", "C11"):
                S.ensure("reported_parameters_are_the_fitted_ones", okpf)
            if okpf:
                rep = {nm: e[1].attrs for nm, e in m["phat"].map.d.items()}
                if prop in ("C11", "C04"):
                    if st["init_values"]["contact_point"]["expr"] is None:
                        S.ensure("reported_contact_point_in_measured_units",
                                 V.rterm(rep["contact_point"]["value"]) == ph["contact_point"]["value"] / k)
                    for nm in ("E", "baseline"):
                        S.ensure("reported_other_parameters_unchanged",
                                 V.rterm(rep[nm]["value"]) == ph[nm]["value"], witness=nm)
                if prop == "C04":
                    # an expression constraint of the initial parameters is the one reported (so that the reported
                    # parameters "satisfy their expression": lmfit evaluates it on every read)
                    for nm in PN:
                        e0 = st["init_values"][nm]["expr"]
                        e1 = rep[nm].get("expr")
                        S.ensure("reported_expression_is_the_initial_one",
                                 (e0 is None and e1 is None) or (e0 is not None and e1 is not None
                                                                 and I.truth(I.equals(e0, e1))),
                                 witness=nm, case={"parameter": nm, "initial": repr(e0), "reported": repr(e1)})
                    # fixed parameters keep their initial value (incl. the rescaled contact point)
                    for nm in PN:
                        init = st["pt"][nm]
                        if nm == "contact_point" and st["init_values"]["contact_point"]["expr"] is not None:
                            continue
                        S.ensure("fixed_parameters_keep_initial_value",
                                 z3.Implies(z3.Not(init["vary"]), V.rterm(rep[nm]["value"]) == init["value"]),
                                 witness=nm)
                    for nm in PN:
                        init = st["pt"][nm]
                        if nm == "contact_point" and st["init_values"]["contact_point"]["expr"] is not None:
                            continue
                        S.ensure("varied_parameters_inside_bounds",
                                 z3.Implies(init["vary"], z3.And(V.rterm(rep[nm]["value"]) >= init["min"],
                                                                 V.rterm(rep[nm]["value"]) <= init["max"])),
                                 witness=nm)
            if prop in ("C05", "C11"):
                for key, op in (("xmin", lambda a, b: a >= b), ("xmax", lambda a, b: a <= b)):
                    e = fp.map.d.get(key)
                    if e is None or e[0] is not True or not isinstance(e[1], SReal):
                        S.fail(f"{key}_is_extreme_abscissa_of_used_points", "not written")
                        continue
                    val = e[1].term
                    j = z3.Int(fresh("w"))
                    S.ensure(f"{key}_is_extreme_abscissa_of_used_points",
                             z3.Implies(z3.And(inr, fr.uf(i)), op(x.uf(i), val)))
                    S.ensure(f"{key}_is_attained_in_uncorrected_units",
                             z3.Exists([j], z3.And(j >= 0, j < n, fr.uf(j), x.uf(j) == val)))
        else:
            # ---- too few points: no optimisation -----------------------------------------
            if prop == "C04":
                S.ensure("unsuccessful_fit_leaves_nan_columns", z3.Implies(inr, z3.And(nan(cv), nan(rv))))
                S.ensure("unsuccessful_fit_reports_success_False", succ is not None and succ[0] is True
                         and succ[1] is False)
                S.ensure("unsuccessful_fit_writes_no_other_result",
                         all(fp.map.d[kk][0] is st["snap_fp"][kk][0] and fp.map.d[kk][1] is st["snap_fp"][kk][1]
                             for kk in st["snap_fp"] if kk != "success") and set(fp.map.d) == set(st["snap_fp"]))
        if prop == "C04":
            S.ensure("settings_not_modified_by_fit",
                     all(fp.map.d[kk][0] is True and fp.map.d[kk][1] is st["snap_fp"][kk][1]
                         for kk in st["snap_fp"] if kk in ("model_key", "weight_cp", "gcf_k", "method", "method_kws",
                                                           "range_x", "range_type", "segment", "x_axis", "y_axis")))
        if prop in ("C10", "C11"):
            # frame: the initial parameters (the caller's object) are not written to -- every pass of a
            # multi-pass fit must start from the same, measured-units guess
            cur = {nm: e[1].attrs for nm, e in st["pinit"].map.d.items()}
            for nm in PN:
                for f in ("value", "min", "max", "vary"):
                    a, b = cur[nm][f], st["init_values"][nm][f]
                    same = (V.rterm(a) == V.rterm(b)) if f != "vary" else (V.bterm(a) == V.bterm(b))
                    S.ensure("frame.params_initial_unchanged", same, witness=f"{nm}.{f}")
        if prop == "C10":
            for nm_, arr in (("x_axis", x), ("y_axis", y), ("segment", seg), ("fit_range", fr)):
                S.ensure("frame.data_arrays", not any(mm is arr for mm in I.mutations), witness=nm_)

    S.run(setup, post)
    return S.finish(replay=replay_fitter)


# =================================================================== fit (range selection / passes)
def unit_fit(prop, tier=None, seed=None):
    S = Session(prop, "fit", "nanite.fit:IndentationFitter.fit")
    st = {}

    def setup(I):
        o = _mk_fitter(I, S, st)
        a, b = z3.Real("range_a"), z3.Real("range_b")
        rt = I.choose([z3.Bool("range_type_absolute"), z3.Bool("range_type_relative_cp")])
        if rt > 1:
            raise sx.PathAbort()
        rtype = ["absolute", "relative cp"][rt]
        rx = [SReal(a), SReal(b)]
        o.attrs.update(range_type=rtype, range_x=rx, optimal_fit_edelta=False)
        st["fp"].map.d["range_type"][1] = rtype
        st["fp"].map.d["range_x"][1] = [SReal(a), SReal(b)]
        S.names.update(range_a=a, range_b=b)
        passes = []
        cls = st["cls"]

        def _fit_contract(I, self):
            # contract of _fit (proved separately): reads fit_range, writes the result keys -- or, with too few
            # points, reports success False and writes nothing else
            snap = self.attrs["fit_range"].snap()
            cp = z3.Real(f"cp_pass{len(passes)}")
            ok = I.fork(z3.Bool(f"pass{len(passes)}_has_enough_points"))
            if ok:
                pf, _ = sym_parameters(I, PN, prefix=f"pass{len(passes)}")
                pf.map.d["contact_point"][1].attrs["value"] = SReal(cp)
                self.attrs["fp"].map.d["params_fitted"] = [True, pf]
                for rk in ("chi_sqr", "xmin", "xmax"):
                    self.attrs["fp"].map.d[rk] = [True, SReal(z3.Real(f"{rk}_pass{len(passes)}"))]
                self.attrs["fp"].map.d["success"] = [True, True]
            else:
                self.attrs["fp"].map.d["success"] = [True, False]
            passes.append(dict(mask=snap, cp=cp, range_x=list(self.attrs["range_x"]),
                               range_type=self.attrs["range_type"], ok=ok))
        cls.ns["_fit"] = sx.Builtin("IndentationFitter._fit", _fit_contract)
        st.update(a=a, b=b, rtype=rtype, rx=rx, passes=passes)
        f, _ = cls.find("fit")
        return sx.BoundMethod(o, f), [], {}

    def post(S, out):
        I = S.I
        if out.kind != "return":
            S.fail("no_exception", f"raises {out.value.cls.name}")
            return
        S.ok("no_exception")
        o, passes = st["fitter"], st["passes"]
        seg, x, n, a, b = st["seg"], st["x"], st["n"].term, st["a"], st["b"]
        i = z3.Int("i")
        inr = z3.And(i >= 0, i < n)
        S.names.update(i=i, x_i=x.uf(i), segment_i=seg.uf(i))
        lo = z3.If(a <= b, a, b)
        hi = z3.If(a <= b, b, a)

        def want(cp):
            # closed interval, inverted intervals normalised, zero width = whole segment
            inside = z3.And(x.uf(i) >= lo + cp, x.uf(i) <= hi + cp)
            return z3.And(seg.uf(i), z3.Or(a == b, inside))
        # (the number of passes is nanite's business; every pass must use the requested points, and a relative range
        #  needs at least one refinement to be anchored at a FITTED contact point.  Whether the fitter object's
        #  private range attributes are restored afterwards is not part of any property either.)
        if st["rtype"] == "absolute":
            S.ensure("absolute.fitted", len(passes) >= 1)
            for ps in passes:
                S.ensure("absolute.points_are_segment_and_closed_interval",
                         z3.Implies(inr, V.bterm(ps["mask"](i)) == want(z3.RealVal(0))))
        else:
            # (a pass without enough points reports success False and leaves the earlier results alone: a later
            #  pass is anchored at the contact point of the LAST SUCCESSFUL pass)
            if all(ps["ok"] for ps in passes):
                S.ensure("relative_cp.refined_at_least_once", len(passes) >= 2)
            last_cp = None
            for j in range(len(passes)):
                if j >= 1 and last_cp is not None:
                    S.ensure("relative_cp.interval_anchored_at_previous_contact_point",
                             z3.Implies(inr, V.bterm(passes[j]["mask"](i)) == want(last_cp)),
                             witness=f"pass{j + 1}")
                if passes[j]["ok"]:
                    last_cp = passes[j]["cp"]
        if prop == "C10":
            for nm_, arr in (("x_axis", x), ("segment", seg), ("y_axis", st["y"])):
                S.ensure("frame.data_arrays", not any(mm is arr for mm in I.mutations), witness=nm_)
        if passes and not passes[-1]["ok"]:
            # "an unsuccessful fit leaves NaN columns and success False instead of stale numbers": the fitter starts
            # without results; what an earlier pass of a multi-pass fit reported is not the result of this fit
            left = [rk for rk in ("params_fitted", "chi_sqr", "xmin", "xmax")
                    if o.attrs["fp"].map.d.get(rk, [False])[0] is not False]
            S.ensure("unsuccessful_fit_reports_no_stale_results", not left, case={"left_behind": left},
                     witness=st["rtype"].replace(" ", "_"))
        fpx = st["fp"].map.d["range_x"][1]
        S.ensure("settings_range_not_modified", I.valid(z3.And(V.rterm(fpx[0]) == a, V.rterm(fpx[1]) == b))
                 and st["fp"].map.d["range_type"][1] == st["rtype"])

    S.run(setup, post)
    return S.finish(replay=replay_fitter)


# =================================================================== _fit called twice (multi-pass fits)
def unit__fit_two_passes(prop, tier=None, seed=None):
    """Every pass of a multi-pass fit (contact-point relative ranges, plateau scan) optimises over ITS OWN points:
    the real _fit is run twice on one fitter object with two different point selections; whatever the first pass
    left behind on the object, the second pass hands exactly the second selection to the optimiser and reports its
    extreme abscissae."""
    S = Session(prop, "_fit.two_passes", "nanite.fit:IndentationFitter._fit")
    S.check_domain = False
    st = {}

    def setup(I):
        o = _mk_fitter(I, S, st, with_results=False)
        _install_model(I, st)
        _install_minimize(I, st)
        n = st["n"]
        fr2 = A.new_array_input(I, "fit_range_second_pass", kind="bool", length=n)
        i = z3.Int("pre_i")
        for arr in (st["fr"], fr2):
            I.assume(z3.ForAll([i], z3.Implies(z3.And(i >= 0, i < n.term, arr.uf(i)), st["seg"].uf(i))))
        f, _ = st["cls"].find("_fit")
        st.update(fr2=fr2, o=o)

        def driver(I):
            I.call(sx.BoundMethod(o, f), [], {})
            st["calls_after_first"] = len(st["mins"])
            st["success_after_first"] = st["fp"].map.d.get("success", [False, None])[1]
            o.attrs["fit_range"] = fr2
            I.call(sx.BoundMethod(o, f), [], {})
        return sx.Builtin("two_passes", driver), [], {}

    def post(S, out):
        I = S.I
        if out.kind != "return":
            S.fail("no_exception", f"raises {out.value.cls.name}")
            return
        S.ok("no_exception")
        mins, fp, fr2, x, k = st["mins"], st["fp"], st["fr2"], st["x"], st["k"]
        n = st["n"].term
        i = z3.Int("i")
        inr = z3.And(i >= 0, i < n)
        S.names.update(i=i, x_i=x.uf(i), second_selection_i=fr2.uf(i), first_selection_i=st["fr"].uf(i))
        succ = fp.map.d.get("success")
        ok2 = succ is not None and succ[0] is True and succ[1] is True
        if ok2:
            # a successful second pass is a fit of the second selection
            fresh_call = len(mins) > st["calls_after_first"]
            # (skipping the optimisation is fine only if the second selection IS the first one)
            S.ensure("second_pass_optimises_its_own_points",
                     z3.BoolVal(True) if fresh_call else z3.Implies(inr, st["fr"].uf(i) == fr2.uf(i)),
                     case={"optimiser_calls": len(mins)}, witness="skipped")
            if fresh_call:
                args = mins[-1]["args"] if isinstance(mins[-1]["args"], tuple) else ()
                if len(args) == 3 and isinstance(args[0], SCompressed):
                    S.ensure("second_pass_uses_the_second_selection",
                             z3.Implies(inr, args[0].maskfn(i) == fr2.uf(i)))
            for key, op in (("xmin", lambda a, b: a <= b), ("xmax", lambda a, b: a >= b)):
                e = fp.map.d.get(key)
                if e is None or e[0] is not True or not isinstance(e[1], SReal):
                    S.fail(f"second_pass_reports_{key}_of_its_points", "not written")
                    continue
                S.ensure(f"second_pass_reports_{key}_of_its_points",
                         z3.Implies(z3.And(inr, fr2.uf(i)), op(e[1].term, x.uf(i))))

    S.run(setup, post, max_paths=4000)
    return S.finish(replay=replay_fitter)


# =================================================================== native replays
def _synthetic(k=1.0, noise=0.0):
    """a synthetic paraboloid curve on a real Indentation object (approach + retract)"""
    import os
    import numpy as np
    import nanite
    data = os.path.join(os.environ.get("VF_REPO", "/repo"), "tests", "data", "fmt-jpk-fd_spot3-0192.jpk-force")
    idnt = nanite.IndentationGroup(data)[0]
    idnt.apply_preprocessing(["compute_tip_position"])
    return idnt


def replay_fitter(ob):
    import copy
    import numpy as np
    import lmfit
    import nanite
    oid = ob.oid
    idnt = _synthetic()
    tip = np.array(idnt["tip position"], copy=True)
    seg = np.array(idnt["segment"], copy=True)
    if ".fit." in oid and ("points_are" in oid or "interval_anchored" in oid or "first_pass" in oid):
        xs = np.sort(tip[seg == 0])
        trials = [(xs[100], xs[600]), (xs[600], xs[100]), (xs[300], xs[300]), (xs[500], xs[500] + 5e-9),
                  (xs[10], xs[-10]), (-np.inf, xs[700])]
        for (a, b) in trials:
            cur = _synthetic()
            cur.fit_model(model_key="hertz_para", range_x=(a, b), range_type="absolute", segment=0)
            used = np.array(cur["fit range"], dtype=bool)
            lo, hi = min(a, b), max(a, b)
            want = (seg == 0) & (((tip >= lo) & (tip <= hi)) | (a == b))
            if not np.array_equal(used, want):
                return {"confirmed": True, "input": {"range_x": [float(a), float(b)]},
                        "observed": f"{int(used.sum())} points used", "required": f"{int(want.sum())} points"}
        # relative cp
        cur = _synthetic()
        cur.fit_model(model_key="hertz_para", range_x=(-2e-6, 1e-6), range_type="relative cp", segment=0)
        used = np.array(cur["fit range"], dtype=bool)
        return {"confirmed": False, "note": f"relative cp fit used {int(used.sum())} points"}
    if "contact_point_bounds" in oid or ("inside_bounds" in oid and "contact_point" in (ob.witness or "")):
        # bounds on the contact point, weighting off: the k = 0.5 fit must be the k = 1 fit
        def run(k_):
            cur = _synthetic()
            cur.apply_preprocessing(["compute_tip_position", "correct_force_offset", "correct_tip_offset"])
            p = copy.deepcopy(cur.get_initial_fit_parameters(model_key="hertz_para"))
            p["contact_point"].set(value=0, min=-8e-9, max=1e-8)
            cur.fit_model(model_key="hertz_para", params_initial=p, gcf_k=k_, weight_cp=0)
            pf = cur.fit_properties["params_fitted"]
            return pf["contact_point"].value, pf["E"].value * k_ ** 1.5
        (c1, e1), (c2, e2) = run(1.0), run(0.5)
        bad = abs(c1 - c2) > 1e-3 * abs(c1) + 1e-12 or abs(e1 - e2) > 1e-3 * abs(e1)
        return {"confirmed": bool(bad), "input": {"contact point bounds": [-8e-9, 1e-8], "weight_cp": 0, "gcf_k": 0.5},
                "observed": {"k=1": [c1, e1], "k=0.5 (E*k^1.5)": [c2, e2]},
                "required": "same contact point and modulus*k^1.5 as the k = 1 fit"}
    if "params_initial_unchanged" in oid or "initial_contact_point" in oid:
        for k in (0.5, 2.0):
            for rtype in ("absolute", "relative cp"):
                cur = _synthetic()
                p = cur.get_initial_fit_parameters(model_key="hertz_para")
                p = copy.deepcopy(p)
                cp0 = p["contact_point"].value
                cur.fit_model(model_key="hertz_para", params_initial=p, gcf_k=k, range_type=rtype,
                              range_x=(0, 0) if rtype == "absolute" else (-2e-6, 2e-6))
                if p["contact_point"].value != cp0:
                    return {"confirmed": True, "input": {"gcf_k": k, "range_type": rtype, "contact_point": cp0},
                            "observed": {"caller's contact_point after the call": p["contact_point"].value,
                                         "ratio": p["contact_point"].value / cp0},
                            "required": "the caller's initial parameters are not modified"}
        return {"confirmed": False}
    if "no_stale_results" in oid:
        # the refinement pass of a contact-point-relative fit has no points in its interval
        cur = _synthetic()
        cur.apply_preprocessing(["compute_tip_position", "correct_force_offset", "correct_tip_offset"])
        cur.fit_model(model_key="hertz_para", range_type="relative cp", range_x=(-1e-9, 1e-9))
        fp = cur.fit_properties
        left = [k_ for k_ in ("params_fitted", "chi_sqr", "xmin", "xmax") if k_ in fp]
        return {"confirmed": (not fp["success"]) and bool(left),
                "input": {"range_type": "relative cp", "range_x": [-1e-9, 1e-9]},
                "observed": {"success": bool(fp["success"]), "result keys left behind": left},
                "required": "an unsuccessful fit shows no numbers of another pass"}
    if ".fit.no_exception" in oid:
        # segments with too few points for one / for every pass
        for rtype, rx in (("absolute", (0, 0)), ("relative cp", (-1e-6, 1e-6)), ("relative cp", (-1e-12, 1e-12))):
            for keep in (3, 2000):
                cur = _synthetic()
                sg = np.array(cur["segment"]).copy()
                if keep < 2000:
                    sg[keep:] = 1
                    cur["segment"] = sg
                try:
                    cur.fit_model(model_key="hertz_para", segment=0, range_type=rtype, range_x=rx)
                except BaseException as exc:
                    return {"confirmed": True, "input": {"range_type": rtype, "range_x": list(rx),
                                                         "samples in the segment": keep},
                            "observed": repr(exc)[:120], "required": "success False and NaN columns, no exception"}
        return {"confirmed": False}
    if "reported_expression" in oid:
        # an expression constraint on each parameter in turn; the reported parameters must satisfy it
        for k in (1.0, 0.5):
            for rtype, rx in (("absolute", (0, 0)), ("relative cp", (-2e-6, 1e-6))):
                for target, expr, dep in (("contact_point", "baseline*100", "baseline"), ("baseline", "E*1e-15", "E")):
                    cur = _synthetic()
                    cur.apply_preprocessing(["compute_tip_position", "correct_force_offset", "correct_tip_offset"])
                    p = copy.deepcopy(cur.get_initial_fit_parameters(model_key="hertz_para"))
                    p["baseline"].set(value=1e-11, vary=True)
                    p[target].set(expr=expr)
                    cur.fit_model(model_key="hertz_para", params_initial=p, gcf_k=k, range_type=rtype, range_x=rx)
                    pf = cur.fit_properties["params_fitted"]
                    want = pf["baseline"].value * 100 if target == "contact_point" else pf["E"].value * 1e-15
                    got = pf[target].value
                    if cur.fit_properties["success"] and (pf[target].expr != expr
                                                           or abs(got - want) > 1e-9 * max(abs(want), 1e-300)):
                        return {"confirmed": True,
                                "input": {"gcf_k": k, "range_type": rtype, "constraint": f"{target} := {expr}"},
                                "observed": {"reported " + target: got, "expression evaluates to": want,
                                             "reported expr": pf[target].expr},
                                "required": "the reported parameters satisfy the expression"}
        return {"confirmed": False}
    if "reported_contact_point" in oid or "fixed_parameters" in oid:
        for k in (0.5, 2.0):
            cur = _synthetic()
            p = copy.deepcopy(cur.get_initial_fit_parameters(model_key="hertz_para"))
            p["contact_point"].set(vary=False)
            cp0 = p["contact_point"].value
            cur.fit_model(model_key="hertz_para", params_initial=p, gcf_k=k)
            got = cur.fit_properties["params_fitted"]["contact_point"].value
            if abs(got - cp0) > 1e-12 * abs(cp0):
                return {"confirmed": True, "input": {"gcf_k": k, "contact_point fixed at": cp0},
                        "observed": got, "required": cp0}
        return {"confirmed": False}
    if "unsuccessful" in oid:
        xs = np.sort(tip[seg == 0])
        for rtype, rx in (("absolute", (xs[5], xs[7])), ("relative cp", (-5e-9, 5e-9))):
            cur = _synthetic()
            cur.fit_model(model_key="hertz_para", range_x=rx, range_type=rtype)
            if not cur.fit_properties["success"]:
                nf = int(np.sum(np.isfinite(cur["fit"]))) + int(np.sum(np.isfinite(cur["fit residuals"])))
                if nf:
                    return {"confirmed": True, "input": {"range_type": rtype, "range_x": [float(v) for v in rx]},
                            "observed": f"success False but {nf} finite values in the fit columns",
                            "required": "NaN columns"}
        return {"confirmed": False}
    if "fit_column" in oid or "residual_column" in oid or "chi_square" in oid or "xmin" in oid or "xmax" in oid \
            or "abscissa" in oid or "points_used" in oid:
        from nanite import model as nmodel
        for k in (1.0, 0.5):
            for W in (5e-7, 0):
                cur = _synthetic()
                cur.fit_model(model_key="hertz_para", gcf_k=k, weight_cp=W, range_x=(1.75e-5, 1.85e-5))
                fp = cur.fit_properties
                md = nmodel.models_available["hertz_para"]
                pf = copy.deepcopy(fp["params_fitted"])
                pf["contact_point"].set(value=pf["contact_point"].value * k)
                s0 = seg == 0
                want = np.full(tip.shape, np.nan)
                want[s0] = md.model(pf, tip[s0] * k)
                got = np.array(cur["fit"])
                used = np.array(cur["fit range"], dtype=bool)
                force = np.array(cur["force"])
                wres = np.full(tip.shape, np.nan)
                wres[s0] = md.residual(pf, tip[s0] * k, force[s0], W)
                case = {"gcf_k": k, "weight_cp": W}
                if not np.allclose(got, want, rtol=1e-12, atol=0, equal_nan=True):
                    return {"confirmed": True, "input": case, "observed": "fit column != model(reported parameters)"}
                if not np.allclose(np.array(cur["fit residuals"]), wres, rtol=1e-9, atol=0, equal_nan=True):
                    return {"confirmed": True, "input": case, "observed": "residual column != weighted residuals"}
                chi = float(np.sum(wres[used] ** 2))
                if not np.isclose(fp["chi_sqr"], chi, rtol=1e-9, atol=0):
                    return {"confirmed": True, "input": case, "observed": fp["chi_sqr"], "required": chi}
                if fp["xmin"] != tip[used].min() or fp["xmax"] != tip[used].max():
                    if not (np.isclose(fp["xmin"], tip[used].min(), rtol=1e-12) and np.isclose(fp["xmax"], tip[used].max(), rtol=1e-12)):
                        return {"confirmed": True, "input": case, "observed": [fp["xmin"], fp["xmax"]],
                                "required": [float(tip[used].min()), float(tip[used].max())]}
        return {"confirmed": False}
    return {"confirmed": False, "why": "no native scenario"}


# =================================================================== multi-pass fit, end to end
def unit_fit_multipass(prop, tier=None, seed=None):
    """Contact-point-relative fit with the REAL fit() AND the real _fit() (only lmfit.minimize and the model are
    under contract): what one pass leaves behind on the fitter object is what the next pass starts from, so state
    carried between passes (any attribute, not only the ones the modular units havoc) is covered.  Clauses are
    about the LAST pass: reported expressions, fixed parameters, the reported contact point."""
    S = Session(prop, "fit.multipass", "nanite.fit:IndentationFitter.fit")
    S.check_domain = False      # division-domain obligations belong to unit _fit
    st = {}

    def setup(I):
        o = _mk_fitter_init(I, S, st)
        a, b = z3.Real("range_a"), z3.Real("range_b")
        o.attrs.update(range_type="relative cp", range_x=[SReal(a), SReal(b)], optimal_fit_edelta=False)
        st["fp"].map.d["range_type"][1] = "relative cp"
        st["fp"].map.d["range_x"][1] = [SReal(a), SReal(b)]
        _install_model(I, st)
        _install_minimize(I, st)
        st["init_values"] = {nm: dict(e[1].attrs) for nm, e in st["pinit"].map.d.items()}
        # the fit mask / result columns are whatever __init__ made them (this is a whole fit, not one pass)
        f, _ = st["cls"].find("fit")
        return sx.BoundMethod(o, f), [], {}

    def post(S, out):
        I = S.I
        if out.kind != "return":
            S.fail("no_exception", f"raises {out.value.cls.name}")
            return
        S.ok("no_exception")
        fp, mins, k = st["fp"], st["mins"], st["k"]
        succ = fp.map.d.get("success")
        if not (succ is not None and succ[0] is True and succ[1] is True and mins):
            return          # last pass had too few points: nothing is reported (clauses of unit _fit)
        m = mins[-1]
        pf = fp.map.d.get("params_fitted")
        okpf = pf is not None and pf[0] is True and pf[1] is m["phat"]
        S.ensure("reported_parameters_are_those_of_the_last_pass", okpf, case={"passes": len(mins)})
        if not okpf:
            return
        rep = {nm: e[1].attrs for nm, e in m["phat"].map.d.items()}
        for nm in PN:
            e0 = st["init_values"][nm]["expr"]
            e1 = rep[nm].get("expr")
            S.ensure("reported_expression_is_the_initial_one",
                     (e0 is None and e1 is None) or (e0 is not None and e1 is not None and I.truth(I.equals(e0, e1))),
                     witness=nm, case={"parameter": nm, "initial": repr(e0), "reported": repr(e1), "passes": len(mins)})
            # every pass starts from settings that keep the user's constraints: expression, vary, bounds
            a = m["snapshot"][nm]
            init = st["pt"][nm]
            e_call = a.get("expr")
            S.ensure("constraints_handed_to_the_optimiser_in_the_last_pass",
                     ((e0 is None) == (e_call is None)) and I.valid(z3.And(
                         V.bterm(a["vary"]) == init["vary"] if e0 is None else z3.BoolVal(True),
                         V.rterm(a["min"]) == init["min"], V.rterm(a["max"]) == init["max"])),
                     witness=nm, case={"parameter": nm, "passes": len(mins)})
        if st["init_values"]["contact_point"]["expr"] is None:
            S.ensure("reported_contact_point_in_measured_units",
                     V.rterm(rep["contact_point"]["value"]) == m["ph"]["contact_point"]["value"] / k)

    S.run(setup, post, max_paths=600)
    return S.finish(replay=replay_fitter)


def units_for(prop):
    us = [Unit("_fit", unit__fit, prop=prop), Unit("fit", unit_fit, prop=prop)]
    if prop in ("C05", "C04"):
        us.append(Unit("_fit.two_passes", unit__fit_two_passes, prop=prop))
    # (unit_fit_multipass -- real fit() + real _fit() for four passes -- explores 160+ paths and took 29 min in the
    #  one run it was given; it is kept for reference but not registered)
    return us
