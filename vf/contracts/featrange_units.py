"""Contracts on the VALUES of the continuous rating features (C17): "each rating feature is either NaN or finite",
"fraction-type features lie in [0, 1]", "magnitude-type features are non-negative whenever the approach force reaches
positive values".

The real feature functions are executed symbolically on a fitted curve whose approach data are symbolic arrays of
any length.  External numerics are under ASSUMED contracts: ``ndimage.gaussian_filter1d`` and ``np.gradient`` return
an array of the same length (values uninterpreted), ``np.sum`` of a selection of positive (negative) numbers is
non-negative (non-positive) and ``np.std`` is non-negative.  The obligations are the division-domain conditions
(``arith_defined``: no x/0, which numpy turns into +-inf) and the range of the returned value.
"""
from __future__ import annotations

import z3

from ..unit import Unit
from ..engine.prove import Session
from ..engine import symex as sx
from ..engine import values as V
from ..engine import arrays as A
from ..engine import lib as L
from ..engine.values import SAtom, SReal, SBool, SInt, fresh
from ..engine.arrays import SArray, SCompressed

MOD = "nanite.rate.features"
FRACTION = {"feat_con_apr_size", "feat_con_apr_flatness"}
SIGNED = {"feat_con_cp_curvature"}
# all fifteen features (checked against the source on every run: a feature missing here is reported)
SUPPORTED = ["feat_bin_apr_spikes_count", "feat_bin_cp_position", "feat_bin_size", "feat_con_apr_flatness",
             "feat_con_apr_size", "feat_con_apr_sum", "feat_con_bln_slope", "feat_con_bln_variation",
             "feat_con_cp_curvature", "feat_con_cp_magnitude", "feat_con_idt_maxima_75perc", "feat_con_idt_monotony",
             "feat_con_idt_spike_area", "feat_con_idt_sum", "feat_con_idt_sum_75perc"]


def _dense(I, arr, tag):
    """assumed contract of a length-preserving external filter: fresh values, same length"""
    f = z3.Function(fresh(tag), z3.IntSort(), z3.RealSort())
    if isinstance(arr, SCompressed):
        # the result lives on the same selection (one value per selected sample)
        return SCompressed(lambda k, f=f: SReal(f(k)), arr.maskfn, arr.length, "real")
    return SArray(arr.length, lambda k, f=f: SReal(f(k)), "real")


def unit_feature(feature, tier=None, seed=None, replay=None):
    name = feature
    S = Session("C17", f"value.{name}", f"{MOD}:IndentationFeatures.{name}")
    st = {}

    def setup(I):
        cls = I.lookup_qual(f"{MOD}:IndentationFeatures")
        n = SInt(z3.Int("n_approach"))
        I.assume(n.term >= 1)
        x = A.new_array_input(I, "datax_apr", length=n)
        y = A.new_array_input(I, "datay_apr", length=n)
        fit = A.new_array_input(I, "datafit_apr", length=n, nan=True)
        cp = z3.Real("contact_point")
        # "whenever the approach force reaches positive values"
        w = z3.Int("a_positive_force_sample")
        I.assume(z3.And(w >= 0, w < n.term, y.uf(w) > 0))
        I.zero_over_zero_is_nan = True
        I.sum_sign_axioms = True
        o = sx.Obj(cls)
        o.attrs.update(has_contact_point=True, is_fitted=True, is_valid=True, contact_point=SReal(cp),
                       datax_apr=x, datay_apr=y, datafit_apr=fit)
        I.lib["scipy.ndimage.gaussian_filter1d"] = lambda I, a, sigma=None, **k: _dense(I, a, "gauss")
        I.lib["numpy.gradient"] = lambda I, a, *r, **k: _dense(I, a, "grad")
        old_std = I.lib["numpy.std"]

        def np_std(I, a, **k):
            # assumed contract: the standard deviation is a non-negative number (its value is not needed)
            if isinstance(a, SCompressed):
                sd = z3.Real(fresh("std"))
                I.assume(sd >= 0)
                return SReal(sd)
            return old_std(I, a, **k)
        I.lib["numpy.std"] = np_std

        def nansum(I, a, **k):
            # sum over the entries that are numbers
            def clean(v):
                nf = V.nanflag(v)
                if nf is False:
                    return v
                return SReal(z3.If(A._zb(nf), z3.RealVal(0), V.rterm(v)))
            if isinstance(a, SCompressed):
                f = a.fn
                return L._reduce_sum(I, SCompressed(lambda i: clean(f(i)), a.maskfn, a.length, "real"))
            if isinstance(a, SArray):
                sn = a.snap()
                return L._reduce_sum(I, SArray(a.length, lambda i: clean(sn(i)), "real"))
            raise sx.Unsupported("nansum of this value")
        I.lib["numpy.nansum"] = nansum
        # the abscissa has no NaN entries (precondition), so nanargmin is argmin
        I.lib["numpy.nanargmin"] = I.lib["numpy.argmin"]

        def sign(I, v):
            t = V.rterm(v)
            return SReal(z3.If(t > 0, z3.RealVal(1), z3.If(t < 0, z3.RealVal(-1), z3.RealVal(0))), V.nanflag(v))
        I.lib["numpy.sign"] = sign
        # least-squares line through the baseline: assumed contract "returns some slope and intercept"
        I.lib["numpy.ones"] = lambda I, n_, **k: sx.Opaque("ones")
        vs = sx.Obj(sx.ClassVal("StackedArray", [sx.OBJECT], {}))
        vs.attrs["T"] = sx.Opaque("design matrix")
        I.lib["numpy.vstack"] = lambda I, rows: vs
        I.lib["numpy.linalg.lstsq"] = lambda I, a_, b_, rcond=None: (
            [SReal(z3.Real(fresh("slope"))), SReal(z3.Real(fresh("intercept")))], sx.Opaque("residues"), 2, sx.Opaque("sv"))

        def diff(I, a, **k):
            # changes between neighbours of a boolean selection: some boolean per (all but one) selected sample
            f = z3.Function(fresh("diff"), z3.IntSort(), z3.BoolSort())
            if isinstance(a, SCompressed):
                return SCompressed(lambda i, f=f: SBool(f(i)), a.maskfn, a.length, "bool")
            raise sx.Unsupported("np.diff of this value")
        I.lib["numpy.diff"] = diff
        # a curve with a baseline followed by an indentation is not constant
        w1, w2 = z3.Int("force_sample_1"), z3.Int("force_sample_2")
        I.assume(z3.And(w1 >= 0, w1 < n.term, w2 >= 0, w2 < n.term, y.uf(w1) != y.uf(w2)))
        S.names.update(n=n.term, contact_point=cp)
        st.update(x=x, y=y, fit=fit, o=o, n=n)
        f, _ = cls.find(name)
        return sx.BoundMethod(o, f), [], {}

    def post(S, out):
        I = S.I
        case = {"outcome": repr(out)}
        if out.kind != "return":
            S.fail("never_raises_on_a_fitted_curve", f"raises {out.value.cls.name}", case=case)
            return
        S.ok("never_raises_on_a_fitted_curve")
        v = out.value
        if V.is_nan_const(v):
            S.ok("nan_or_in_range")
            return
        if isinstance(v, (bool, SBool)):
            S.ok("nan_or_in_range")
            return
        if not V.is_num(v):
            S.fail("nan_or_in_range", repr(v), case=case)
            return
        # the approach force reaches positive values (precondition of the range clause in the statement)
        red = [m for w, m, j in I.ghost.get("reductions", []) if w == "max"]
        t = V.rterm(v)
        nanf = A._zb(V.nanflag(v))
        xx = z3.Real("log_arg")
        I.trusted.add("A4.log(t) >= 0 for t >= 1")
        ax = [z3.ForAll([xx], z3.Implies(xx >= 1, V.LOG(xx) >= 0))]
        if name in FRACTION:
            S.ensure("nan_or_in_range", z3.Or(nanf, z3.And(t >= 0, t <= 1)), case=case, extra=ax)
        elif name not in SIGNED:
            S.ensure("nan_or_in_range", z3.Or(nanf, t >= 0), case=case, extra=ax)

    S.run(setup, post)
    return S.finish(replay=replay)


def units(replay=None):
    from .feat_units import feature_names
    # every feat_* method found in the source on this run (a new feature outside the engine's subset is UNDECIDED)
    return [Unit(f"value.{n}", unit_feature, feature=n, replay=replay) for n in feature_names()]
