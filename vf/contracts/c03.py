"""C03  Fit results depend only on data and current settings, not on history.

Deductive route for "every finite sequence of operations": a representation
invariant preserved by every public operation, on normal and exceptional exit.

  FitProperties.__setitem__ / reset / restore    whole-map postconditions, one case per key:
        a settings key whose value effectively changes drops every result key and stores the new
        value; an unchanged value changes nothing; model_key change clears params_initial; the
        documented range_x don't-care; result keys only touch themselves; unknown keys raise and
        change nothing; 'approach'/'retract' are stored as 0/1.
  Indentation.fit_model                            {I2} fit_model {I2 and "hash" in fp}; idempotence
        (no fitter constructed when nothing changed); results only ever come from a fitter built on
        the stored settings.
  Indentation.apply_preprocessing                  (see C06) drops results, rating and fit columns.
Bounded stand-in: operation histories on real curves against a fresh object (FIT is uninterpreted
in the proof).
"""
from __future__ import annotations

import os

import z3

from ..core import REPO, UnitResult, BoundedResult
from ..unit import Unit
from ..engine.prove import Session
from ..engine import symex as sx
from ..engine import values as V
from ..engine.values import SAtom, SReal, SBool, SInt
from . import fpstate as F

LEVEL = "other"
EXPLANATION = ("Deductive: the representation invariant (results present only together with the settings they "
               "were computed from) is proved preserved by FitProperties.__setitem__/reset/restore, "
               "Indentation.fit_model and apply_preprocessing on the real bodies for all states and arguments, "
               "with the fitter under an assumed contract (outputs are a function of its inputs). Bounded: "
               "operation histories on recorded curves compared bit-for-bit with a fresh object, because the "
               "numeric content of a fit is outside the contracts.")


def val_eq(I, x, y):
    """by-value equality of stored objects (Parameters are compared field by field)"""
    if isinstance(x, sx.Obj) and isinstance(y, sx.Obj) and x.cls.name == "Parameters" and y.cls.name == "Parameters":
        if list(x.map.d) != list(y.map.d):
            return False
        acc = True
        for k in x.map.d:
            a, b = x.map.d[k][1].attrs, y.map.d[k][1].attrs
            for f in ("name", "value", "vary", "expr", "min", "max"):
                acc = I.and_val(acc, I._truthval(I.equals(a[f], b[f])))
        return acc
    return I._truthval(I.equals(x, y))


# ------------------------------------------------------------------ FitProperties.__setitem__
def unit_setitem(tier=None, seed=None, prop="C03"):
    S = Session(prop, "FitProperties.__setitem__", "nanite.fit:FitProperties.__setitem__")
    st = {}

    def setup(I):
        o, vals, pres, fpd, res = F.sym_fp(I, "old")
        keys = fpd + res + ["not_a_key"]
        ki = I.choose([z3.Int("key_index") == i for i in range(len(keys))])
        if ki >= len(keys):
            raise sx.PathAbort()
        key = keys[ki]
        variant = ""
        if key in fpd:
            new = F.sym_value(I, key, "new")
            newobj = new.obj
            if key == "segment":
                vi = I.choose([z3.Int("segment_variant") == 0, z3.Int("segment_variant") == 1])
                if vi == 0:
                    variant, newobj = "approach", "approach"
                    I.assume(new.terms[""] == 0)
                elif vi == 1:
                    variant, newobj = "retract", "retract"
                    I.assume(new.terms[""] == 1)
            if key == "params_initial":
                if I.fork(z3.Bool("new_params_is_None")):
                    new.none, newobj, variant = True, None, "new=None"
                if I.fork(z3.Bool("old_params_is_None")):
                    vals[key].none = True
                    o.map.d[key][1] = None
                    variant += " old=None"
        elif key in res:
            new = F.Val(key, sx.Opaque("new_result"), {})
            newobj = new.obj
        else:
            new = F.Val(key, sx.Opaque("whatever"), {})
            newobj = new.obj
        snap = F.snapshot(o)
        cls = o.cls
        f, _ = cls.find("__setitem__")
        st.update(o=o, vals=vals, pres=pres, fpd=fpd, res=res, key=key, new=new, newobj=newobj, snap=snap,
                  variant=variant)
        return sx.BoundMethod(o, f), [key, newobj], {}

    def post(S, out):
        I = S.I
        o, vals, pres, fpd, res = st["o"], st["vals"], st["pres"], st["fpd"], st["res"]
        key, new, snap = st["key"], st["new"], st["snap"]
        case = {"key": key, "variant": st["variant"], "outcome": repr(out)}
        if key == "not_a_key":
            S.ensure("unknown_key_raises_FitKeyError", out.raises("FitKeyError"), case=case)
            S.ensure("unknown_key_changes_nothing", all(F.entry_unchanged(o, snap, k) for k in snap)
                     and set(k for k, e in o.map.d.items() if e[0] is not False) <= set(snap), case=case)
            return
        if out.kind != "return":
            S.fail(f"total.{key}", f"raises {out.value.cls.name}", case=case)
            return
        S.ok(f"total.{key}")
        if key in res:
            e = o.map.d.get(key)
            S.ensure("result_key_stored", e is not None and e[0] is True and e[1] is new.obj, case=case)
            S.ensure("result_key_touches_nothing_else",
                     all(F.entry_unchanged(o, snap, k) for k in snap if k != key), case=case)
            return
        # ---- settings key ----
        old = vals[key]
        had = pres[key]
        edelta_on = z3.And(pres["optimal_fit_edelta"], vals["optimal_fit_edelta"].terms[""])
        if key == "range_x":
            # documented don't-care: with the plateau search on, only the upper bound matters
            dontcare = z3.And(edelta_on, had, old.terms["hi"] == new.terms["hi"])
            relevant_same = z3.And(had, z3.Or(F.eq_term(old, new), dontcare))
        else:
            dontcare = z3.BoolVal(False)
            relevant_same = z3.And(had, F.fit_relevant_eq(old, new))
        fully_same = z3.And(had, F.eq_term(old, new))
        e = o.map.d.get(key)
        # (1) the stored value is the new one (by value), unless the don't-care applied
        stored_ok = False
        if e is not None and e[0] is not False:
            sv = val_eq(I, e[1], new.obj if st["newobj"] is not None else None) if not new.none else (e[1] is None)
            if key == "segment" and st["variant"]:
                sv = val_eq(I, e[1], 0 if st["variant"] == "approach" else 1)
            stored_ok = z3.And(F.presence_term(o, key), V.bterm(sv)) if not isinstance(sv, bool) else \
                (F.presence_term(o, key) if sv else False)
        if stored_ok is False:
            S.fail(f"stores_new_value.{key}", "value not stored", case=case)
        else:
            S.ensure(f"stores_new_value.{key}", z3.Implies(z3.Not(dontcare), stored_ok))
        if key == "segment" and st["variant"]:
            S.ensure("segment_name_normalised", stored_ok)
        # (2) a setting that effectively changed leaves no result key behind
        for r in res:
            S.ensure(f"results_dropped_when_changed.{key}",
                     z3.Implies(z3.Not(relevant_same), z3.Not(F.presence_term(o, r))))
        # (3) an unchanged value changes nothing at all
        if all(F.entry_unchanged(o, snap, k) for k in snap if k != key):
            S.ok(f"unchanged_value_changes_nothing.{key}")
        else:
            S.ensure(f"unchanged_value_changes_nothing.{key}", z3.Not(fully_same))
        # (4) other settings are never touched (model_key change clears params_initial)
        for k in fpd:
            if k == key:
                continue
            if key == "model_key" and k == "params_initial":
                ep = o.map.d.get(k)
                cleared = ep is not None and ep[0] is True and ep[1] is None
                if not F.entry_unchanged(o, snap, k):
                    S.ensure("model_key_change_clears_params_initial", cleared, case=case)
                    S.ensure("params_initial_kept_when_model_key_same", z3.Not(relevant_same))
                else:
                    S.ensure("model_key_change_clears_params_initial", relevant_same)
                continue
            S.ensure(f"other_settings_untouched.{key}", F.entry_unchanged(o, snap, k),
                     case=dict(case, touched=k))

    S.run(setup, post)
    return S.finish(replay=replay_setitem)


def replay_setitem(ob):
    """native: FitProperties with a result key, then the assignment named in the counter-model"""
    import copy
    import lmfit
    from nanite.fit import FitProperties, FP_DEFAULT, FP_RESULTS
    clause = ob.oid.split("__setitem__.", 1)[-1]
    key = clause.split(".", 1)[1] if "." in clause else (ob.model or {}).get("key")
    if clause.startswith("segment_name"):
        key = "segment"
    if clause.startswith("model_key_change") or clause.startswith("params_initial_kept"):
        key = "model_key"

    def params(emax=10.0):
        p = lmfit.Parameters()
        p.add("E", value=1.0, min=0, max=emax)
        p.add("contact_point", value=0.0)
        return p
    if key == "range_x":
        # don't-care only with the plateau search on
        fp = FitProperties()
        for k, v in FP_DEFAULT.items():
            dict.__setitem__(fp, k, copy.deepcopy(v))
        dict.__setitem__(fp, "range_x", [0, 1])
        dict.__setitem__(fp, "hash", "stale")
        fp["range_x"] = [5, 1]
        if fp["range_x"] != [5, 1] or "hash" in fp:
            return {"confirmed": True, "input": "range_x [0,1] -> [5,1] with optimal_fit_edelta False",
                    "observed": {"stored": fp["range_x"], "hash kept": "hash" in fp},
                    "required": "new range stored and results dropped"}
    if key == "model_key":
        fp = FitProperties()
        dict.__setitem__(fp, "model_key", "hertz_para")
        dict.__setitem__(fp, "params_initial", params())
        fp["model_key"] = "hertz_cone"
        if fp.get("params_initial") is not None:
            return {"confirmed": True, "input": "model_key hertz_para -> hertz_cone",
                    "observed": "params_initial kept", "required": "params_initial reset to None"}
    alt = {"model_key": ("hertz_para", "hertz_cone"), "optimal_fit_edelta": (False, True),
           "optimal_fit_num_samples": (100, 7), "preprocessing": (["a"], ["a", "b"]),
           "preprocessing_options": ({}, {"a": {"m": 1}}), "range_type": ("absolute", "relative cp"),
           "range_x": ([0, 1], [0, 2]), "segment": (0, 1), "weight_cp": (1e-6, 2e-6), "gcf_k": (1.0, 0.5),
           "x_axis": ("tip position", "time"), "y_axis": ("force", "height (measured)"),
           "method": ("leastsq", "nelder"), "method_kws": ({}, {"max_nfev": 3})}
    trials = []
    if key == "params_initial":
        for field, mk in (("value", lambda: _mod(params(), "E", value=2.0)), ("max", lambda: params(emax=5.0)),
                          ("min", lambda: _mod(params(), "E", min=-1.0)), ("vary", lambda: _mod(params(), "E", vary=False)),
                          ("expr", lambda: _mod(params(), "contact_point", expr="E"))):
            trials.append((params(), mk(), field))
    elif key in alt:
        trials.append((alt[key][0], alt[key][1], key))
        # small but real changes (settings are in metres / dimensionless; nothing is "close enough to be the same")
        small = {"weight_cp": [(5e-7, 5.05e-7), (1e-8, 0)], "gcf_k": [(1.0, 1.000001)],
                 "range_x": [([0, 0], [-1e-8, 1e-8]), ([-1.5e-6, 0], [-1.5e-6, 8e-9])],
                 "optimal_fit_num_samples": [(100000, 100001)]}
        for o_, n_ in small.get(key, []):
            trials.append((o_, n_, key))
    for old, new, what in trials:
        fp = FitProperties()
        for k, v in FP_DEFAULT.items():
            dict.__setitem__(fp, k, copy.deepcopy(v))
        dict.__setitem__(fp, key, old)
        for r in FP_RESULTS:
            dict.__setitem__(fp, r, "stale")
        try:
            fp[key] = new
        except BaseException as exc:
            return {"confirmed": True, "input": {"key": key, "old": repr(old)[:80], "new": repr(new)[:80]},
                    "observed": repr(exc)[:120], "required": "no exception"}
        left = [r for r in FP_RESULTS if r in fp]
        if "results_dropped" in clause and left:
            return {"confirmed": True, "input": {"key": key, "changed": what},
                    "observed": f"result keys kept: {left}", "required": "results dropped when a setting changes"}
        if "model_key_change" in clause and fp.get("params_initial") is not None:
            return {"confirmed": True, "input": {"key": key}, "observed": "params_initial kept after model change",
                    "required": "params_initial reset to None"}
        if key == "segment":
            fp2 = FitProperties()
            fp2["segment"] = "approach"
            fp3 = FitProperties()
            fp3["segment"] = "retract"
            if fp2["segment"] != 0 or fp3["segment"] != 1 or isinstance(fp2["segment"], str):
                return {"confirmed": True, "input": "segment='approach'/'retract'",
                        "observed": [fp2["segment"], fp3["segment"]], "required": [0, 1]}
        if "stores_new_value" in clause and fp.get(key) != new:
            return {"confirmed": True, "input": {"key": key}, "observed": repr(fp.get(key))[:80],
                    "required": repr(new)[:80]}
    return {"confirmed": False, "tried": len(trials)}


def _mod(p, name, **kw):
    p[name].set(**kw)
    return p


# ------------------------------------------------------------------ reset / restore
def unit_reset(tier=None, seed=None):
    S = Session("C03", "FitProperties.reset", "nanite.fit:FitProperties.reset")
    st = {}

    def setup(I):
        o, vals, pres, fpd, res = F.sym_fp(I, "old")
        o.map.d["stray"] = [z3.Bool("old_has_stray"), sx.Opaque("stray")]
        st.update(o=o, snap=F.snapshot(o), fpd=fpd, res=res)
        f, _ = o.cls.find("reset")
        return sx.BoundMethod(o, f), [], {}

    def post(S, out):
        o, snap = st["o"], st["snap"]
        S.ensure("returns", out.kind == "return")
        for k in st["fpd"]:
            S.ensure("settings_kept", F.entry_unchanged(o, snap, k), case={"key": k})
        for k in st["res"] + ["stray"]:
            S.ensure("everything_else_removed", z3.Not(F.presence_term(o, k)), witness=k)

    S.run(setup, post)
    return S.finish()


def unit_restore(tier=None, seed=None):
    S = Session("C03", "FitProperties.restore", "nanite.fit:FitProperties.restore")
    st = {}

    def setup(I):
        o, vals, pres, fpd, res = F.sym_fp(I, "old")
        props = sx.SDict([("weight_cp", SReal(z3.Real("p_weight_cp"))), ("hash", sx.Opaque("p_hash")),
                          ("model_key", SAtom(z3.Int("p_model_key")))])
        st.update(o=o, snap=F.snapshot(o), props=props, fpd=fpd, res=res)
        f, _ = o.cls.find("restore")
        return sx.BoundMethod(o, f), [props], {}

    def post(S, out):
        o, snap, props = st["o"], st["snap"], st["props"]
        S.ensure("returns", out.kind == "return")
        for k, e in props.d.items():
            got = o.map.d.get(k)
            S.ensure("given_keys_stored", got is not None and got[0] is True and got[1] is e[1], case={"key": k})
        for k in snap:
            if k not in props.d:
                S.ensure("no_key_removed_or_changed", F.entry_unchanged(o, snap, k), case={"key": k})

    S.run(setup, post)
    return S.finish()


CANARIES = [
    dict(name="xmax missing from FP_RESULTS-style cleanup (reset keeps it)", file="fit.py",
         old="            if key not in FP_DEFAULT:\n                self.pop(key)",
         new="            if key not in FP_DEFAULT and key != \"xmax\":\n                self.pop(key)",
         expect="FitProperties"),
    dict(name="params_initial change does not reset", file="fit.py",
         old="                    if s1 != s2:\n                        self.reset()\n                        break",
         new="                    if s1 != s2:\n                        break", expect="results_dropped_when_changed.params_initial"),
    dict(name="model_key change keeps params_initial", file="fit.py",
         old="                    self[\"params_initial\"] = None", new="                    pass",
         expect="model_key_change_clears_params_initial"),
    dict(name="range_x don't-care also without plateau search", file="fit.py",
         old="                    if (\"optimal_fit_edelta\" in self and\n                        self[\"optimal_fit_edelta\"] and\n                        \"range_x\" in self and",
         new="                    if (\"range_x\" in self and", expect="range_x"),
    dict(name="segment name not normalised", file="fit.py", old="            if value == \"approach\":\n                value = 0",
         new="            if value == \"approach\":\n                value = \"approach\"", expect="segment"),
]


def unit_canaries(tier=None, seed=None):
    from ..selftest import run_canaries
    return run_canaries("C03", CANARIES)


def units(tier):
    us = [Unit("FitProperties.__setitem__", unit_setitem), Unit("FitProperties.reset", unit_reset),
          Unit("FitProperties.restore", unit_restore)]
    from . import indent_units as IU
    us += IU.units_for("C03")
    # apply_preprocessing relies on preproc.apply to restart from the raw data for EVERY pipeline (contract shared
    # with C06)
    from . import c06
    us.append(Unit("preproc.apply", c06.unit_apply_options, prop="C03"))
    if tier == "thorough" and not os.environ.get("VF_NO_CANARIES") and str(REPO) == "/repo":
        us.append(Unit("selftest.canaries", unit_canaries))
    return us


def replay_file(path):
    import json
    d = json.load(open(path))

    class _O:
        model = d.get("model")
        oid = d["obligation"]
        witness = d.get("witness", "")
    if "FitProperties.__setitem__" in d["obligation"]:
        r = replay_setitem(_O)
    else:
        from . import indent_units as IU
        r = IU.replay(_O)
    print(json.dumps(r, indent=1, default=str))
    return 1 if r.get("confirmed") else 0
