"""C02  Shipped models evaluate their published contact-mechanics formulas.

Contract on each real ``model_func`` (pointwise-array domain, symbolic length):
  requires  parameters inside the bounds declared by get_parameter_defaults
            (+ R>0 for the sphere series, E_S>0 for Clifford: the published
            formula itself divides by them)
  ensures   len(result) = len(delta); delta not modified;
            cp - delta[i] <= 0  =>  result[i] = baseline exactly (not NaN);
            cp - delta[i] >  0  =>  result[i] = baseline + published closed form;
            no division by zero (arith_defined).
The 1e-4 clause (truncated series vs exact implicit Sneddon solution) involves
ln(); no contract reaches it -> bounded numeric stand-in (labelled bounded).
"""
from __future__ import annotations

import math
import random
import time

import z3

import os

from ..core import UnitResult, BoundedResult, REPO
from ..unit import Unit
from ..engine.prove import Session, jfloat
from ..engine import arrays as A
from ..engine import values as V
from ..engine.values import SReal
from . import models as M

LEVEL = "proof"
EXPLANATION = ("Deductive: for each of the 5 shipped model functions the real body is symbolically "
               "executed over a symbolic-length array and unconstrained in-bounds parameters; the "
               "pointwise postcondition (published formula) is discharged by z3. Bounded (not counted "
               "as proved): the 1e-4 distance between the truncated series and the exact implicit "
               "Sneddon sphere solution on a 2001-point grid of delta/R in (0,1].")


def unit_model(key, tier, seed, prop="C02"):
    S = Session(prop, f"model.{key}", M.target(key))
    bounds, order = M.read_bounds(key)
    st = {}

    def setup(I):
        f = I.lookup_qual(M.target(key))
        delta = A.new_array_input(I, "delta")
        P = {n: z3.Real(n) for n in order}
        I.assume(M.bounds_term(P, bounds))
        for c in M.extra_requires(key, P):
            I.assume(c)
        st.update(delta=delta, P=P)
        S.names.update({n: P[n] for n in order})
        kw = {n: SReal(P[n]) for n in order}
        return f, [delta], kw

    def post(S, out):
        I = S.I
        if out.kind != "return":
            S.fail("no_exception", f"raises {out.value.cls.name}")
            return
        S.ok("no_exception")
        res, delta, P = out.value, st["delta"], st["P"]
        k = z3.Int("k")
        n = delta.len_term()
        dk = delta.uf(k)
        S.names.update({"k": k, "len": n, "delta_k": dk})
        inr = z3.And(k >= 0, k < n)
        r = P["contact_point"] - dk
        if not isinstance(res, A.SArray):
            S.fail("shape", "result is not an array")
            return
        val = res.at(k)
        vt = V.rterm(val)            # (an element may be a concrete number, e.g. of an array of zeros)
        S.names["result_k"] = vt
        S.ensure("shape", res.len_term() == n)
        S.ensure("frame.delta", not any(m is delta for m in I.mutations))
        not_nan = z3.Not(A._zb(V.nanflag(val)))
        S.ensure("out_of_contact", z3.Implies(z3.And(inr, r <= 0),
                                              z3.And(vt == P["baseline"], not_nan)),
                 extra=M.spec_axioms(key, P, r))
        spec = M.contact_term(key, P, r) + P["baseline"]
        S.ensure("in_contact", z3.Implies(z3.And(inr, r > 0), z3.And(vt == spec, not_nan)),
                 extra=M.spec_axioms(key, P, r))

    S.run(setup, post)
    return S.finish(replay=lambda ob: replay_model(key, ob))


def replay_model(key, ob):
    """evaluate the REAL function at the counter-model and compare with the published
    formula in plain floats (clause by clause); fall back to random in-bounds inputs"""
    import numpy as np
    import importlib
    mod = importlib.import_module(f"nanite.model.{M.MODELS[key][0]}")
    fn = getattr(mod, M.MODELS[key][1])
    bounds, order = M.read_bounds(key)
    clause = ob.oid.split(".", 3)[-1] if hasattr(ob, "oid") else "in_contact"
    rng = random.Random(1)
    cands = []
    m = ob.model or {}
    try:
        p = {n: jfloat(m[n]) for n in order}
        cands.append((p, jfloat(m["delta_k"])))
    except Exception:
        pass
    for _ in range(300):
        p = M.typical_params(key, rng)
        depth = 10 ** rng.uniform(-9, math.log10(max(p.get("R", 1e-5), 1e-7)))
        if clause == "out_of_contact" or (clause not in ("in_contact", "arith_defined") and rng.random() < .5):
            depth = -depth if rng.random() < .8 else 0.0
        cands.append((p, p["contact_point"] - depth))
    tried = 0
    for p, d in cands:
        tried += 1
        inp = np.array([d, d + 1e-7, d - 1e-7], dtype=float)
        keep = inp.copy()
        try:
            with np.errstate(all="ignore"):
                out = fn(inp, **p)
            got = float(out[0])
            want = M.force_float(key, p, d)
        except Exception as exc:
            return {"confirmed": True, "input": {"params": p, "delta": d}, "observed": repr(exc),
                    "required": "no exception", "tried": tried}
        if clause == "frame.delta":
            if not np.array_equal(inp, keep) or out is inp or np.shares_memory(out, inp):
                return {"confirmed": True, "input": {"params": p, "delta": keep.tolist()},
                        "observed": "input array written to / returned", "required": "delta not modified",
                        "tried": tried}
            continue
        if clause == "shape":
            if np.shape(out) != inp.shape:
                return {"confirmed": True, "observed": np.shape(out), "required": inp.shape, "tried": tried}
            continue
        in_contact = p["contact_point"] - d > 0
        if clause == "out_of_contact" and in_contact:
            continue
        if clause == "in_contact" and not in_contact:
            continue
        scale = max(abs(want - p["baseline"]), abs(p["baseline"]), 1e-300)
        if in_contact:
            bad = (got != got) or abs(got - want) > 1e-9 * scale
        else:
            bad = got != p["baseline"]
        if clause == "arith_defined":
            bad = not math.isfinite(got)
        if bad:
            return {"confirmed": True, "input": {"params": p, "delta": d}, "observed": got,
                    "required": want, "tried": tried, "clause": clause,
                    "how": "real model_func vs published closed form (floats, rel tol 1e-9; exact off contact)"}
    return {"confirmed": False, "tried": tried}


# ------------------------------------------------------------------ bounded stand-in: 1e-4 clause
def sneddon_exact(E, R, nu, delta):
    """exact Sneddon sphere: delta = a/2 ln((R+a)/(R-a));
    F = E/(1-nu^2) * ((R^2+a^2)/2 ln((R+a)/(R-a)) - a R); a solved by bisection"""
    lo, hi = 0.0, R * (1 - 1e-16)
    f = lambda a: a / 2 * math.log((R + a) / (R - a)) - delta
    for _ in range(200):
        mid = (lo + hi) / 2
        if f(mid) > 0:
            hi = mid
        else:
            lo = mid
    a = (lo + hi) / 2
    return E / (1 - nu ** 2) * ((R * R + a * a) / 2 * math.log((R + a) / (R - a)) - a * R)


def unit_dtype_bound(tier, seed):
    """A1 (reals) hides the element type of the indentation array: "every indentation array" includes integer and
    single-precision arrays; the force must be the one for the same values in double precision (bounded stand-in)"""
    import importlib
    import numpy as np
    t0 = time.time()
    res = UnitResult(unit="bounded.array_dtypes")
    problems, ne = [], 0
    for key, (modname, fname) in M.MODELS.items():
        mod = importlib.import_module(f"nanite.model.{modname}")
        fn = getattr(mod, fname)
        defaults = mod.get_parameter_defaults()
        kw = {k: defaults[k].value for k in defaults}
        kw.update(contact_point=0, baseline=1)
        for big in ("R", "E", "E_S", "E_L", "h"):
            if big in kw:
                kw[big] = {"R": 2.0, "h": 5.0}.get(big, 1e3)
        ref = np.array([3, 1, 0, -1, -2], dtype=float)
        want = fn(delta=ref.copy(), **kw)
        for dt in (np.int64, np.int32, np.float32):
            got = fn(delta=ref.astype(dt), **kw)
            ne += 1
            if not np.allclose(np.asarray(got, dtype=float), want, rtol=1e-6, atol=0):
                problems.append({"model": key, "dtype": np.dtype(dt).name, "delta": ref.tolist(),
                                 "got": np.asarray(got, dtype=float).tolist(), "want": want.tolist()})
    first = problems[0] if problems else None
    res.bounded.append(BoundedResult(
        bid="C02.bounded.force_independent_of_array_dtype", ok=not problems, evaluations=ne, distinct=ne,
        bound="5 shipped model functions x indentation [3, 1, 0, -1, -2] as int64 / int32 / float32 against float64 "
              "(R = 2, contact point 0, baseline 1)",
        detail="same force for every element type" if not problems else
        f"{first['model']} with a {first['dtype']} array: {first['got']} instead of {first['want']}"[:300],
        samples=[], failing_input=first, witness="" if not problems else f"{first['model']}:{first['dtype']}",
        time_s=round(time.time() - t0, 2)))
    return res


def unit_sneddon_bound(tier, seed):
    import numpy as np
    from nanite.model import model_sneddon_spherical_approximation as ms
    t0 = time.time()
    res = UnitResult(unit="bounded.sneddon_1e-4")
    npts = 2001 if tier == "quick" else 20001
    worst, worst_in, n_eval = 0.0, None, 0
    samples = []
    ok = True
    for (E, R, nu) in [(3e3, 10e-6, 0.5), (1.0, 1e-7, 0.0), (1e5, 1e-4, 0.3), (10.0, 5e-6, 0.45)]:
        xs = np.linspace(0, 1, npts)[1:]          # delta/R in (0, 1]
        delta = xs * R
        got = ms.hertz_sneddon_spherical_approx(-delta, E=E, R=R, nu=nu, contact_point=0, baseline=0)
        exact = np.array([sneddon_exact(E, R, nu, d) for d in delta])
        fmax = exact.max()
        err = np.abs(got - exact) / fmax
        n_eval += len(xs)
        i = int(np.argmax(err))
        if err[i] > worst:
            worst, worst_in = float(err[i]), {"E": E, "R": R, "nu": nu, "delta_over_R": float(xs[i])}
        samples.append({"E": E, "R": R, "nu": nu, "max_rel_err_of_Fmax": float(err.max())})
        if not np.all(err <= 1e-4):
            ok = False
    # cross-check with the installed exact model, when present
    try:
        from nanite_model_sneddon_spher import model_sneddon_spherical as mex
        E, R, nu = 3e3, 10e-6, 0.5
        delta = np.linspace(0, 1, 401)[1:] * R
        ex = mex.model_func(-delta, E=E, R=R, nu=nu, contact_point=0, baseline=0) \
            if hasattr(mex, "model_func") else None
        if ex is not None:
            ap = ms.hertz_sneddon_spherical_approx(-delta, E=E, R=R, nu=nu, contact_point=0, baseline=0)
            e2 = float(np.max(np.abs(ap - ex)) / np.max(ex))
            samples.append({"oracle": "nanite_model_sneddon_spher", "max_rel_err_of_Fmax": e2})
            n_eval += len(delta)
            if e2 > 1e-4:
                ok = False
                worst, worst_in = e2, {"oracle": "nanite_model_sneddon_spher"}
    except Exception as exc:  # oracle unavailable: bisection oracle stands alone
        samples.append({"oracle": "nanite_model_sneddon_spher unavailable", "why": repr(exc)[:80]})
    res.bounded.append(BoundedResult(
        bid="C02.bounded.sneddon_series_within_1e-4", ok=ok, evaluations=n_eval, distinct=n_eval,
        bound=f"{npts - 1}-point grid of delta/R in (0,1] x 4 parameter corners; oracle: bisection of the "
              "implicit Sneddon equation (+ installed exact model)",
        detail=f"worst |series-exact|/max(F) = {worst:.3e} (limit 1e-4) at {worst_in}",
        samples=samples, failing_input=None if ok else worst_in, time_s=round(time.time() - t0, 3)))
    res.assumptions.append("bounded stand-in: the exact Sneddon solution is transcendental (ln); "
                           "not decided deductively")
    return res


CANARIES = [
    dict(name="series-coefficient 1/840->1/804", file="model/model_sneddon_spherical_approximation.py",
         old="- 1/840*(root[pos]/R)**2", new="- 1/804*(root[pos]/R)**2", expect="sneddon_spher_approx.in_contact"),
    dict(name="contact mask flipped (cone)", file="model/model_conical_indenter.py",
         old="pos = root > 0", new="pos = root < 0", expect="hertz_cone"),
    dict(name="baseline dropped (pyramid)", file="model/model_hertz_three_sided_pyramid.py",
         old="return aa*bb + baseline", new="return aa*bb", expect="hertz_pyr3s"),
    dict(name="exponent 3/2->2 (paraboloid)", file="model/model_hertz_paraboloidal.py",
         old="bb[pos] = (root[pos])**(3/2)", new="bb[pos] = (root[pos])**(2)", expect="hertz_para.in_contact"),
    dict(name="E_L/E_S inverted (Clifford)", file="model/model_power_layer_clifford_2009.py",
         old="* (E_L/E_S)**m", new="* (E_S/E_L)**m", expect="power_layer_clifford_2009.in_contact"),
    dict(name="in-place write to the caller's delta array", file="model/model_hertz_paraboloidal.py",
         old="aa = 4/3 * E/(1-nu**2)*np.sqrt(R)", new="aa = 4/3 * E/(1-nu**2)*np.sqrt(R) ; delta -= contact_point", expect="frame.delta"),
]


def unit_canaries(tier, seed):
    from ..selftest import run_canaries
    return run_canaries("C02", CANARIES)


def units(tier):
    us = [Unit(f"model.{k}", unit_model, key=k) for k in M.MODELS]
    us.append(Unit("bounded.sneddon_1e-4", unit_sneddon_bound))
    us.append(Unit("bounded.array_dtypes", unit_dtype_bound))
    # "each shipped model returns ..." is what NaniteFitModel.model returns: the direction-agnostic wrapper around the
    # model function is part of the path (contract shared with C13)
    from . import resid
    us += [Unit("model_direction_agnostic", resid.unit_mda, prop="C02", which="mda"),
           Unit("default_modeling_wrapper", resid.unit_mda, prop="C02", which="modeling_wrapper")]
    if tier == "thorough" and not os.environ.get("VF_NO_CANARIES") and str(REPO) == "/repo":
        us.append(Unit("selftest.canaries", unit_canaries))
    return us


def replay_file(path):
    import json
    d = json.load(open(path))
    oid = d["obligation"]
    key = oid.split(".")[2] if oid.split(".")[1] == "model" else None
    if key is None:
        print("bounded replay: re-run the check")
        return 0

    class _O:
        model = d.get("model")
        oid = d["obligation"]
    r = replay_model(key, _O)
    print(json.dumps(r, indent=1, default=str))
    return 1 if r.get("confirmed") else 0
