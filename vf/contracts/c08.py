"""C08  Contact-point estimators return a usable, scale-independent index.

Within reach of contracts (real bodies, symbolic-length arrays, reductions by their defining axioms):
  compute_preproc_clip_approach   result = copy of force[:argmax(force)]; input untouched
  compute_poc                     unknown method -> ValueError; otherwise (estimators under their contract:
                                  NaN or an index of the array they were given) an integer index of the
                                  ORIGINAL force array; NaN -> middle of the clipped data; input untouched
  poc_deviation_from_baseline     NaN or the FIRST index whose force exceeds mean + 2*max deviation of the
                                  first 10 %; invariant under f -> a*f + b (a > 0) by self-composition
  poc_frechet_direct_path         an index of the array; total on every non-empty array; invariant under
                                  f -> a*f + b
  every estimator                 total on degenerate arrays (bounded + deductive for the two closed forms)
Out of reach (Nelder-Mead fits, filters): bounded stand-in for all six estimators.
"""
from __future__ import annotations

import os

import z3

from ..core import REPO, UnitResult, BoundedResult
from ..unit import Unit
from ..engine.prove import Session
from ..engine import symex as sx
from ..engine import values as V
from ..engine import arrays as A
from ..engine import lib as L
from ..engine.values import SAtom, SReal, SBool, SInt, fresh
from ..engine.arrays import SArray
from ..engine.lmfit_model import sym_parameters

LEVEL = "other"
EXPLANATION = ("Deductive: index-range, fallback (NaN or an estimate outside the data), frame and totality clauses of "
               "compute_poc with every estimator under the contract 'NaN or some integer'; the clip; totality and "
               "scale/offset invariance (self-composition) of the two closed-form estimators; the three piecewise "
               "fits up to and after the optimiser (no 0/0 fed to lmfit.minimize, same optimisation problem for f "
               "and a*f+b) for arrays of any length. Bounded: all six estimators on synthetic curves (invariance, "
               "accuracy within a stated fraction) and degenerate arrays; what Nelder-Mead returns and the gradient "
               "estimator (scipy filters) are external numerics.")
MOD = "nanite.poc"
METHODS = ["deviation_from_baseline", "fit_constant_line", "fit_constant_polynomial", "fit_line_polynomial",
           "frechet_direct_path", "gradient_zero_crossing"]


def unit_clip(tier=None, seed=None):
    S = Session("C08", "clip_approach", f"{MOD}:compute_preproc_clip_approach")
    st = {}

    def setup(I):
        force = A.new_array_input(I, "force")
        I.assume(force.len_term() >= 1)
        st.update(force=force)
        return I.lookup_qual(f"{MOD}:compute_preproc_clip_approach"), [force], {}

    def post(S, out):
        I = S.I
        if out.kind != "return" or not isinstance(out.value, SArray):
            S.fail("returns_array", repr(out))
            return
        r, f = out.value, st["force"]
        n = f.len_term()
        k, j = z3.Int("k"), z3.Int("j")
        m = r.len_term()
        S.names.update(n=n, k=k, clipped_len=m)
        S.ensure("only_the_part_before_the_force_maximum",
                 z3.And(m >= 0, m < n, z3.ForAll([j], z3.Implies(z3.And(j >= 0, j < n), f.uf(j) <= f.uf(m))),
                        z3.ForAll([j], z3.Implies(z3.And(j >= 0, j < m), f.uf(j) < f.uf(m)))))
        S.ensure("values_unchanged", z3.Implies(z3.And(k >= 0, k < m), V.rterm(r.at(k)) == f.uf(k)))
        S.ensure("frame.force", not any(mm is f for mm in I.mutations) and r.root() is not f)

    S.run(setup, post)
    return S.finish()


def unit_compute_poc(tier=None, seed=None):
    S = Session("C08", "compute_poc", f"{MOD}:compute_poc")
    st = {}

    def setup(I):
        st.pop("given", None)
        mod = I.module(MOD)
        force = A.new_array_input(I, "force")
        I.assume(force.len_term() >= 1)
        mi = I.choose([z3.Int("method_choice") == i for i in range(len(METHODS) + 1)])
        if mi > len(METHODS):
            raise sx.PathAbort()
        method = METHODS[mi] if mi < len(METHODS) else "no_such_method"
        rd = I.fork(z3.Bool("ret_details"))

        def est(I, fv, args, kwargs):
            # contract of every estimator: NaN or SOME integer -- not necessarily an index of the array it was
            # given: the piecewise fits leave x0 unbounded (natively -382 for a curve that starts in contact),
            # so compute_poc itself has to establish the index range
            arr = args[0]
            st["given"] = arr
            st["est_kwargs"] = kwargs
            j = z3.Int("estimate")
            if I.fork(z3.Bool("estimate_is_nan")):
                cp = V.NAN
            else:
                cp = SInt(j)
            return (cp, sx.SDict()) if kwargs.get("ret_details") else cp
        for fn in mod.env.vars["POC_METHODS"]:
            I.contracts[f"{MOD}:{fn.qualname}"] = est
        st.update(force=force, method=method, rd=rd)
        return mod.env.vars["compute_poc"], [], dict(force=force, method=method, ret_details=rd)

    def post(S, out):
        I = S.I
        f, method = st["force"], st["method"]
        case = {"method": method, "ret_details": st["rd"], "outcome": repr(out)}
        if method == "no_such_method":
            S.ensure("unknown_method_raises_ValueError", out.raises("ValueError"), case=case)
            return
        if out.kind != "return":
            S.fail("total", f"raises {out.value.cls.name}", case=case)
            return
        S.ok("total")
        rv = out.value
        if st["rd"]:
            S.ensure("details_returned_when_asked", isinstance(rv, tuple) and len(rv) == 2
                     and isinstance(rv[1], sx.SDict) and rv[1].d.get("method", [0, None])[1] == method, case=case)
            rv = rv[0] if isinstance(rv, tuple) else rv
        n = f.len_term()
        S.names.update(n=n)
        if not isinstance(rv, (int, SInt)):
            S.fail("returns_an_integer_index", repr(rv), case=case)
            return
        t = V.iterm(rv)
        S.ensure("valid_index_of_the_force_array", z3.And(t >= 0, t < n), case=case)
        given = st.get("given")
        # (that the estimator is handed the part before the force maximum is the mechanism, not the property)
        S.ensure("estimator_called", given is not None, case=case)
        if given is not None:
            m = given.len_term()
            nanp = z3.Bool("estimate_is_nan")
            # documented fallback: the middle of the (clipped) data
            S.ensure("nan_falls_back_to_the_middle", z3.Implies(nanp, t == m / 2), case=case)
            e = z3.Int("estimate")
            inside = z3.And(e >= 0, e < m)
            S.ensure("estimate_passed_through", z3.Implies(z3.And(z3.Not(nanp), inside), t == e), case=case)
            S.ensure("estimate_outside_the_data_falls_back_to_the_middle",
                     z3.Implies(z3.And(z3.Not(nanp), z3.Not(inside)), t == m / 2), case=case)
        S.ensure("frame.force", not any(mm is f for mm in I.mutations), case=case)

    S.run(setup, post)
    return S.finish(replay=replay_poc)


def unit_deviation(tier=None, seed=None):
    S = Session("C08", "deviation_from_baseline", f"{MOD}:poc_deviation_from_baseline")
    st = {}

    def setup(I):
        force = A.new_array_input(I, "force")
        st.update(force=force)
        return I.lookup_qual(f"{MOD}:poc_deviation_from_baseline"), [force], {}

    def post(S, out):
        I = S.I
        if out.kind != "return":
            S.fail("total", f"raises {out.value.cls.name}")
            return
        S.ok("total")
        rv, f = out.value, st["force"]
        n = f.len_term()
        S.names.update(n=n)
        if V.is_nan_const(rv):
            S.ok("nan_or_index")
            return
        if not isinstance(rv, SInt):
            S.fail("nan_or_index", repr(rv))
            return
        t = rv.term
        S.ensure("nan_or_index", z3.And(t >= 0, t < n))
        # (which threshold the estimator uses -- documented as mean + 2 * max|baseline - mean| -- is not part of the
        # property; scale/offset independence is the relational unit below, accuracy is bounded)
        S.ensure("frame.force", not any(mm is f for mm in I.mutations))

    S.run(setup, post)
    return S.finish(replay=replay_poc)


def unit_relational(which, tier=None, seed=None):
    """self-composition: the estimator on f and on a*f + b (a > 0) in one path; results must agree"""
    name = {"dev": "poc_deviation_from_baseline", "frechet": "poc_frechet_direct_path"}[which]
    S = Session("C08", f"{name[4:]}.scale_offset_invariance", f"{MOD}:{name}")
    S.check_domain = False
    st = {}

    def setup(I):
        f = A.new_array_input(I, "force")
        a, b = z3.Real("a"), z3.Real("b")
        I.assume(a > 0)
        g = SArray(f.length, lambda i: SReal(a * f.uf(i) + b), "real", name="scaled_force")
        fn = I.lookup_qual(f"{MOD}:{name}")
        n = f.len_term()
        S.names.update(a=a, b=b, n=n)
        st["f"] = f
        if which == "dev":
            # trusted instance: the mean is linear,  mean(a f + b) = a mean(f) + b  (first 10 % of the curve)
            nb = z3.ToInt(z3.ToReal(n) * z3.RealVal("1/10"))
            cl = z3.simplify(z3.If(z3.If(nb > n, n, nb) > 0, z3.If(nb > n, n, nb), 0))
            rk = z3.Int("red_k")
            I.axiom("average-is-linear", L.AVG(z3.Lambda([rk], a * f.uf(rk + 0) + b), cl)
                    == a * L.AVG(z3.Lambda([rk], f.uf(rk + 0)), cl) + b)
        else:
            I.assume(n >= 1)

        def driver(I):
            return (I.call(fn, [f], {}), I.call(fn, [g], {}))
        return sx.Builtin("driver", driver), [], {}

    def post(S, out):
        if out.kind != "return":
            S.fail("total", repr(out))
            return
        r1, r2 = out.value
        isnan = lambda r: V.is_nan_const(r)
        if isinstance(r1, SInt) and isinstance(r2, SInt):
            S.names.update(index_f=r1.term, index_scaled=r2.term)
            hints = []
            if which == "frechet":
                # lemma chain: extrema of a*f+b are a*extrema(f)+b (from the defining axioms of min/max),
                # hence the normalised curves coincide
                red = S.I.ghost.get("reductions", [])
                mins = [m for w, m, j in red if w == "min"]
                maxs = [m for w, m, j in red if w == "max"]
                a, b = z3.Real("a"), z3.Real("b")
                if len(mins) >= 2 and len(maxs) >= 2:
                    for nm, (x1, x2) in (("min", (mins[0], mins[-1])), ("max", (maxs[0], maxs[-1]))):
                        fact = x2 == a * x1 + b
                        if S.ensure(f"lemma.{nm}_of_scaled_force", fact):
                            hints.append(fact)
                    # every further min / max symbol of the two calls (the code may evaluate an extremum once or
                    # several times) equals the first of its call -- each a consequence of the defining axioms;
                    # given to the pointwise lemma as hints when the solver confirms them
                    from ..engine.prove import solve as _solve
                    for group, first, last in ((mins, mins[0], mins[-1]), (maxs, maxs[0], maxs[-1])):
                        half = len(group) // 2
                        for k_, sym in enumerate(group[1:-1], start=1):
                            fact = sym == (first if k_ < half else last)
                            st__, *_rest = _solve(list(S.I.pc) + list(S.I.axioms_path), fact)
                            if st__ == "discharged":
                                hints.append(fact)
                    args = [r for r in S.I.ghost.get("arg_reductions", []) if r[0] == "argmin"]
                    if len(args) >= 2 and mins[0] is not None:
                        (_, j1, fn1, n1), (_, j2, fn2, n2) = args[0], args[-1]
                        i = z3.Int("lemma_i")
                        # pointwise: the rotated normalised curves coincide (non-constant force)
                        pw = z3.Implies(z3.And(i >= 0, i < n1, maxs[0] != mins[0]),
                                        V.rterm(fn2(i)) == V.rterm(fn1(i)))
                        # arithmetic lemma (its own obligation, then a hint): a common positive factor cancels in
                        # a quotient -- instance for the normalised force of sample i
                        fi = st["f"].uf(i)
                        p_, q_ = fi - mins[0], maxs[0] - mins[0]
                        cancel = z3.Implies(q_ != 0, (a * p_) / (a * q_) == p_ / q_)
                        # (decided on its own: pure real arithmetic, no array axioms in the context)
                        st_c, be_c, dt_c, _mc, det_c = _solve([a > 0], cancel)
                        S.clause("lemma.common_factor_cancels").add(st_c, be_c, dt_c, det_c)
                        if st_c == "discharged":
                            hints.append(cancel)
                        if S.ensure("lemma.normalised_curves_coincide", pw, extra=hints, timeout_ms=120000):
                            hints = [z3.ForAll([i], pw)]     # generalisation of the arbitrary i
                        hints.append(maxs[0] != mins[0])
            if which == "frechet":
                # (a constant force gives 0/0 = NaN everywhere: outside the modelled reals, assumed away)
                # final step: first-argmin is a function of the pointwise values -- proved once for
                # uninterpreted curves and applied here by instantiation (Y1 := rotated curve of f,
                # Y2 := rotated curve of a*f+b, equal pointwise by the lemma above)
                Y1 = z3.Function("Y1", z3.IntSort(), z3.RealSort())
                Y2 = z3.Function("Y2", z3.IntSort(), z3.RealSort())
                nn, q1, q2, ii = z3.Int("nn"), z3.Int("q1"), z3.Int("q2"), z3.Int("ii")
                def first_argmin(Y, q):
                    return z3.And(q >= 0, q < nn,
                                  z3.ForAll([ii], z3.Implies(z3.And(ii >= 0, ii < nn), Y(q) <= Y(ii))),
                                  z3.ForAll([ii], z3.Implies(z3.And(ii >= 0, ii < q), Y(q) < Y(ii))))
                from ..engine.prove import solve
                st_, be, dt, _m, det = solve([z3.ForAll([ii], z3.Implies(z3.And(ii >= 0, ii < nn), Y1(ii) == Y2(ii))),
                                              first_argmin(Y1, q1), first_argmin(Y2, q2)], q1 == q2)
                pw_ok = S.clauses.get(f"{S.prop}.{S.unit_name}.lemma.normalised_curves_coincide")
                ok = st_ == "discharged" and pw_ok is not None and pw_ok.status == "discharged"
                S.I.trusted.add("lemma application by instantiation: first-argmin congruence (proved for uninterpreted curves)")
                S.clause("same_index_for_scaled_and_shifted_force").add(
                    "discharged" if ok else "undecided", be, dt,
                    "" if ok else f"argmin congruence lemma {st_}; pointwise lemma "
                    f"{pw_ok.status if pw_ok else 'missing'}")
            else:
                S.ensure("same_index_for_scaled_and_shifted_force", r1.term == r2.term, extra=hints)
        else:
            S.ensure("same_index_for_scaled_and_shifted_force", isnan(r1) and isnan(r2),
                     case={"f": repr(r1), "a*f+b": repr(r2)})

    S.run(setup, post)
    return S.finish(replay=replay_relational)


def replay_relational(ob):
    import warnings
    import numpy as np
    from nanite import poc
    warnings.simplefilter("ignore")
    fn = poc.poc_deviation_from_baseline if "deviation" in ob.oid else poc.poc_frechet_direct_path
    for f, true_cp, info in _curves(1)[::2]:
        for a, b in ((2.0, 0.0), (1.0, 5.0), (4.0, -300.0), (0.5, 1e3), (8.0, 1e6), (2.0 ** -60, 0.0), (2.0 ** 60, 0.0)):
            r1, r2 = fn(f), fn(a * f + b)
            if not ((np.isnan(r1) and np.isnan(r2)) or r1 == r2):
                return {"confirmed": True, "input": {**info, "scale": a, "offset": b},
                        "observed": {"index": r1 if not np.isnan(r1) else "nan", "scaled": r2 if not np.isnan(r2) else "nan"},
                        "required": "equal"}
    return {"confirmed": False}


def unit_frechet(tier=None, seed=None):
    S = Session("C08", "frechet_direct_path", f"{MOD}:poc_frechet_direct_path")
    S.check_domain = False
    st = {}

    def setup(I):
        force = A.new_array_input(I, "force")
        st.update(force=force)
        S.names.update(n=force.len_term())
        return I.lookup_qual(f"{MOD}:poc_frechet_direct_path"), [force], {}

    def post(S, out):
        I = S.I
        f = st["force"]
        n = f.len_term()
        if out.kind != "return":
            # degenerate (very short) input must give the fallback (NaN), not an exception
            S.fail("total_on_every_array", f"raises {out.value.cls.name}", witness="empty",
                   case={"len": "0 allowed", "outcome": repr(out)})
            return
        S.ok("total_on_every_array")
        rv = out.value
        if V.is_nan_const(rv) or (isinstance(rv, SReal) and rv.nan is not False):
            S.ok("nan_or_index")
        elif isinstance(rv, SInt):
            S.ensure("nan_or_index", z3.And(rv.term >= 0, rv.term < n))
        else:
            S.fail("nan_or_index", repr(rv))
        S.ensure("frame.force", not any(mm is f for mm in I.mutations))

    S.run(setup, post)
    return S.finish(replay=replay_poc)


def unit_piecewise(which, tier=None, seed=None):
    """The three piecewise fits up to (and after) the external optimiser.

    lmfit.minimize is under an ASSUMED contract: REQUIRES every initial parameter value and every data sample
    to be a number (lmfit raises ValueError on NaN) -- this precondition is the proof obligation here --;
    ENSURES a result whose ``success`` is any boolean and whose ``x0`` is ANY real number (unbounded parameter).
    poc_frechet_direct_path is under its own contract (NaN or an index of the array; unit frechet_direct_path).
    ret_details=False only (the details branch evaluates the nested model with in-place masked updates).
    """
    fn = {"constant_line": "poc_fit_constant_line", "constant_polynomial": "poc_fit_constant_polynomial",
          "line_polynomial": "poc_fit_line_polynomial"}[which]
    S = Session("C08", f"fit_{which}", f"{MOD}:{fn}")
    st = {}

    def setup(I):
        st.pop("min_call", None)
        force = A.new_array_input(I, "force")
        n = force.len_term()
        S.names.update(n=n)

        def frechet(I, fv, args, kwargs):
            j = z3.Int("frechet_estimate")
            if I.fork(z3.Bool("frechet_is_nan")):
                return V.NAN
            I.assume(z3.And(j >= 0, j < args[0].len_term()))
            return SInt(j)
        I.contracts[f"{MOD}:poc_frechet_direct_path"] = frechet

        def minimize(I, fcn=None, params=None, method=None, args=None, **kws):
            st["min_call"] = dict(params={nm: dict(e[1].attrs) for nm, e in params.map.d.items()}, args=args,
                                  method=method)
            res = sx.Obj(sx.ClassVal("MinimizerResult", [sx.OBJECT], {}))
            phat, ph = sym_parameters(I, list(params.map.d), prefix="fit")
            res.attrs.update(params=phat, success=SBool(z3.Bool("fit_success")))
            st["ph"] = ph
            return res
        I.lib["lmfit.minimize"] = minimize
        st.update(force=force)
        return I.lookup_qual(f"{MOD}:{fn}"), [force], {}

    def post(S, out):
        I = S.I
        f = st["force"]
        n = f.len_term()
        case = {"outcome": repr(out)}
        if out.kind != "return":
            S.fail("total_up_to_the_optimiser", f"raises {out.value.cls.name}", case=case)
            return
        S.ok("total_up_to_the_optimiser")
        rv = out.value
        mc = st.get("min_call")
        if mc is None:
            # too short or constant: "no estimate" (NaN) -- or directly some integer; compute_poc owns the range
            S.ensure("no_fit_means_nan_or_integer", V.is_nan_const(rv) or isinstance(rv, (int, SInt)), case=case)
        else:
            for nm, a in mc["params"].items():
                v = a["value"]
                isnum = (not V.is_nan_const(v)) and (not isinstance(v, SReal) or v.nan is False
                                                      or I.valid(z3.Not(v.nan)))
                S.ensure("minimize_precondition.initial_values_are_numbers", bool(isnum), witness=nm,
                         case={"parameter": nm, "value": repr(v)})
            data = mc["args"][1] if mc["args"] is not None and len(mc["args"]) > 1 else None
            S.ensure("minimize_precondition.data_is_the_normalised_force", isinstance(data, SArray)
                     and I.valid(data.len_term() == n), case=case)
            if isinstance(data, SArray):
                k = z3.Int("k")
                S.names.update(k=k)
                e = data.at(k)
                nanfree = (not isinstance(e, SReal)) or e.nan is False or I.valid(
                    z3.Implies(z3.And(k >= 0, k < n), z3.Not(e.nan)))
                S.ensure("minimize_precondition.data_are_numbers", bool(nanfree), case=case)
            ok = z3.Bool("fit_success")
            if V.is_nan_const(rv):
                S.ensure("nan_only_when_the_fit_failed", z3.Not(ok), case=case)
            elif isinstance(rv, (int, SInt)):
                x0 = st["ph"]["x0"]["value"]
                t = V.iterm(rv)
                # the estimate is the fitted x0 to within one sample (int() today; rounding would do as well)
                S.ensure("estimate_is_the_fitted_x0_within_one_sample",
                         z3.And(ok, z3.ToReal(t) - x0 < 1, x0 - z3.ToReal(t) < 1), case=case)
            else:
                S.fail("nan_or_integer", repr(rv), case=case)
        S.ensure("frame.force", not any(mm is f for mm in I.mutations), case=case)

    S.run(setup, post)
    return S.finish(replay=replay_poc)


def unit_piecewise_relational(which, tier=None, seed=None):
    """Scale / offset independence of the three piecewise fits, up to the optimiser: on f and on a*f + b (a > 0)
    lmfit.minimize is handed THE SAME problem -- the same data sample by sample, the same initial value and bounds
    of every parameter, the same method.  (The optimiser is assumed to be a function of what it is given; the
    Frechet estimate used as initial contact point is the same for both curves -- unit
    frechet_direct_path.scale_offset_invariance.)"""
    fn = {"constant_line": "poc_fit_constant_line", "constant_polynomial": "poc_fit_constant_polynomial",
          "line_polynomial": "poc_fit_line_polynomial"}[which]
    S = Session("C08", f"fit_{which}.scale_offset_invariance", f"{MOD}:{fn}")
    S.check_domain = False      # division-domain obligations belong to unit fit_<which>
    st = {}

    def setup(I):
        calls = []
        f = A.new_array_input(I, "force")
        a, b = z3.Real("a"), z3.Real("b")
        I.assume(a > 0)
        g = SArray(f.length, lambda i: SReal(a * f.uf(i) + b), "real", name="scaled_force")
        n = f.len_term()
        S.names.update(a=a, b=b, n=n)
        fr_nan = z3.Bool("frechet_is_nan")
        fr_j = z3.Int("frechet_estimate")

        def frechet(I, fv, args, kwargs):
            # same verdict for both curves (proved: frechet_direct_path.scale_offset_invariance)
            if I.fork(fr_nan):
                return V.NAN
            I.assume(z3.And(fr_j >= 0, fr_j < args[0].len_term()))
            return SInt(fr_j)
        I.contracts[f"{MOD}:poc_frechet_direct_path"] = frechet

        def minimize(I, fcn=None, params=None, method=None, args=None, **kws):
            k = len(calls)
            calls.append(dict(params={nm: dict(e[1].attrs) for nm, e in params.map.d.items()}, args=args,
                              method=method, kws=kws))
            res = sx.Obj(sx.ClassVal("MinimizerResult", [sx.OBJECT], {}))
            # deterministic optimiser: one result for the (identical) problem
            phat, ph = sym_parameters(I, list(params.map.d), prefix="fit")
            res.attrs.update(params=phat, success=SBool(z3.Bool("fit_success")))
            return res
        I.lib["lmfit.minimize"] = minimize
        func = I.lookup_qual(f"{MOD}:{fn}")
        st.update(f=f, g=g, calls=calls)

        def driver(I):
            return (I.call(func, [f], {}), I.call(func, [g], {}))
        return sx.Builtin("driver", driver), [], {}

    def post(S, out):
        I = S.I
        if out.kind != "return":
            S.fail("total", repr(out))
            return
        calls = st["calls"]
        r1, r2 = out.value
        n = st["f"].len_term()
        S.ensure("fitted_for_both_or_neither", len(calls) in (0, 2), case={"optimiser calls": len(calls)})
        if len(calls) != 2:
            if not calls:
                S.ensure("same_result_without_fit", (V.is_nan_const(r1) and V.is_nan_const(r2)) or
                         (isinstance(r1, (int, SInt)) and isinstance(r2, (int, SInt))
                          and I.valid(V.iterm(r1) == V.iterm(r2))))
            return
        c1, c2 = calls
        a, b = z3.Real("a"), z3.Real("b")
        red = I.ghost.get("reductions", [])
        mins = [m for w, m, j in red if w == "min"]
        maxs = [m for w, m, j in red if w == "max"]
        hints = []
        # lemma chain as for the Frechet estimator: the extrema of a*f+b are a*extrema(f)+b
        for nm, seq in (("min", mins), ("max", maxs)):
            if len(seq) >= 2:
                for x2 in seq[len(seq) // 2:]:
                    fact = x2 == a * seq[0] + b
                    if S.ensure(f"lemma.{nm}_of_scaled_force", fact):
                        hints.append(fact)
                for x1 in seq[1:len(seq) // 2]:
                    fact = x1 == seq[0]
                    if S.ensure(f"lemma.{nm}_recomputed", fact):
                        hints.append(fact)
        d1 = c1["args"][1] if c1["args"] and len(c1["args"]) > 1 else None
        d2 = c2["args"][1] if c2["args"] and len(c2["args"]) > 1 else None
        ok_d = isinstance(d1, SArray) and isinstance(d2, SArray)
        S.ensure("optimiser_gets_data_arrays", ok_d)
        if ok_d:
            i = z3.Int("lemma_i")
            S.names.update(i=i)
            pw = z3.Implies(z3.And(i >= 0, i < n), V.rterm(d1.at(i)) == V.rterm(d2.at(i)))
            if S.ensure("optimiser_sees_the_same_data", z3.And(d1.len_term() == d2.len_term(), pw), extra=hints,
                        timeout_ms=120000):
                hints.append(z3.ForAll([i], pw))
            x1, x2 = c1["args"][0], c2["args"][0]
            if isinstance(x1, SArray) and isinstance(x2, SArray):
                S.ensure("optimiser_sees_the_same_abscissa",
                         z3.And(x1.len_term() == x2.len_term(),
                                z3.Implies(z3.And(i >= 0, i < n), V.rterm(x1.at(i)) == V.rterm(x2.at(i)))), extra=hints)
        S.ensure("same_parameters_offered", list(c1["params"]) == list(c2["params"]))
        if list(c1["params"]) == list(c2["params"]):
            for nm in c1["params"]:
                for fld in ("value", "min", "max", "vary"):
                    v1, v2 = c1["params"][nm].get(fld), c2["params"][nm].get(fld)
                    if v1 is None and v2 is None:
                        continue
                    if isinstance(v1, bool) or isinstance(v2, bool):
                        S.ensure("same_initial_parameters", v1 is v2 or v1 == v2, witness=f"{nm}.{fld}")
                        continue
                    if v1 is None or v2 is None or not (V.is_num(v1) and V.is_num(v2)):
                        S.ensure("same_initial_parameters", v1 is v2, witness=f"{nm}.{fld}",
                                 case={"f": repr(v1), "a*f+b": repr(v2)})
                        continue
                    S.ensure("same_initial_parameters", V.rterm(v1) == V.rterm(v2), witness=f"{nm}.{fld}",
                             extra=hints, timeout_ms=120000)
        S.ensure("same_method", c1["method"] == c2["method"] and c1["kws"] == c2["kws"])
        if isinstance(r1, (int, SInt)) and isinstance(r2, (int, SInt)):
            S.ensure("same_estimate_for_the_same_optimiser_result", V.iterm(r1) == V.iterm(r2))
        else:
            S.ensure("same_estimate_for_the_same_optimiser_result", V.is_nan_const(r1) and V.is_nan_const(r2),
                     case={"f": repr(r1), "a*f+b": repr(r2)})

    S.run(setup, post)
    return S.finish(replay=replay_piecewise_relational)


def replay_piecewise_relational(ob):
    import warnings
    import numpy as np
    from nanite import poc
    warnings.simplefilter("ignore")
    m = [mm for mm in ("fit_constant_line", "fit_constant_polynomial", "fit_line_polynomial") if mm in ob.oid]
    for f, true_cp, info in _curves(1)[::4]:
        for method in m:
            base = poc.compute_poc(f, method=method)
            for a, b in ((2.0, 0.0), (1.0, 5.0), (4.0, -300.0), (0.5, 1e3)):
                got = poc.compute_poc(a * f + b, method=method)
                if abs(int(got) - int(base)) > 2:
                    return {"confirmed": True, "input": {**info, "method": method, "scale": a, "offset": b},
                            "observed": {"index": int(base), "scaled": int(got)}, "required": "equal within two samples"}
    return {"confirmed": False}


# ------------------------------------------------------------------ native: replay + bounded
def _curves(seed=0, n=600):
    import numpy as np
    rng = np.random.default_rng(seed)
    out = []
    for model_p in (1.5, 2.0):
        for noise in (0.0, 0.01, 0.03):
            for nbase in (0.3, 0.5, 0.7):
                for tilt in (0.0, 0.05):
                    x = np.linspace(0, 1, n)
                    cp = nbase
                    f = np.where(x > cp, (x - cp) ** model_p, 0.0)
                    f = f / f.max() + tilt * x + noise * rng.standard_normal(n) * 0.1
                    out.append((f, int(cp * n), dict(p=model_p, noise=noise, baseline=nbase, tilt=tilt)))
    return out


def replay_poc(ob):
    import warnings
    import numpy as np
    from nanite import poc
    warnings.simplefilter("ignore")
    degenerate = {"constant": np.ones(50), "decreasing": np.linspace(1, 0, 50), "single": np.array([1.0]),
                  "two": np.array([0.0, 1.0]), "no baseline": np.linspace(0, 1, 60) ** 2,
                  "short": np.array([0.0, 0.0, 0.1, 0.5, 1.0]),
                  "linear ramp (600)": np.linspace(0, 1, 600), "exponential (800)": np.exp(np.linspace(0, 6, 800)),
                  "started in contact (2000)": np.linspace(0.05, 1, 2000) ** 1.5,
                  "baseline then one step": np.array([0.] * 20 + [1.]), "ramp (10)": np.arange(10.),
                  "ramp then retract (1500)": np.concatenate([np.linspace(0, 1, 1200), np.linspace(1, 0, 300)])}
    for name, arr in degenerate.items():
        for m in METHODS:
            keep = arr.copy()
            try:
                cp = poc.compute_poc(arr, method=m)
            except Exception as exc:
                return {"confirmed": True, "input": {"array": name, "method": m}, "observed": repr(exc)[:120],
                        "required": "fallback index (middle of the data), no exception"}
            if not (isinstance(cp, (int, np.integer)) and 0 <= cp < arr.size):
                return {"confirmed": True, "input": {"array": name, "method": m}, "observed": repr(cp),
                        "required": "a valid integer index"}
            if ("ramp" in name or "started in contact" in name) and m == "gradient_zero_crossing" \
                    and cp != (int(np.argmax(arr)) // 2):
                # no baseline: this estimator has nothing to detect and the documented fallback applies
                return {"confirmed": True, "input": {"array": name, "method": m}, "observed": int(cp),
                        "required": f"fallback to the middle of the approach part ({int(np.argmax(arr)) // 2})"}
            if not np.array_equal(arr, keep):
                return {"confirmed": True, "input": {"array": name, "method": m}, "observed": "input modified"}
    return {"confirmed": False}


def unit_bounded_estimators(tier=None, seed=0):
    import time
    import warnings
    import numpy as np
    from nanite import poc
    t0 = time.time()
    warnings.simplefilter("ignore")
    problems, ne, samples = [], 0, []
    curves = _curves(seed)
    if tier == "quick":
        curves = curves[::3]
    # accuracy fractions fixed from the pinned tree with a 2x margin (clean curves only)
    # measured on the pinned tree over these curves: 0, .212, .038, .042, .243, .015 of the curve length
    FRACTION = {"deviation_from_baseline": 0.05, "fit_constant_line": 0.45, "fit_constant_polynomial": 0.08,
                "fit_line_polynomial": 0.09, "frechet_direct_path": 0.50, "gradient_zero_crossing": 0.05}
    for f, true_cp, info in curves:
        for m in METHODS:
            try:
                base = poc.compute_poc(f, method=m)
            except Exception as exc:
                problems.append({"method": m, **info, "what": f"raised {exc!r}"[:100]})
                continue
            ne += 1
            if not (isinstance(base, (int, np.integer)) and 0 <= base < f.size):
                problems.append({"method": m, **info, "what": f"not a valid index: {base!r}"})
                continue
            if info["noise"] == 0 and info["tilt"] == 0 and abs(base - true_cp) > FRACTION[m] * f.size:
                problems.append({"method": m, **info, "what": f"estimate {base} vs true contact {true_cp}"})
            for a, b in ((2.0, 0.0), (0.25, 0.0), (1.0, 3.0), (4.0, -2.0), (3.7, 0.5), (1e9, 0.0),
                         (2.0 ** -60, 0.0), (2.0 ** 60, 0.0)):
                try:
                    got = poc.compute_poc(a * f + b, method=m)
                except Exception as exc:
                    problems.append({"method": m, **info, "scale": a, "offset": b, "what": f"raised {exc!r}"[:100]})
                    continue
                ne += 1
                exact = (float(a).is_integer() and (int(a) & (int(a) - 1) == 0)) or a in (0.25, 2.0 ** -60)
                tol = 0 if (exact and m in ("deviation_from_baseline", "frechet_direct_path") and b == 0) else 1
                if m in ("fit_constant_line", "fit_constant_polynomial", "fit_line_polynomial"):
                    tol = max(tol, 2)      # Nelder-Mead on data normalised to [0, 1]
                if abs(int(got) - int(base)) > tol:
                    problems.append({"method": m, **info, "scale": a, "offset": b,
                                     "what": f"index {got} vs {base} for the unscaled curve"})
            if len(samples) < 3:
                samples.append({"method": m, **info, "index": int(base), "true": true_cp})
        if len(problems) > 5:
            break
    r = replay_poc(None)
    ne += 72
    if r.get("confirmed"):
        problems.insert(0, {"method": r["input"]["method"], "array": r["input"]["array"], "what": r["observed"]})
    res = UnitResult(unit="bounded.estimators")
    res.bounded.append(BoundedResult(
        bid="C08.bounded.six_estimators_scale_offset_accuracy_degenerate", ok=not problems, evaluations=ne, distinct=ne,
        bound=f"6 estimators x {len(curves)} synthetic curves (2 exponents x 3 noise levels x 3 baseline lengths x 2 tilts) x "
              "8 (scale, offset) pairs incl. 2^-60 and 2^60 + 12 degenerate arrays; accuracy fractions (clean curves) stated in the code",
        detail="valid indices; scale/offset independent within one sample (two for the Nelder-Mead fits); accurate on "
               "clean curves; fallback on degenerate arrays" if not problems else str(problems[0])[:300],
        samples=samples, failing_input=problems[0] if problems else None,
        witness="" if not problems else (problems[0]["method"] + ":" + str(problems[0].get("array", "curve"))),
        time_s=round(time.time() - t0, 2)))
    return res


CANARIES = [
    dict(name="threshold comparison inverted", file="poc.py", old="        bl_dev = (force - bl_avg) > bl_rng",
         new="        bl_dev = (force - bl_avg) < bl_rng", expect="C08"),
    dict(name="fallback to the end of the data", file="poc.py", old="        cp = force.size // 2", new="        cp = force.size",
         expect="valid_index_of_the_force_array"),
    dict(name="estimate outside the data passed through", file="poc.py",
         old="    if np.isnan(cp) or not 0 <= cp < force.size:", new="    if np.isnan(cp):",
         expect="valid_index_of_the_force_array"),
    dict(name="constant data reach the normalisation", file="poc.py",
         old="    if force.size > 4 and np.ptp(force) > 0:  # 3 fit parameters", new="    if force.size > 4:  # 3 fit parameters",
         expect="fit_constant_line.arith_defined"),
    dict(name="initial slope divides by a zero contact estimate", file="poc.py",
         old="        params.add('m', value=y[x0]/x0 if x0 else 0)", new="        params.add('m', value=y[x0]/x0)",
         expect="fit_line_polynomial.arith_defined"),
    dict(name="threshold is one deviation", file="poc.py", old="        bl_rng = np.max(np.abs(baseline - bl_avg)) * 2",
         new="        bl_rng = np.max(np.abs(baseline - bl_avg))", expect="C08"),
    dict(name="clip keeps the maximum and works in place", file="poc.py", old="    fg0 = np.array(force, copy=True)",
         new="    fg0 = force", expect="frame"),
    dict(name="threshold tied to the absolute baseline level", file="poc.py",
         old="        bl_dev = (force - bl_avg) > bl_rng", new="        bl_rng = max(bl_rng, 1e-3 * np.abs(bl_avg))\n        bl_dev = (force - bl_avg) > bl_rng",
         expect="C08"),
]


def unit_canaries(tier=None, seed=None):
    from ..selftest import run_canaries
    return run_canaries("C08", CANARIES)


def units(tier):
    us = [Unit("clip_approach", unit_clip), Unit("compute_poc", unit_compute_poc),
          Unit("deviation_from_baseline", unit_deviation), Unit("frechet_direct_path", unit_frechet),
          Unit("deviation_from_baseline.scale_offset_invariance", unit_relational, which="dev"),
          Unit("frechet_direct_path.scale_offset_invariance", unit_relational, which="frechet"),
          Unit("fit_constant_line", unit_piecewise, which="constant_line"),
          Unit("fit_constant_polynomial", unit_piecewise, which="constant_polynomial"),
          Unit("fit_line_polynomial", unit_piecewise, which="line_polynomial"),
          Unit("fit_constant_line.scale_offset_invariance", unit_piecewise_relational, which="constant_line"),
          Unit("fit_constant_polynomial.scale_offset_invariance", unit_piecewise_relational, which="constant_polynomial"),
          Unit("fit_line_polynomial.scale_offset_invariance", unit_piecewise_relational, which="line_polynomial"),
          Unit("bounded.estimators", unit_bounded_estimators)]
    if tier == "thorough" and not os.environ.get("VF_NO_CANARIES") and str(REPO) == "/repo":
        us.append(Unit("selftest.canaries", unit_canaries))
    return us


def replay_file(path):
    import json
    d = json.load(open(path))

    class _O:
        oid = d.get("obligation", "")
        model = d.get("model")
    r = replay_relational(_O) if "invariance" in _O.oid else replay_poc(None)
    print(json.dumps(r, indent=1, default=str))
    return 1 if r.get("confirmed") else 0
