"""C05  Exactly the requested points are fitted.

  IndentationFitter.fit   absolute range: the mask handed to _fit is  segment AND closed interval
        [min(range), max(range)] (zero width = whole segment); contact-point-relative range: four passes,
        the first on the whole segment, each later one anchored at the contact point fitted in the
        previous pass; private copies of range/type restored.
  IndentationFitter._fit  the optimiser gets exactly the points of that mask; xmin/xmax are the extreme
        abscissae of the used points in uncorrected units (definitional min/max axioms, k > 0).
Plateau search (E(delta) scan, Butterworth filter, labelling) is external numerics: bounded stand-in.
"""
from __future__ import annotations

import os

from ..core import REPO, UnitResult, BoundedResult
from ..unit import Unit
from . import fitter_units as FT
from . import scan_units as SU

LEVEL = "other"
EXPLANATION = ("Deductive: the fitter is built by the real __init__; the mask construction of fit() for absolute, "
               "contact-point-relative and plateau-search ranges, the plateau scan compute_emodulus_vs_mindelta (loop "
               "verified for one arbitrary iteration) and the use/xmin/xmax clauses of _fit are discharged for all "
               "arrays, segments, intervals (inverted, zero-width, coinciding with samples) and k > 0. Assumed: the "
               "plateau detection returns a depth between the scan's extremes. Bounded: plateau search on a recorded "
               "curve (optimum inside the scanned depths, grid, sample count).")


def unit_bounded_plateau(tier=None, seed=0):
    import time
    import warnings
    import numpy as np
    t0 = time.time()
    warnings.simplefilter("ignore")
    problems, ne, samples = [], 0, []
    # (scipy.signal.filtfilt needs more than 6 samples: smaller scans are outside the domain of the plateau search)
    for nsamp in ((7, 20) if tier == "quick" else (7, 8, 20, 40)):
        cur = FT._synthetic()
        cur.apply_preprocessing(["compute_tip_position", "correct_force_offset", "correct_tip_offset"])
        try:
            cur.fit_model(model_key="hertz_para", optimal_fit_edelta=True, optimal_fit_num_samples=nsamp,
                          range_x=(0, 5e-7), segment=0)
        except BaseException as exc:
            problems.append({"num_samples": nsamp, "what": f"raised {exc!r}"[:120]})
            break
        ne += 1
        fp = cur.fit_properties
        d, e = fp["optimal_fit_delta_array"], fp["optimal_fit_E_array"]
        dopt = fp["optimal_fit_delta"]
        used = np.array(cur["fit range"], dtype=bool)
        tip = np.array(cur["tip position"])
        case = {"num_samples": nsamp, "dopt": float(dopt)}
        if len(d) != nsamp or len(e) != nsamp:
            problems.append({**case, "what": f"scan arrays have {len(d)}/{len(e)} samples"})
        if not (np.all(np.diff(d) > 0) or np.all(np.diff(d) < 0)):
            problems.append({**case, "what": "depth grid not monotonic"})
        if not (min(d) <= dopt <= max(d)):
            problems.append({**case, "what": "optimum outside the scanned depths"})
        if not np.isclose(tip[used].min(), fp["xmin"]) or fp["xmin"] < dopt - 1e-12:
            problems.append({**case, "what": f"lower bound of used points {fp['xmin']} is not the reported optimum {dopt}"})
        samples.append(case)
        if problems:
            break
    res = UnitResult(unit="bounded.plateau_search")
    res.bounded.append(BoundedResult(
        bid="C05.bounded.plateau_search", ok=not problems, evaluations=ne, distinct=ne,
        bound="plateau search on one recorded curve for several sample counts",
        detail="scan arrays sized as requested on a monotonic grid; optimum inside; used points start at the optimum"
        if not problems else str(problems[0])[:300], samples=samples,
        failing_input=problems[0] if problems else None, witness="" if not problems else "plateau",
        time_s=round(time.time() - t0, 2)))
    return res


def unit_bounded_ranges(tier=None, seed=0):
    import time
    from ..core import UnitResult, BoundedResult

    class O:
        oid = "C05.fit.points_are"
        model = None
    t0 = time.time()
    r = FT.replay_fitter(O)
    res = UnitResult(unit="bounded.ranges")
    res.bounded.append(BoundedResult(
        bid="C05.bounded.used_points_equal_independent_mask", ok=not r.get("confirmed"), evaluations=7, distinct=7,
        bound="6 absolute intervals (ends on samples, inverted, zero width, 5 nm wide, one-sided) + 1 relative-cp fit "
              "on a recorded curve; set equality of used points against an independent mask",
        detail=str(r)[:300], samples=[{"range": "ends on sample abscissae"}],
        failing_input=r if r.get("confirmed") else None, witness="" if not r.get("confirmed") else "range",
        time_s=round(time.time() - t0, 2)))
    return res


CANARIES = [
    dict(name="lower bound made exclusive", file="fit.py", old="                range_bool[x_data < rmin] = False",
         new="                range_bool[x_data <= rmin] = False", expect="absolute.points_are_segment_and_closed_interval"),
    dict(name="other segment not excluded", file="fit.py", old="                range_bool = self.segment.copy()",
         new="                range_bool = np.ones_like(self.segment)", expect="fit"),
    dict(name="relative range anchored with wrong sign", file="fit.py", old="                self.range_x = list(np.array(range_x)+cp)",
         new="                self.range_x = list(np.array(range_x)-cp)", expect="relative_cp"),
    dict(name="xmin reports the maximum", file="fit.py", old='                            "xmin": x.min() / self.fp["gcf_k"],',
         new='                            "xmin": x.max() / self.fp["gcf_k"],', expect="xmin"),
    dict(name="xmax in corrected units", file="fit.py", old='                            "xmax": x.max() / self.fp["gcf_k"],',
         new='                            "xmax": x.max(),', expect="xmax"),
]


def unit_canaries(tier=None, seed=None):
    from ..selftest import run_canaries
    return run_canaries("C05", CANARIES)


def units(tier):
    us = FT.units_for("C05") + SU.units_for("C05") + [Unit("bounded.ranges", unit_bounded_ranges),
                                Unit("bounded.plateau_search", unit_bounded_plateau)]
    # the scan arrays a curve shows are those of the requested number of samples only if changing that setting
    # drops the cached arrays (contract shared with C03)
    from . import c03
    us.append(Unit("FitProperties.__setitem__", c03.unit_setitem, prop="C05"))
    if tier == "thorough" and not os.environ.get("VF_NO_CANARIES") and str(REPO) == "/repo":
        us.append(Unit("selftest.canaries", unit_canaries))
    return us


def replay_file(path):
    import json
    d = json.load(open(path))

    class _O:
        model = d.get("model")
        oid = d.get("obligation")
        witness = d.get("witness", "")
    r = FT.replay_fitter(_O)
    print(json.dumps(r, indent=1, default=str))
    return 1 if r.get("confirmed") else 0
