"""C11  Geometrical correction factor rescales the modulus and nothing else.

  lemma (per power-law model, from the C02 postconditions only): for k > 0
        M(x*k; E*k^-p, cp*k, b) = M(x; E, cp, b)   (p = 3/2 paraboloid, 2 cone and pyramid)
    so the k-fit objective is the k=1 objective composed with the bijection (E,cp,b) -> (E k^-p, cp k, b):
    minimisers correspond.  That the optimiser returns corresponding points is lmfit's assumed contract.
  unit obligations in _fit (real body): abscissa given to lmfit is x*k; initial contact point guess is
    scaled exactly once (measured units for every k); reported cp = fitted cp / k; xmin/xmax in measured
    units; the fit column is the model at k*x; the initial parameters are NOT written to, so every pass of
    a multi-pass fit starts from the same measured-units guess (frame obligation).
Bounded: k-fit vs k=1 fit on a recorded curve for the three power-law models and all range types.
"""
from __future__ import annotations

import os
from fractions import Fraction

import z3

from ..core import REPO, UnitResult, BoundedResult
from ..unit import Unit
from ..engine import values as V
from . import fitter_units as FT
from . import scan_units as SU
from . import models as M
from .c13 import lemma_session

LEVEL = "proof"
EXPLANATION = ("Deductive: homogeneity lemma per power-law model over the C02 postconditions, the unit/frame "
               "obligations of the real _fit and fit (fitter built by the real __init__) for all k > 0, and the "
               "plateau scan grid as a function of the measured abscissa only. Bounded: numerical equivalence of "
               "k-fits and k=1 fits incl. plateau search on a recorded curve (optimizer behaviour is outside the "
               "contracts).")
POWER = {"hertz_para": Fraction(3, 2), "hertz_cone": Fraction(2), "hertz_pyr3s": Fraction(2)}


def unit_homogeneity(key, tier=None, seed=None):
    S = lemma_session("C11", f"lemma.homogeneity.{key}")
    bounds, order = M.read_bounds(key)
    P = {n: z3.Real(n) for n in order}
    k, x = z3.Real("k"), z3.Real("x")
    p = POWER[key]
    pre = [M.bounds_term(P, bounds), k > 0]
    r = P["contact_point"] - x
    kp = V.POW(k, M.Q(str(p))) if p.denominator != 1 else k * k
    P2 = dict(P, contact_point=P["contact_point"] * k)
    P2["E"] = P["E"] / kp
    r2 = P2["contact_point"] - x * k
    S.ensure("corrected_depth_is_k_times_depth", r2 == k * r, extra=pre)
    hyp = pre + [r > 0, r2 == k * r]
    if p.denominator != 1:
        # A4 instance: pow is multiplicative, pow(k r, p) = pow(k, p) pow(r, p)
        hyp.append(V.POW(k * r, M.Q(str(p))) == kp * V.POW(r, M.Q(str(p))))
        S.I.trusted.add("A4.pow-multiplicative")
    lhs = M.contact_term(key, P2, k * r)
    rhs = M.contact_term(key, P, r)
    S.ensure("model_invariant_under_k_with_E_times_k_pow_minus_p", lhs == rhs, extra=hyp)
    S.ensure("out_of_contact_side_corresponds", (r2 > 0) == (r > 0), extra=pre + [r2 == k * r])
    return S.finish()


def unit_bounded_equivalence(tier=None, seed=0):
    import copy
    import time
    import warnings
    import numpy as np
    t0 = time.time()
    warnings.simplefilter("ignore")
    problems, ne, samples = [], 0, []
    P = ["compute_tip_position", "correct_force_offset"]
    for key, p in POWER.items():
        for rtype, rx in (("absolute", (0, 0)), ("absolute", (1.76e-5, 1.9e-5)), ("relative cp", (-1.5e-6, 1e-6)),
                          ("plateau search", (0, 0))):
            ref = None
            edelta = rtype == "plateau search"
            if edelta and key != "hertz_para" and tier == "quick":
                continue
            for k in ((1.0, 0.5, 2.0) if tier == "quick" else (1.0, 0.1, 0.5, 0.6, 2.0, 3.7)):
                cur = FT._synthetic()
                cur.apply_preprocessing(P + (["correct_tip_offset"] if edelta else []))
                p0 = copy.deepcopy(cur.get_initial_fit_parameters(model_key=key))
                cur.fit_model(model_key=key, params_initial=p0, gcf_k=k, range_type="absolute" if edelta else rtype,
                              range_x=rx, weight_cp=False, segment=0, optimal_fit_edelta=edelta,
                              optimal_fit_num_samples=20)
                fp = cur.fit_properties
                ne += 1
                rec = dict(E=fp["params_fitted"]["E"].value, cp=fp["params_fitted"]["contact_point"].value,
                           b=fp["params_fitted"]["baseline"].value, xmin=fp["xmin"], xmax=fp["xmax"],
                           ok=fp["success"], fit=np.array(cur["fit"]))
                if k == 1.0:
                    ref = rec
                    continue
                case = {"model": key, "k": k, "range_type": rtype, "range_x": rx}
                tol = 2e-3
                if rec["ok"] != ref["ok"]:
                    problems.append({**case, "what": f"success {rec['ok']} vs {ref['ok']} for k=1"})
                elif abs(rec["cp"] - ref["cp"]) > tol * abs(ref["cp"]):
                    problems.append({**case, "what": f"contact point {rec['cp']} vs {ref['cp']}"})
                elif abs(rec["E"] - ref["E"] * k ** (-float(p))) > 5 * tol * abs(ref["E"] * k ** (-float(p))):
                    problems.append({**case, "what": f"E {rec['E']} vs k^-p * {ref['E']}"})
                elif not (np.isclose(rec["xmin"], ref["xmin"], rtol=1e-3) and np.isclose(rec["xmax"], ref["xmax"], rtol=1e-3)):
                    problems.append({**case, "what": "xmin/xmax differ"})
                if len(samples) < 3:
                    samples.append({**case, "E": rec["E"], "E_k1": ref["E"]})
                if problems:
                    break
            if problems:
                break
        if problems:
            break
    res = UnitResult(unit="bounded.k_equivalence")
    res.bounded.append(BoundedResult(
        bid="C11.bounded.k_fit_equals_k1_fit", ok=not problems, evaluations=ne, distinct=ne,
        bound="3 power-law models x 4 ranges (absolute full, absolute interval, contact-point relative, plateau search) x k values "
              "on one recorded curve, weighting off; tolerances 0.2 % (cp) and 1 % (E)",
        detail="reported cp, xmin/xmax unchanged and E scales with k^-p" if not problems else str(problems[0])[:300],
        samples=samples, failing_input=problems[0] if problems else None,
        witness="" if not problems else problems[0]["range_type"].replace(" ", "_"),
        time_s=round(time.time() - t0, 2)))
    return res


CANARIES = [
    dict(name="contact point multiplied instead of divided after the fit", file="fit.py",
         old='                    value=cpf / self.fp["gcf_k"], min=cp_min, max=cp_max)',
         new='                    value=cpf * self.fp["gcf_k"], min=cp_min, max=cp_max)', expect="reported_contact_point"),
    dict(name="xmin not converted back", file="fit.py", old='                            "xmin": x.min() / self.fp["gcf_k"],',
         new='                            "xmin": x.min(),', expect="xmin"),
    dict(name="fitted points scaled but not the segment", file="fit.py", old='        xseg = self.x_axis[segid] * self.fp["gcf_k"]',
         new='        xseg = self.x_axis[segid]', expect="fit_column_is_model_on_segment_nan_elsewhere"),
    dict(name="initial contact point not scaled", file="fit.py", old='            cp_init.set(value=cp_init.value * self.fp["gcf_k"],',
         new='            cp_init.set(value=cp_init.value,', expect="initial_contact_point_scaled_once"),
]


def unit_canaries(tier=None, seed=None):
    from ..selftest import run_canaries
    return run_canaries("C11", CANARIES)


def units(tier):
    us = FT.units_for("C11") + SU.units_for("C11") + [Unit(f"lemma.homogeneity.{k}", unit_homogeneity, key=k) for k in POWER]
    us.append(Unit("bounded.k_equivalence", unit_bounded_equivalence))
    if tier == "thorough" and not os.environ.get("VF_NO_CANARIES") and str(REPO) == "/repo":
        us.append(Unit("selftest.canaries", unit_canaries))
    return us


def replay_file(path):
    import json
    d = json.load(open(path))

    class _O:
        model = d.get("model")
        oid = d.get("obligation")
        witness = d.get("witness", "")
    r = FT.replay_fitter(_O)
    print(json.dumps(r, indent=1, default=str))
    return 1 if r.get("confirmed") else 0
