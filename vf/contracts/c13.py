"""C13  Every registered model obeys the structural model contract.

* direction-agnostic wrapper and the two default wrappers: contracts on the real
  functions with the user's model function UNINTERPRETED (covers shipped and
  user-supplied models); call-site obligation "the user's function sees
  approach-ordered data";
* default residuals = (data - model) * contact-point weights (residual, weights);
* NaniteFitModel._module_autocomplete attaches exactly those wrappers;
* per shipped model, lemmas that follow from the C02 postconditions only:
  translation, baseline additivity, joint modulus scaling, continuity at contact,
  monotonicity in depth (Clifford monotonicity: bounded grid - exponents 3/2 and
  2/3 of different arguments are beyond the solvers);
* bounded: harness-defined order-sensitive / ancillary models through the real
  registry.
"""
from __future__ import annotations

import os
import random
import time
from fractions import Fraction

import z3

from ..core import UnitResult, BoundedResult, REPO
from ..unit import Unit
from ..engine.prove import Session
from ..engine import values as V
from . import models as M
from . import resid

LEVEL = "proof"
EXPLANATION = ("Deductive: wrapper contracts with an uninterpreted user model function; residual/weights "
               "postconditions; per-model algebraic lemmas over the C02 postconditions. Bounded: Clifford "
               "monotonicity on a parameter grid and harness-defined models through the real registry.")
Q = M.Q


def lemma_session(prop, name):
    S = Session(prop, name, None)
    S.I._reset_path()
    S.path_count = 1
    S.outcomes = {"lemma": 1}
    return S


def unit_model_lemmas(key, tier=None, seed=None):
    """consequences of the C02 postcondition F(delta) = b + [r>0] * T(P, r), r = cp - delta"""
    S = lemma_session("C13", f"lemmas.{key}")
    bounds, order = M.read_bounds(key)
    P = {n: z3.Real(n) for n in order}
    pre = [M.bounds_term(P, bounds)] + M.extra_requires(key, P)
    r, r2, s, lam, db = z3.Reals("r r2 s lam db")

    def F(P, delta, r_override=None):
        rr = P["contact_point"] - delta if r_override is None else r_override
        return P["baseline"] + z3.If(rr > 0, M.contact_term(key, P, rr), 0)

    delta = z3.Real("delta")
    rr = P["contact_point"] - delta
    ax = M.spec_axioms(key, P, rr)
    # translation: shifting abscissa and contact point together
    P2 = dict(P, contact_point=P["contact_point"] + s)
    S.ensure("translation_invariance", F(P2, delta + s, r_override=rr) == F(P, delta), extra=pre + ax)
    S.ensure("translation_same_depth", (P["contact_point"] + s) - (delta + s) == rr)
    # baseline additivity
    P3 = dict(P, baseline=P["baseline"] + db)
    S.ensure("baseline_additivity", F(P3, delta) == F(P, delta) + db, extra=pre + ax)
    # joint scaling of all moduli
    mod_keys = [n for n in order if n.startswith("E")]
    P4 = dict(P)
    for n in mod_keys:
        P4[n] = lam * P[n]
    hyp = pre + ax + [lam > 0, rr > 0]
    if key == "power_layer_clifford_2009":
        # (lam E_L)/(lam E_S) = E_L/E_S  -> same argument of pow (proved first, then used)
        ratio_same = (lam * P["E_L"]) / (lam * P["E_S"]) == P["E_L"] / P["E_S"]
        ok = S.ensure("modulus_scaling.ratio_invariant", ratio_same, extra=hyp)
        if ok:
            hyp = hyp + [ratio_same]
        for t in (V.SQRT(rr),):
            hyp = hyp + V.Axioms.sqrt(rr, t)
    S.ensure("modulus_scaling_linear",
             M.contact_term(key, P4, rr) == lam * M.contact_term(key, P, rr), extra=hyp)
    # continuity at contact: the in-contact branch tends to the baseline branch at r = 0
    zero = z3.RealVal(0)
    ax0 = M.spec_axioms(key, P, zero) + V.Axioms.pow(zero, Fraction(3, 2), V.POW(zero, Q("3/2"))) \
        + V.Axioms.sqrt(zero, V.SQRT(zero))
    if key == "power_layer_clifford_2009":
        # xi(0) = 0 and pow(0, 3/2) = 0
        xi0 = (V.SQRT(P["R"]) * V.SQRT(zero)) / P["t"] * V.POW(P["E_L"] / P["E_S"], Q("2/3")) \
            * (1 - Q("0.22") * P["nu_S"] * P["nu_S"]) / (1 - Q("1.92") * P["nu_L"] * P["nu_L"])
        ax0 = ax0 + V.Axioms.pow(xi0, Fraction(3, 2), V.POW(xi0, Q("3/2")))
    S.ensure("continuity_at_contact", M.contact_term(key, P, zero) == 0, extra=pre + ax0)
    # monotone in depth (up to the tip radius where there is one)
    mono_h = pre + [r > 0, r2 >= r]
    if "R" in P and key == "sneddon_spher_approx":
        mono_h.append(r2 <= P["R"])
    if key in ("hertz_para", "hertz_cone", "hertz_pyr3s"):
        p32 = Q("3/2")
        mono_ax = V.Axioms.pi() + V.Axioms.sqrt(P["R"], V.SQRT(P["R"])) if "R" in P else V.Axioms.pi()
        # A4: pow(., 3/2) is monotone; tan is non-negative on [0, pi/2)
        mono_ax += [z3.Implies(r2 >= r, V.POW(r2, p32) >= V.POW(r, p32)), V.POW(r, p32) >= 0]
        if "alpha" in P:
            mono_ax.append(V.TAN(P["alpha"] * V.PI / 180) >= 0)
            S.I.trusted.add("A4.tan>=0 on [0,90) degrees")
        S.I.trusted.add("A4.pow-monotone")
        S.ensure("monotone_in_depth", M.contact_term(key, P, r2) >= M.contact_term(key, P, r),
                 extra=mono_h + mono_ax)
    elif key == "sneddon_spher_approx":
        # substitute u = sqrt(r/R): T = c * R^2 * u^3 * (1 - u^2/10 - u^4/840 + 11u^6/15120 + 1357u^8/6652800)
        u, u2 = z3.Reals("u u2")
        poly = lambda w: w * w * w * (1 - Q("1/10") * w * w - Q("1/840") * w ** 4 + Q("11/15120") * w ** 6
                                      + Q("1357/6652800") * w ** 8)
        S.ensure("monotone_in_depth.polynomial", z3.Implies(z3.And(0 < u, u <= u2, u2 <= 1),
                                                            poly(u) <= poly(u2)))
        S.I.trusted.add("A4.pow(r,3/2) = R^(3/2) u^3 for u = sqrt(r/R) (substitution used for monotonicity)")
    return S.finish()


def unit_zero_at_truth(tier=None, seed=None):
    """residual(p, delta, model(p, delta), w) = 0 pointwise (from the residual contract)"""
    S = lemma_session("C13", "lemma.residual_zero_at_truth")
    F, Mk, w = z3.Reals("F_k model_k w_k")
    S.ensure("weighted", z3.Implies(F == Mk, (F - Mk) * w == 0))
    S.ensure("unweighted", z3.Implies(F == Mk, F - Mk == 0))
    return S.finish()


# ------------------------------------------------------------------ _module_autocomplete
def unit_autocomplete(tier=None, seed=None):
    from ..engine import symex as sx
    S = Session("C13", "module_autocomplete", "nanite.model.core:NaniteFitModel._module_autocomplete")
    st = {}

    def setup(I):
        cls = I.lookup_qual("nanite.model.core:NaniteFitModel")
        has_res = I.fork(z3.Bool("module_has_residual"))
        has_mod = I.fork(z3.Bool("module_has_model"))
        modcls = sx.ClassVal("module", [sx.OBJECT], {})
        module = sx.Obj(modcls)
        mf = sx.Opaque("user_model_func")
        module.attrs["model_func"] = mf
        own_res, own_mod = sx.Opaque("own_residual"), sx.Opaque("own_model")
        if has_res:
            module.attrs["residual"] = own_res
        if has_mod:
            module.attrs["model"] = own_mod
        self = sx.Obj(cls)
        self.attrs["module"] = module
        st.update(module=module, mf=mf, has_res=has_res, has_mod=has_mod, own_res=own_res, own_mod=own_mod)
        f, _ = cls.find("_module_autocomplete")
        return sx.BoundMethod(self, f), [], {}

    def post(S, out):
        if out.kind != "return":
            S.fail("no_exception", repr(out))
            return
        S.ok("no_exception")
        m = st["module"]
        res, mod = m.attrs.get("residual"), m.attrs.get("model")

        def is_wrapper(v, qual):
            return isinstance(v, sx.FuncVal) and v.qualname.endswith(qual) and \
                v.closure.vars.get("model_function") is st["mf"]
        if st["has_res"]:
            S.ensure("own_residual_kept", res is st["own_res"])
        else:
            S.ensure("default_residual_attached",
                     is_wrapper(res, "get_default_residuals_wrapper.<locals>.default_residuals_wrapper"))
        if st["has_mod"]:
            S.ensure("own_model_kept", mod is st["own_mod"])
        else:
            S.ensure("default_model_attached",
                     is_wrapper(mod, "get_default_modeling_wrapper.<locals>.default_modeling_wrapper"))
        S.ensure("model_func_untouched", m.attrs.get("model_func") is st["mf"])

    S.run(setup, post)
    return S.finish()


# ------------------------------------------------------------------ bounded stand-ins
def unit_bounded_clifford_monotone(tier=None, seed=0):
    import numpy as np
    from nanite.model import model_power_layer_clifford_2009 as mc
    t0 = time.time()
    rng = random.Random(seed or 1)
    n = 300 if tier == "quick" else 3000
    bad, ne = None, 0
    samples = []
    for t in range(n):
        p = M.typical_params("power_layer_clifford_2009", rng)
        depth = np.linspace(0, p["R"], 400)
        with np.errstate(all="ignore"):
            f = mc.power_layer_clifford_2009(p["contact_point"] - depth, **p)
        ne += 1
        d = np.diff(f)
        tol = 1e-12 * max(np.max(np.abs(f - p["baseline"])), 1e-300)
        if not np.all(np.isfinite(f)) or np.any(d < -tol):
            bad = {"params": p, "min_step": float(d.min())}
            break
        if t < 2:
            samples.append({"params": p, "F_at_R": float(f[-1])})
    res = UnitResult(unit="bounded.clifford_monotone")
    res.bounded.append(BoundedResult(
        bid="C13.bounded.clifford_monotone_in_depth", ok=bad is None, evaluations=ne, distinct=ne,
        bound=f"{n} seeded parameter vectors in the declared bounds x 400 depths in [0, R]",
        detail="force non-decreasing with depth" if bad is None else f"decrease found: {bad}",
        samples=samples, failing_input=bad, time_s=round(time.time() - t0, 2)))
    return res


def unit_bounded_harness_models(tier=None, seed=0):
    """order-sensitive, ancillary and expression models defined here, registered through the
    real register_model; wrapper clauses evaluated at run time in both orientations"""
    import types
    import numpy as np
    import lmfit
    import nanite.model as nmodel
    t0 = time.time()
    rng = random.Random(seed or 7)
    problems, ne, samples = [], 0, []

    def mk_module(kind):
        mod = types.ModuleType(f"vf_harness_{kind}")

        def get_parameter_defaults():
            p = lmfit.Parameters()
            p.add("E", value=3e3, min=0)
            if kind == "expr":
                p.add("E2", expr="2*E")
            p.add("contact_point", value=0)
            p.add("baseline", value=0)
            return p
        seen = []

        if kind == "expr":
            def model_func(delta, E, E2, contact_point=0, baseline=0):
                seen.append(delta.copy())
                return baseline + (E + E2) * np.cumsum(np.maximum(contact_point - delta, 0))
            keys = ["E", "E2", "contact_point", "baseline"]
        else:
            def model_func(delta, E, contact_point=0, baseline=0):
                seen.append(delta.copy())
                return baseline + E * np.cumsum(np.maximum(contact_point - delta, 0))
            keys = ["E", "contact_point", "baseline"]
        mod.get_parameter_defaults = get_parameter_defaults
        mod.model_func = model_func
        mod.model_doc = "harness"
        mod.model_key = f"vf_harness_{kind}"
        mod.model_name = f"vf harness {kind}"
        mod.parameter_keys = keys
        mod.parameter_names = [f"name {k}" for k in keys]
        mod.parameter_units = ["Pa" if k.startswith("E") else ("m" if k == "contact_point" else "N") for k in keys]
        mod.valid_axes_x = ["tip position"]
        mod.valid_axes_y = ["force"]
        if kind == "anc":
            mod.compute_ancillaries = lambda fd: {"E": 123.0}
            mod.parameter_anc_keys = ["E"]
            mod.parameter_anc_names = ["anc E"]
            mod.parameter_anc_units = ["Pa"]
        return mod, seen

    for kind in ("plain", "anc", "expr"):
        mod, seen = mk_module(kind)
        before = dict(nmodel.models_available)
        md = nmodel.register_model(mod)
        try:
            for t in range(40 if tier == "quick" else 400):
                n = rng.randint(2, 9)
                base = np.sort(np.array([rng.uniform(-3e-6, 3e-6) for _ in range(n)]))
                if len(np.unique(base)) < n:
                    continue
                p = md.get_parameter_defaults()
                p["E"].set(value=rng.uniform(1, 1e4))
                p["contact_point"].set(value=rng.uniform(-3e-6, 3e-6))
                p["baseline"].set(value=rng.uniform(-1e-9, 1e-9))
                pv = p.valuesdict()
                esum = pv["E"] + pv.get("E2", 0)
                for asc in (True, False):
                    d = base.copy() if asc else base[::-1].copy()
                    kd = d.copy()
                    desc = kd[::-1] if asc else kd
                    ref = pv["baseline"] + esum * np.cumsum(np.maximum(pv["contact_point"] - desc, 0))
                    ref = ref[::-1] if asc else ref
                    F = np.array([rng.uniform(-1e-9, 5e-9) for _ in range(n)])
                    W = rng.choice([0, 10 ** rng.uniform(-8, -5)])
                    del seen[:]
                    ne += 1
                    try:
                        got_m = md.model(p, d)
                        got_r = md.residual(p, d, F, W)
                    except Exception as exc:
                        problems.append({"kind": kind, "ascending": asc, "delta": kd.tolist(),
                                         "what": f"wrapper raised {exc!r}"[:120]})
                        break
                    w = np.minimum(np.abs(kd - pv["contact_point"]) / W, 1) if W else 1.0
                    want_r = (F - ref) * w
                    case = {"kind": kind, "ascending": asc, "delta": kd.tolist(), "weight_cp": W}
                    if any(s[0] < s[-1] for s in seen):
                        problems.append({**case, "what": "user function saw ascending abscissa"})
                    if not np.array_equal(d, kd):
                        problems.append({**case, "what": "abscissa modified"})
                    if not np.allclose(got_m, ref, rtol=1e-12, atol=0):
                        problems.append({**case, "what": "model output not in abscissa order"})
                    if not np.allclose(got_r, want_r, rtol=1e-12, atol=0):
                        problems.append({**case, "what": "default residual != (data-model)*weights"})
                    if len(samples) < 3:
                        samples.append(case)
                    if problems:
                        break
                if problems:
                    break
        finally:
            nmodel.deregister_model(md)
        if dict(nmodel.models_available) != before:
            problems.append({"kind": kind, "what": "registry not restored by deregister"})
        if problems:
            break
    res = UnitResult(unit="bounded.harness_models")
    res.bounded.append(BoundedResult(
        bid="C13.bounded.harness_models_through_registry", ok=not problems, evaluations=ne, distinct=ne,
        bound="3 harness model modules (order-sensitive, with ancillaries, with an expression parameter) x "
              "seeded abscissae of both orientations through the real register_model/model/residual",
        detail="all wrapper clauses hold" if not problems else str(problems[0]),
        samples=samples, failing_input=problems[0] if problems else None,
        witness="" if not problems else problems[0]["what"].replace(" ", "_"),
        time_s=round(time.time() - t0, 2)))
    return res


CANARIES = [
    dict(name="second reversal dropped", file="model/residuals.py", old="        return mf[::-1]",
         new="        return mf", expect="order_of_abscissa"),
    dict(name="direction test inverted", file="model/residuals.py", old="if delta[0] < delta[-1]:",
         new="if delta[0] > delta[-1]:", expect="user_function_sees_approach_order"),
    dict(name="weights divide instead of multiply", file="model/residuals.py", old="resid *= weights",
         new="resid /= weights", expect="residual"),
    dict(name="weights from delta instead of delta-cp", file="model/residuals.py", old="x = np.abs(delta-cp)",
         new="x = np.abs(delta)", expect="weights.value"),
    dict(name="in-place on caller's delta", file="model/residuals.py", old="x = np.abs(delta-cp)",
         new="x = delta\n    x -= cp\n    x = np.abs(x)", expect="frame.delta"),
    dict(name="autocomplete attaches model wrapper as residual", file="model/core.py",
         old="self.module.residual = residuals.get_default_residuals_wrapper(",
         new="self.module.residual = residuals.get_default_modeling_wrapper(", expect="default_residual_attached"),
]


def unit_canaries(tier=None, seed=None):
    from ..selftest import run_canaries
    return run_canaries("C13", CANARIES)


def units(tier):
    us = [
        Unit("model_direction_agnostic", resid.unit_mda, prop="C13", which="mda"),
        Unit("default_modeling_wrapper", resid.unit_mda, prop="C13", which="modeling_wrapper"),
        Unit("default_residuals_wrapper", resid.unit_mda, prop="C13", which="residuals_wrapper"),
        Unit("residual", resid.unit_residual, prop="C13"),
        Unit("weights", resid.unit_weights, prop="C13"),
        Unit("module_autocomplete", unit_autocomplete),
        Unit("lemma.residual_zero_at_truth", unit_zero_at_truth),
    ]
    us += [Unit(f"lemmas.{k}", unit_model_lemmas, key=k) for k in M.MODELS]
    # premises of those lemmas: every shipped model function satisfies its published-formula contract
    from . import c02
    us += [Unit(f"model.{k}", c02.unit_model, key=k, prop="C13") for k in M.MODELS]
    us += [Unit("bounded.clifford_monotone", unit_bounded_clifford_monotone),
           Unit("bounded.harness_models", unit_bounded_harness_models)]
    if tier == "thorough" and not os.environ.get("VF_NO_CANARIES") and str(REPO) == "/repo":
        us.append(Unit("selftest.canaries", unit_canaries))
    return us


def replay_file(path):
    import json
    d = json.load(open(path))

    class _O:
        model = d.get("model")
        oid = d["obligation"]
    unit = d["obligation"].split(".")[1]
    fn = {"weights": resid.replay_weights, "residual": resid.replay_residual,
          "model_direction_agnostic": lambda o: resid.replay_wrappers("mda", o),
          "default_modeling_wrapper": lambda o: resid.replay_wrappers("modeling_wrapper", o),
          "default_residuals_wrapper": lambda o: resid.replay_wrappers("residuals_wrapper", o)}.get(unit)
    if fn is None:
        print("no native replay for this obligation; re-run the check")
        return 0
    r = fn(_O)
    print(json.dumps(r, indent=1, default=str))
    return 1 if r.get("confirmed") else 0
