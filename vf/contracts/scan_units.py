"""Contract on IndentationFitter.compute_emodulus_vs_mindelta (shared by C05 and C11).

The modulus-plateau search fits the model for a grid of lower range bounds ("scan depths").  The fitter object is
built by the real ``__init__`` from a symbolic curve; ``fit()`` is under contract (it reads the private range
attributes and reports a modulus); the loop over the grid is verified for ONE ARBITRARY iteration (the loop body
does not depend on earlier iterations: it overwrites ``range_x`` and writes ``emoduli[ii]`` only).

Clauses (C05): the scan depths are ``num_samples`` values on a monotonic grid from the deepest MEASURED point of the
segment to 5 % of it; every fit of the scan uses the closed interval [depth_ii, xmax] in measured units, as an
absolute range with the plateau flag off; the flag is restored afterwards.  (C11): none of this depends on the
geometrical correction factor.
"""
from __future__ import annotations

import z3

from ..unit import Unit
from ..engine.prove import Session
from ..engine import symex as sx
from ..engine import values as V
from ..engine import arrays as A
from ..engine.values import SAtom, SReal, SBool, SInt, fresh
from ..engine.arrays import SArray, SCompressed
from ..engine.lmfit_model import sym_parameters
from . import fitter_units as FT


def unit_scan(prop, tier=None, seed=None):
    S = Session(prop, "compute_emodulus_vs_mindelta", "nanite.fit:IndentationFitter.compute_emodulus_vs_mindelta")
    S.check_domain = False
    st = {}

    def setup(I):
        st.pop("fits", None)
        o = FT._mk_fitter_init(I, S, st, plateau=True)
        # well-formed curve: the requested segment has at least one sample
        w0 = z3.Int("a_segment_sample")
        I.assume(z3.And(w0 >= 0, w0 < st["n"].term, st["seg"].uf(w0)))
        fits = []
        cls = st["cls"]
        ii = z3.Int("scan_index")

        def fit_contract(I, self):
            # contract of fit() as far as the scan needs it: reads the private range attributes, reports a modulus
            pf, pt = sym_parameters(I, FT.PN, prefix=f"scan_fit{len(fits)}")
            self.attrs["fp"].map.d["params_fitted"] = [True, pf]
            fits.append(dict(range_x=list(self.attrs["range_x"]), range_type=self.attrs["range_type"],
                             edelta=self.attrs["optimal_fit_edelta"], E=pt["E"]["value"]))
        cls.ns["fit"] = sx.Builtin("IndentationFitter.fit", fit_contract)
        st.update(fits=fits, ii=ii)
        I.ghost["symbolic_loop_index"] = ii
        f, _ = cls.find("compute_emodulus_vs_mindelta")
        return sx.BoundMethod(o, f), [], {}

    def post(S, out):
        I = S.I
        fits, ii = st["fits"], st["ii"]
        o = st["fitter"]
        case = {"outcome": repr(out), "fits": len(fits)}
        if out.kind != "return":
            # documented refusals: wrong orientation / no indentation found
            S.ensure("refusal_is_a_fit_error", out.raises("FitDataError") or out.raises("FitKeyError"), case=case)
            return
        rv = out.value
        ok = isinstance(rv, tuple) and len(rv) == 2 and all(isinstance(a, SArray) for a in rv)
        S.ensure("returns_moduli_and_depths", ok, case=case)
        if not ok:
            return
        emod, depths = rv
        x, seg, n = st["x"], st["seg"], st["n"].term
        ns = st["num_samples"]
        j, i = z3.Int("j"), z3.Int("i")
        S.names.update(i=i, j=j, scan_index=ii, num_samples=ns, gcf_k=st["k"])
        # deepest measured point of the segment (definitional)
        xmin = z3.Real("spec_xmin")
        w = z3.Int("spec_xmin_at")
        defs = [z3.ForAll([i], z3.Implies(z3.And(i >= 0, i < n, seg.uf(i)), x.uf(i) >= xmin)),
                z3.And(w >= 0, w < n, seg.uf(w), x.uf(w) == xmin)]
        S.ensure("requested_number_of_samples", z3.And(depths.len_term() == ns, emod.len_term() == ns), case=case)
        dj = V.rterm(depths.at(j))
        want = z3.If(ns > 1, xmin + z3.ToReal(j) * (xmin * z3.RealVal("0.05") - xmin) / z3.ToReal(ns - 1), xmin)
        if prop in ("C11", "C12"):
            # k-independence of the scan (C11) and independence of the lower range bound, which the hash ignores
            # with the plateau search on (C12), stated through nanite's documented grid: it is a function of the
            # MEASURED abscissa alone (C05 itself only asks for a monotonic grid inside the scanned depths, below)
            S.ensure("depth_grid_from_deepest_measured_point_to_5_percent",
                     z3.Implies(z3.And(j >= 0, j < ns), dj == want), extra=defs, case=case)
        # monotonic grid inside the scanned depths (consequence, stated because the property does)
        dj1 = V.rterm(depths.at(j + 1))
        S.ensure("depth_grid_is_monotonic_and_inside_the_segment",
                 z3.Implies(z3.And(j >= 0, j + 1 < ns, xmin < 0), z3.And(dj < dj1, dj >= xmin, dj1 <= 0)), extra=defs,
                 case=case)
        S.ensure("one_fit_per_scan_depth", len(fits) == 1, case=case)
        if len(fits) == 1:
            ft = fits[0]
            rx = ft["range_x"]
            okr = isinstance(rx, list) and len(rx) == 2
            # the fit at scan index ii uses the closed interval [depth_ii, upper bound]
            S.ensure("fit_range_is_depth_to_upper_bound", okr and I.valid(V.rterm(rx[0]) == V.rterm(depths.at(ii))),
                     case=case)
            if okr:
                # the larger of the two STORED range bounds (with the plateau search on, FitProperties ignores a
                # change of the lower bound alone -- the documented don't-care of C12)
                sa, sb = [V.rterm(v) for v in st["fp"].map.d["range_x"][1]]
                hi = z3.If(sa >= sb, sa, sb)
                S.ensure("upper_bound_is_the_requested_one", V.rterm(rx[1]) == hi, case=case)
            S.ensure("scan_fits_use_absolute_ranges_without_plateau_search",
                     ft["range_type"] == "absolute" and ft["edelta"] is False, case=case)
            S.ensure("modulus_recorded_at_its_depth", V.rterm(emod.at(ii)) == ft["E"], case=case)
        S.ensure("plateau_flag_restored", o.attrs["optimal_fit_edelta"] is True, case=case)
        S.ensure("frame.curve_data", not any(m is st["x"] or m is st["y"] for m in I.mutations), case=case)

    S.run(setup, post)
    return S.finish(replay=replay_scan)


def replay_scan(ob):
    """native: the scan grid and E(depth) of a recorded curve for k = 1 and k != 1"""
    import warnings
    import numpy as np
    import nanite
    import os
    warnings.simplefilter("ignore")
    data = os.path.join(os.environ.get("VF_REPO", "/repo"), "tests", "data", "fmt-jpk-fd_spot3-0192.jpk-force")
    P = ["compute_tip_position", "correct_force_offset", "correct_tip_offset"]
    if "no_stale_results" in ob.oid:
        # an approach segment of a few samples: scan passes succeed, the final fit has too few points
        for keep in (12, 16, 20):
            cur = nanite.IndentationGroup(data)[0]
            cur.apply_preprocessing(P)
            sg = np.array(cur["segment"]).copy()
            idx = np.where(sg == 0)[0]
            sg[idx[:-keep]] = 1
            cur["segment"] = sg
            try:
                cur.fit_model(model_key="hertz_para", optimal_fit_edelta=True, optimal_fit_num_samples=8,
                              range_x=(0, 0), segment=0)
            except BaseException:
                continue
            fp = cur.fit_properties
            left = [k_ for k_ in ("params_fitted", "chi_sqr", "xmin", "xmax") if k_ in fp]
            if not fp["success"] and left:
                return {"confirmed": True, "input": {"approach samples": keep, "optimal_fit_edelta": True,
                                                     "optimal_fit_num_samples": 8},
                        "observed": {"success": False, "result keys left behind": left},
                        "required": "an unsuccessful fit shows no numbers of another pass"}
        return {"confirmed": False}
    for k in (1.0, 0.5, 2.0):
        cur = nanite.IndentationGroup(data)[0]
        cur.apply_preprocessing(P)
        e, d = cur.compute_emodulus_mindelta(model_key="hertz_para", gcf_k=k, optimal_fit_num_samples=15,
                                             range_x=(0, 0), range_type="absolute", weight_cp=False, segment=0)
        x = np.array(cur["tip position"])[np.array(cur["segment"]) == 0]
        want = np.linspace(x.min(), x.min() * 0.05, 15)
        if len(d) != 15 or not np.allclose(d, want, rtol=1e-12, atol=0):
            return {"confirmed": True, "input": {"gcf_k": k, "num_samples": 15},
                    "observed": {"first": float(d[0]), "last": float(d[-1]), "n": len(d)},
                    "required": {"first": float(want[0]), "last": float(want[-1]), "n": 15}}
    return {"confirmed": False}


def unit_fit_plateau(prop, tier=None, seed=None):
    """fit() with the modulus-plateau search on: the scan and the plateau detection are under contract
    (compute_emodulus_vs_mindelta: unit above; compute_opt_mindelta -- Butterworth filter and labelling -- ASSUMED to
    return a depth between the smallest and the largest scan depth, exercised by the bounded plateau run), the
    recursion into fit() for the final fit is the real code, _fit is under contract (it reads the fit mask)."""
    S = Session(prop, "fit.plateau_search", "nanite.fit:IndentationFitter.fit")
    S.check_domain = False
    st = {}

    def setup(I):
        o = FT._mk_fitter_init(I, S, st, plateau=True)
        cls = st["cls"]
        ns = st["num_samples"]
        E = A.new_array_input(I, "scan_moduli", length=SInt(ns))
        D = A.new_array_input(I, "scan_depths", length=SInt(ns))
        dopt = z3.Real("optimal_depth")
        lo, hi = z3.Real("smallest_scan_depth"), z3.Real("largest_scan_depth")
        j = z3.Int("jj")
        I.assume(z3.And(z3.ForAll([j], z3.Implies(z3.And(j >= 0, j < ns), z3.And(D.uf(j) >= lo, D.uf(j) <= hi))),
                        dopt >= lo, dopt <= hi))
        passes = []

        def scan(I, self, callback=None):
            st["scan_called_with_flag"] = self.attrs["optimal_fit_edelta"]
            # (the scan fits once per depth and leaves the result keys of its last successful pass behind)
            for rk in ("params_fitted", "chi_sqr", "xmin", "xmax"):
                self.attrs["fp"].map.d[rk] = [True, sx.Opaque(f"scan leftover: {rk}")]
            return (E, D)

        def opt(I, *a):
            st["opt_args"] = a
            return SReal(dopt)

        def _fit_contract(I, self):
            # contract of _fit (proved separately): with too few points it reports success False and writes nothing
            snap = self.attrs["fit_range"].snap()
            ok = I.fork(z3.Bool(f"pass{len(passes)}_has_enough_points"))
            if ok:
                pf, _ = sym_parameters(I, FT.PN, prefix=f"pass{len(passes)}")
                self.attrs["fp"].map.d["params_fitted"] = [True, pf]
                for rk in ("chi_sqr", "xmin", "xmax"):
                    self.attrs["fp"].map.d[rk] = [True, SReal(z3.Real(f"{rk}_pass{len(passes)}"))]
                self.attrs["fp"].map.d["success"] = [True, True]
            else:
                self.attrs["fp"].map.d["success"] = [True, False]
            passes.append(dict(mask=snap, flag=self.attrs["optimal_fit_edelta"], ok=ok))
        cls.ns["compute_emodulus_vs_mindelta"] = sx.Builtin("scan", scan)
        cls.ns["compute_opt_mindelta"] = sx.Builtin("opt", lambda I, *a: opt(I, *a))
        cls.ns["_fit"] = sx.Builtin("IndentationFitter._fit", _fit_contract)
        st.update(E=E, D=D, dopt=dopt, passes=passes, lo=lo, hi=hi)
        f, _ = cls.find("fit")
        return sx.BoundMethod(o, f), [], {}

    def post(S, out):
        I = S.I
        if out.kind != "return":
            S.fail("no_exception", f"raises {out.value.cls.name}")
            return
        S.ok("no_exception")
        o, fp, passes = st["fitter"], st["fp"], st["passes"]
        x, seg, n, dopt = st["x"], st["seg"], st["n"].term, st["dopt"]
        i = z3.Int("i")
        S.names.update(i=i, optimal_depth=dopt, gcf_k=st["k"])
        e = fp.map.d
        S.ensure("reported_optimal_indentation_is_the_detected_plateau",
                 "optimal_fit_delta" in e and e["optimal_fit_delta"][0] is True
                 and I.valid(V.rterm(e["optimal_fit_delta"][1]) == dopt))
        S.ensure("scan_arrays_reported", e.get("optimal_fit_E_array", [0, None])[1] is st["E"]
                 and e.get("optimal_fit_delta_array", [0, None])[1] is st["D"])
        S.ensure("optimal_indentation_inside_the_scanned_depths", z3.And(dopt >= st["lo"], dopt <= st["hi"]))
        S.ensure("one_final_fit", len(passes) >= 1)
        if passes:
            sa, sb = [V.rterm(v) for v in fp.map.d["range_x"][1]]
            up = z3.If(sa >= sb, sa, sb)
            lo_, hi_ = z3.If(dopt <= up, dopt, up), z3.If(dopt <= up, up, dopt)
            inside = z3.And(x.uf(i) >= lo_, x.uf(i) <= hi_)
            want = z3.And(seg.uf(i), z3.Or(dopt == up, inside))
            S.ensure("final_fit_uses_optimal_indentation_to_upper_bound",
                     z3.Implies(z3.And(i >= 0, i < n), V.bterm(passes[-1]["mask"](i)) == want))
        if passes and not passes[-1]["ok"]:
            # "an unsuccessful fit leaves NaN columns and success False instead of stale numbers"
            left = [rk for rk in ("params_fitted", "chi_sqr", "xmin", "xmax")
                    if o.attrs["fp"].map.d.get(rk, [False])[0] is not False]
            S.ensure("unsuccessful_fit_reports_no_stale_results", not left, case={"left_behind": left},
                     witness="plateau_search")
        S.ensure("plateau_flag_on_again_afterwards", o.attrs["optimal_fit_edelta"] is True)
        S.ensure("stored_range_not_modified", I.valid(z3.And(*[V.rterm(a) == V.rterm(b) for a, b in
                                                              zip(fp.map.d["range_x"][1], st["fp_range0"])])))

    S.run(setup, post)
    return S.finish(replay=replay_scan)


def units_for(prop):
    us = [Unit("compute_emodulus_vs_mindelta", unit_scan, prop=prop)]
    if prop in ("C05", "C04"):
        us.append(Unit("fit.plateau_search", unit_fit_plateau, prop=prop))
    return us
