"""Contracts on nanite/model/residuals.py (shared by C04, C10 and C13).

The user's model function is an *uninterpreted* array function G (ufun.ArrayUF):
result[i] = G(i, <array it was called with>, n).  That is what covers
"for every registered model, shipped or user-supplied".
"""
from __future__ import annotations

import z3

from ..engine.prove import Session
from ..engine import arrays as A, values as V
from ..engine import symex as sx
from ..engine.values import SReal
from ..engine.ufun import ArrayUF
from ..engine.lmfit_model import sym_parameters

MOD = "nanite.model.residuals"
PNAMES = ["E", "R", "nu", "contact_point", "baseline"]


def _weights_spec(dk, cp, W):
    x = dk - cp
    ab = z3.If(x >= 0, x, -x) / W
    return z3.If(ab > 1, z3.RealVal(1), ab)


# ------------------------------------------------------------------ compute_contact_point_weights
def unit_weights(prop, tier=None, seed=None):
    S = Session(prop, "weights", f"{MOD}:compute_contact_point_weights")
    st = {}

    def setup(I):
        f = I.lookup_qual(f"{MOD}:compute_contact_point_weights")
        delta = A.new_array_input(I, "delta")
        cp, W = z3.Real("cp"), z3.Real("W")
        I.assume(W > 0)
        st.update(delta=delta, cp=cp, W=W)
        S.names.update(cp=cp, W=W)
        return f, [], dict(cp=SReal(cp), delta=delta, weight_dist=SReal(W))

    def post(S, out):
        I = S.I
        if out.kind != "return" or not isinstance(out.value, A.SArray):
            S.fail("returns_array", f"{out!r}")
            return
        S.ok("returns_array")
        res, d = out.value, st["delta"]
        k = z3.Int("k")
        n = d.len_term()
        S.names.update(k=k, len=n, delta_k=d.uf(k))
        val = res.at(k)
        inr = z3.And(k >= 0, k < n)
        # from the statement: rise linearly from 0 at the contact point to 1 at the weighting distance
        S.ensure("value", z3.Implies(inr, val.term == _weights_spec(d.uf(k), st["cp"], st["W"])))
        S.ensure("range_0_1", z3.Implies(inr, z3.And(val.term >= 0, val.term <= 1)))
        S.ensure("zero_at_cp", z3.Implies(z3.And(inr, d.uf(k) == st["cp"]), val.term == 0))
        S.ensure("shape", res.len_term() == n)
        S.ensure("frame.delta", not any(m is d for m in I.mutations))
        S.ensure("result_fresh", res.root() is not d)

    S.run(setup, post)
    return S.finish(replay=replay_weights)


def replay_weights(ob):
    import numpy as np
    import random
    from nanite.model.residuals import compute_contact_point_weights as f
    rng = random.Random(2)
    for t in range(300):
        n = rng.randint(1, 6)
        d = np.array([rng.uniform(-3e-6, 3e-6) for _ in range(n)])
        cp = rng.choice([float(d[0]), rng.uniform(-3e-6, 3e-6)])
        W = 10 ** rng.uniform(-8, -5)
        keep = d.copy()
        got = f(cp=cp, delta=d, weight_dist=W)
        want = np.minimum(np.abs(keep - cp) / W, 1)
        if not np.array_equal(d, keep) or np.shares_memory(got, d):
            return {"confirmed": True, "input": {"delta": keep.tolist(), "cp": cp, "W": W},
                    "observed": "delta modified / aliased by result", "required": "delta untouched, fresh result"}
        if got.shape != want.shape or not np.allclose(got, want, rtol=1e-12, atol=0):
            return {"confirmed": True, "input": {"delta": keep.tolist(), "cp": cp, "W": W},
                    "observed": got.tolist(), "required": want.tolist()}
    return {"confirmed": False, "tried": 300}


# ------------------------------------------------------------------ residual
def unit_residual(prop, tier=None, seed=None):
    S = Session(prop, "residual", f"{MOD}:residual")
    st = {}

    def setup(I):
        f = I.lookup_qual(f"{MOD}:residual")
        delta = A.new_array_input(I, "delta")
        force = A.new_array_input(I, "force", length=delta.length)
        W = z3.Real("W")
        I.assume(W >= 0)
        params, pt = sym_parameters(I, PNAMES)
        g = ArrayUF("g_model")

        def model(I, p, d):
            # the callable handed to residual(): model(params, delta)
            return g.value(I)(I, d)
        from ..engine.symex import Builtin
        st.update(delta=delta, force=force, W=W, params=params, pt=pt, g=g)
        S.names.update(W=W, cp=pt["contact_point"]["value"])
        return f, [], dict(params=params, delta=delta, force=force,
                           model=Builtin("model", lambda I, p, d: g.value(I).fn(I, d)), weight_cp=SReal(W))

    def post(S, out):
        I = S.I
        if out.kind != "return" or not isinstance(out.value, A.SArray):
            S.fail("returns_array", f"{out!r}")
            return
        S.ok("returns_array")
        res, d, F, W, g = out.value, st["delta"], st["force"], st["W"], st["g"]
        cp = st["pt"]["contact_point"]["value"]
        k = z3.Int("k")
        n = d.len_term()
        inr = z3.And(k >= 0, k < n)
        S.names.update(k=k, len=n, delta_k=d.uf(k), force_k=F.uf(k))
        S.ensure("model_called_on_delta", len(g.calls) >= 1 and all(c["delta"] is d for c in g.calls))
        mk = g.apply_term(k, lambda j: d.uf(j), n)
        val = res.at(k)
        S.names.update(model_k=mk, result_k=val.term)
        # statement: residuals = (data minus fit) times the contact-point weights; weights 1 when off
        S.ensure("value_weighted", z3.Implies(z3.And(inr, W > 0),
                                              val.term == (F.uf(k) - mk) * _weights_spec(d.uf(k), cp, W)))
        S.ensure("value_unweighted", z3.Implies(z3.And(inr, W == 0), val.term == F.uf(k) - mk))
        S.ensure("shape", res.len_term() == n)
        S.ensure("frame.delta", not any(m is d for m in I.mutations))
        S.ensure("frame.force", not any(m is F for m in I.mutations))
        S.ensure("frame.params", not any(isinstance(m, tuple) and getattr(m[0], "cls", None) is I.lmfit["Parameter"]
                                         for m in I.mutations))
        S.ensure("result_fresh", res.root() is not d and res.root() is not F)

    S.run(setup, post)
    return S.finish(replay=replay_residual)


def replay_residual(ob):
    import numpy as np
    import random
    import lmfit
    from nanite.model.residuals import residual as f
    rng = random.Random(3)
    for t in range(300):
        n = rng.randint(2, 7)
        d = np.sort(np.array([rng.uniform(-3e-6, 3e-6) for _ in range(n)]))[::-1].copy()
        F = np.array([rng.uniform(-1e-9, 5e-9) for _ in range(n)])
        cp = rng.uniform(-3e-6, 3e-6)
        W = rng.choice([0, 0.0, False, 10 ** rng.uniform(-8, -5)])
        p = lmfit.Parameters()
        p.add("contact_point", value=cp)
        md = np.array([rng.uniform(-1e-9, 5e-9) for _ in range(n)])
        seen = []

        def model(params, delta):
            seen.append(delta.copy())
            return md.copy()
        kd, kF = d.copy(), F.copy()
        got = f(params=p, delta=d, force=F, model=model, weight_cp=W)
        w = np.minimum(np.abs(kd - cp) / W, 1) if W else 1.0
        want = (kF - md) * w
        inp = {"delta": kd.tolist(), "force": kF.tolist(), "model": md.tolist(), "cp": cp, "weight_cp": W}
        if not np.array_equal(d, kd) or not np.array_equal(F, kF) or p["contact_point"].value != cp:
            return {"confirmed": True, "input": inp, "observed": "an input was modified", "required": "inputs untouched"}
        if not np.allclose(got, want, rtol=1e-12, atol=0):
            return {"confirmed": True, "input": inp, "observed": got.tolist(), "required": want.tolist()}
    return {"confirmed": False, "tried": 300}


# ------------------------------------------------------------------ model_direction_agnostic and the wrappers
def _mda_common(S, st, which):
    """setup/post for model_direction_agnostic(g, params, delta) and for the closures
    returned by get_default_modeling_wrapper / get_default_residuals_wrapper"""

    def on_call(I, call):
        # "the user's function always sees approach-ordered data": first >= last
        n = call["n"]
        snap = call["snap"]
        first, last = V.rterm(snap(z3.IntVal(0))), V.rterm(snap(n - 1))
        S.ensure("user_function_sees_approach_order", first >= last)
        # parameters are passed as keyword arguments name -> current value
        want = {k: e[1].attrs["value"] for k, e in st["params"].map.d.items()}
        ok = sorted(call["kwargs"]) == sorted(want) and all(call["kwargs"][k] is want[k] for k in want) \
            and not call["args"]
        S.ensure("user_function_gets_parameter_values", ok)

    def setup(I):
        delta = A.new_array_input(I, "delta")
        I.assume(delta.len_term() >= 1)
        params, pt = sym_parameters(I, PNAMES)
        g = ArrayUF("g_model")
        gv = g.value(I, on_call=on_call)
        st.update(delta=delta, params=params, pt=pt, g=g)
        S.names.update(len=delta.len_term(), delta_first=delta.uf(0), delta_last=delta.uf(delta.len_term() - 1))
        if which == "mda":
            f = I.lookup_qual(f"{MOD}:model_direction_agnostic")
            return f, [], dict(model_function=gv, params=params, delta=delta)
        if which == "modeling_wrapper":
            mk = I.lookup_qual(f"{MOD}:get_default_modeling_wrapper")
            f = I.call(mk, [gv], {})
            st["wrapper"] = f
            return f, [params, delta], {}
        if which == "residuals_wrapper":
            mk = I.lookup_qual(f"{MOD}:get_default_residuals_wrapper")
            f = I.call(mk, [gv], {})
            st["wrapper"] = f
            force = A.new_array_input(I, "force", length=delta.length)
            W = z3.Real("W")
            I.assume(W >= 0)
            st.update(force=force, W=W)
            S.names.update(W=W, cp=pt["contact_point"]["value"])
            return f, [params, delta, force], dict(weight_cp=SReal(W))
        raise KeyError(which)

    def model_spec(k):
        d, g = st["delta"], st["g"]
        n = d.len_term()
        asc = d.uf(0) < d.uf(n - 1)
        fwd = g.apply_term(k, lambda j: d.uf(j), n)
        rev = g.apply_term(n - 1 - k, lambda j: d.uf(n - 1 - j), n)
        return z3.If(asc, rev, fwd)

    def post(S, out):
        I = S.I
        if out.kind != "return" or not isinstance(out.value, A.SArray):
            S.fail("returns_array", f"{out!r}")
            return
        S.ok("returns_array")
        res, d, g = out.value, st["delta"], st["g"]
        n = d.len_term()
        k = z3.Int("k")
        inr = z3.And(k >= 0, k < n)
        S.names.update(k=k, delta_k=d.uf(k))
        S.ensure("user_function_called", len(g.calls) >= 1)
        val = res.at(k)
        S.ensure("shape", res.len_term() == n)
        S.ensure("frame.delta", not any(m is d for m in I.mutations))
        w = st.get("wrapper")
        if w is not None and getattr(w, "closure", None) is not None:
            # the wrapper is a function of its argument VALUES: state it keeps between calls must not alias the
            # caller's array, the parameters or the array it returned (an identity-keyed memo makes the force depend
            # on earlier calls and on later in-place edits; a memo of copies would be invisible and is not flagged)
            def held(v):
                if isinstance(v, sx.SDict):
                    return [e[1] for e in v.d.values()]
                if isinstance(v, (list, tuple)):
                    return list(v)
                return [v]
            cells = [v for v in w.closure.vars.values() if isinstance(v, (list, sx.SDict, sx.Obj, A.SArray))]
            aliased = [type(x).__name__ for v in cells
                       if any(m is v or (isinstance(m, tuple) and m[0] is v) for m in I.mutations)
                       for x in held(v) if x is d or x is res or x is st["params"]]
            S.ensure("wrapper_keeps_no_reference_to_arguments_or_result", not aliased,
                     case={"remembered_between_calls": aliased})
        S.ensure("frame.params", not any(isinstance(m, tuple) and getattr(m[0], "cls", None) is I.lmfit["Parameter"]
                                         for m in I.mutations))
        if which in ("mda", "modeling_wrapper"):
            # output has the order of the abscissa: reversed in, reversed back out
            S.ensure("order_of_abscissa", z3.Implies(inr, val.term == model_spec(k)))
            # corollary for pointwise models: result[i] = g0(delta[i]) in either orientation
            g0 = z3.Function("g0", z3.RealSort(), z3.RealSort())
            ii, nn = z3.Int("ii"), z3.Int("nn")
            aa = z3.Const("aa", z3.ArraySort(z3.IntSort(), z3.RealSort()))
            pw = z3.ForAll([ii, aa, nn], g.G(ii, aa, nn) == g0(z3.Select(aa, ii)))
            S.ensure("pointwise_model_value", z3.Implies(inr, val.term == g0(d.uf(k))), extra=[pw])
        else:
            F, W = st["force"], st["W"]
            cp = st["pt"]["contact_point"]["value"]
            S.names.update(force_k=F.uf(k), result_k=val.term)
            S.ensure("default_residual_weighted",
                     z3.Implies(z3.And(inr, W > 0),
                                val.term == (F.uf(k) - model_spec(k)) * _weights_spec(d.uf(k), cp, W)))
            S.ensure("default_residual_unweighted",
                     z3.Implies(z3.And(inr, W == 0), val.term == F.uf(k) - model_spec(k)))
            S.ensure("frame.force", not any(m is F for m in I.mutations))

    return setup, post


def unit_mda(prop, which="mda", tier=None, seed=None):
    name = {"mda": "model_direction_agnostic", "modeling_wrapper": "default_modeling_wrapper",
            "residuals_wrapper": "default_residuals_wrapper"}[which]
    target = {"mda": f"{MOD}:model_direction_agnostic",
              "modeling_wrapper": f"{MOD}:get_default_modeling_wrapper.<locals>.default_modeling_wrapper",
              "residuals_wrapper": f"{MOD}:get_default_residuals_wrapper.<locals>.default_residuals_wrapper"}[which]
    S = Session(prop, name, target)
    st = {}
    setup, post = _mda_common(S, st, which)
    S.run(setup, post)
    return S.finish(replay=lambda ob: replay_wrappers(which, ob))


def replay_wrappers(which, ob):
    """native: an order-sensitive (cumulative) user model through the real wrappers,
    ascending and descending abscissae"""
    import numpy as np
    import random
    import lmfit
    from nanite.model import residuals as R
    rng = random.Random(4)

    def user_model(delta, E, contact_point, baseline):
        seen.append(delta.copy())
        # deliberately order-sensitive: cumulative sum along the array it is given
        return baseline + E * np.cumsum(np.maximum(contact_point - delta, 0))

    for t in range(200):
        n = rng.randint(2, 8)
        base = np.sort(np.array([rng.uniform(-3e-6, 3e-6) for _ in range(n)]))
        if len(np.unique(base)) < n:
            continue
        for asc in (True, False):
            d = base.copy() if asc else base[::-1].copy()
            p = lmfit.Parameters()
            p.add("E", value=rng.uniform(1, 1e4))
            p.add("contact_point", value=rng.uniform(-3e-6, 3e-6))
            p.add("baseline", value=rng.uniform(-1e-9, 1e-9))
            seen = []
            kd = d.copy()
            pv = p.valuesdict()
            desc = kd[::-1] if asc else kd
            ref_desc = pv["baseline"] + pv["E"] * np.cumsum(np.maximum(pv["contact_point"] - desc, 0))
            ref = ref_desc[::-1] if asc else ref_desc
            F = np.array([rng.uniform(-1e-9, 5e-9) for _ in range(n)])
            W = rng.choice([0, 10 ** rng.uniform(-8, -5)])
            if which == "mda":
                got = R.model_direction_agnostic(user_model, p, d)
                want = ref
            elif which == "modeling_wrapper":
                got = R.get_default_modeling_wrapper(user_model)(p, d)
                want = ref
            else:
                got = R.get_default_residuals_wrapper(user_model)(p, d, F, weight_cp=W)
                w = np.minimum(np.abs(kd - pv["contact_point"]) / W, 1) if W else 1.0
                want = (F - ref) * w
            inp = {"delta": kd.tolist(), "ascending": asc, "params": dict(pv), "weight_cp": W}
            if any(s[0] < s[-1] for s in seen):
                return {"confirmed": True, "input": inp, "observed": "user function saw ascending abscissa",
                        "required": "approach-ordered (descending) data"}
            if not np.array_equal(d, kd):
                return {"confirmed": True, "input": inp, "observed": "delta modified", "required": "untouched"}
            if np.shape(got) != np.shape(want) or not np.allclose(got, want, rtol=1e-12, atol=0):
                return {"confirmed": True, "input": inp, "observed": np.asarray(got).tolist(),
                        "required": np.asarray(want).tolist()}
    return {"confirmed": False, "tried": 400}
