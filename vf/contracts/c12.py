"""C12  The fit hash identifies data plus effective settings, deterministically.

md5 is assumed injective (collision-free); the hash is then decided on its
pre-image.  ``obj2bytes`` is executed symbolically: bytes are lists of typed
chunks (utf8 text / text of str(float(v)) / raw array bytes / literal).

  _hash        two fitters A and B in one path, every setting symbolic:
               all effective settings and data equal  =>  equal pre-image;
               value of key k differs                 =>  pre-image differs   (one obligation per key /
                                                           parameter attribute / data sample);
               documented don't-cares do not enter the pre-image.
  obj2bytes    representation independence (int/float/bool, tuple/list, dict and Parameters
               insertion order), every Parameter attribute encoded, totality over the value types
               a setting may hold (incl. numpy scalars).
  purity       syntactic whitelist: no hash()/id()/repr()/set iteration/global state.
  concatenation lists are joined WITHOUT separators: unambiguity of adjacent numeric fields is a
               string lemma (z3 strings).  It is refuted ("0.11"+"6.2" = "0.1"+"16.2"): genuine
               defect, recorded as a known finding (hash-format change is not a small safe repair).
"""
from __future__ import annotations

import ast
import itertools
import os

import z3

from ..core import REPO, SRC, UnitResult, BoundedResult, ObResult, DISCHARGED, REFUTED, UNDECIDED
from ..unit import Unit
from ..engine.prove import Session, solve
from ..engine import symex as sx
from ..engine import values as V
from ..engine import lib as L
from ..engine import arrays as A
from ..engine.values import SAtom, SReal, SBool, SInt
from ..engine.lmfit_model import sym_parameters
from .c13 import lemma_session

LEVEL = "other"
EXPLANATION = ("Proof-level obligations on the real _hash/obj2bytes (pre-image coverage, don't-cares, "
               "representation independence, totality, purity) are discharged deductively; the property as a "
               "whole is NOT proved on this tree: the separator-free concatenation in obj2bytes is ambiguous "
               "(obligation C12.lemma.concat_unambiguous refuted, replayed natively) and is carried as a known "
               "finding. md5 collision-freeness is assumed. Bounded: hashes across processes / PYTHONHASHSEED.")
PARAMS = ["E", "contact_point"]


def chunk_eq(c1, c2):
    """z3 Bool (or python bool) saying two chunks denote the same bytes"""
    if c1[0] != c2[0]:
        return False
    k = c1[0]
    if k in ("num", "inttxt", "booltxt"):
        return V.rterm(c1[1]) == V.rterm(c2[1])
    if k == "utf8":
        a, b = c1[1], c2[1]
        if isinstance(a, str) and isinstance(b, str):
            return a == b
        ca = z3.IntVal(V.str_code(a)) if isinstance(a, str) else a.term
        cb = z3.IntVal(V.str_code(b)) if isinstance(b, str) else b.term
        return ca == cb
    if k == "lit":
        return c1[1] == c2[1]
    if k == "raw":
        a, b = c1[1], c2[1]
        i = z3.Int("raw_i")
        n = a.len_term()
        return z3.And(n == b.len_term(),
                      z3.ForAll([i], z3.Implies(z3.And(i >= 0, i < n), V.rterm(a.at(i)) == V.rterm(b.at(i)))))
    raise KeyError(k)


def chunks_eq(b1, b2):
    if len(b1.chunks) != len(b2.chunks):
        return z3.BoolVal(False)
    parts = []
    for c1, c2 in zip(b1.chunks, b2.chunks):
        e = chunk_eq(c1, c2)
        if e is False:
            return z3.BoolVal(False)
        if e is not True:
            parts.append(e)
    return z3.And(*parts) if parts else z3.BoolVal(True)


# ------------------------------------------------------------------ _hash
class Settings:
    """one symbolic assignment of all FP_DEFAULT settings + data"""

    def __init__(self, I, tag, edelta):
        t = tag
        self.edelta = edelta
        self.t = {
            "model_key": z3.Int(f"{t}_model_key"), "num_samples": z3.Int(f"{t}_num_samples"),
            "pre0": z3.Int(f"{t}_pre0"), "pre1": z3.Int(f"{t}_pre1"), "opt_method": z3.Int(f"{t}_opt_method"),
            "range_type": z3.Int(f"{t}_range_type"), "range_lo": z3.Real(f"{t}_range_lo"),
            "range_hi": z3.Real(f"{t}_range_hi"), "segment": z3.Int(f"{t}_segment"),
            "weight_cp": z3.Real(f"{t}_weight_cp"), "gcf_k": z3.Real(f"{t}_gcf_k"),
            "x_axis": z3.Int(f"{t}_x_axis"), "y_axis": z3.Int(f"{t}_y_axis"), "method": z3.Int(f"{t}_method"),
            "kws_max_nfev": z3.Int(f"{t}_max_nfev"),
        }
        self.params, self.pt = sym_parameters(I, PARAMS, prefix=f"{t}_par")
        self.x = A.new_array_input(I, f"{t}_xdata")
        self.y = A.new_array_input(I, f"{t}_ydata", length=self.x.length)
        tt = self.t
        self.fp = sx.SDict([
            ("model_key", SAtom(tt["model_key"])), ("optimal_fit_edelta", edelta),
            ("optimal_fit_num_samples", SInt(tt["num_samples"])), ("params_initial", self.params),
            ("preprocessing", [SAtom(tt["pre0"]), SAtom(tt["pre1"])]),
            ("preprocessing_options", sx.SDict([("correct_tip_offset",
                                                 sx.SDict([("method", SAtom(tt["opt_method"]))]))])),
            ("range_type", SAtom(tt["range_type"])), ("range_x", [SReal(tt["range_lo"]), SReal(tt["range_hi"])]),
            ("segment", SInt(tt["segment"])), ("weight_cp", SReal(tt["weight_cp"])),
            ("gcf_k", SReal(tt["gcf_k"])), ("x_axis", SAtom(tt["x_axis"])), ("y_axis", SAtom(tt["y_axis"])),
            ("method", SAtom(tt["method"])), ("method_kws", sx.SDict([("max_nfev", SInt(tt["kws_max_nfev"]))])),
        ])

    def components(self):
        """name -> z3 term, for every single value that can influence a fit"""
        c = dict(self.t)
        for n in PARAMS:
            for a in ("value", "min", "max", "vary", "expr", "brute_step"):
                c[f"params_initial.{n}.{a}"] = self.pt[n][a]
        return c

    def fitter(self, I):
        cls = I.lookup_qual("nanite.fit:IndentationFitter")
        fpcls = I.lookup_qual("nanite.fit:FitProperties")
        fp = sx.Obj(fpcls)
        fp.map = self.fp
        o = sx.Obj(cls)
        o.attrs.update(fp=fp, x_axis=self.x, y_axis=self.y)
        return o, cls


def unit_hash(tier=None, seed=None):
    S = Session("C12", "_hash", "nanite.fit:IndentationFitter._hash")
    st = {}

    def setup(I):
        eA = I.fork(z3.Bool("A_optimal_fit_edelta"))
        eB = I.fork(z3.Bool("B_optimal_fit_edelta"))
        A_, B_ = Settings(I, "A", eA), Settings(I, "B", eB)
        fa, cls = A_.fitter(I)
        fb, _ = B_.fitter(I)
        hfn, _ = cls.find("_hash")
        st.update(A=A_, B=B_, fp_default=list(I.module("nanite.fit").env.vars["FP_DEFAULT"].d))

        def driver(I):
            return (I.call(sx.BoundMethod(fa, hfn), [], {}), I.call(sx.BoundMethod(fb, hfn), [], {}))
        return sx.Builtin("driver", driver), [], {}

    def post(S, out):
        I = S.I
        if out.kind != "return":
            S.fail("total", repr(out))
            return
        S.ok("total")
        ha, hb = out.value
        ok_shape = all(isinstance(h, tuple) and h[0] == "__md5__" and isinstance(h[1], L.SBytes) for h in (ha, hb))
        S.ensure("hash_is_md5_of_obj2bytes", ok_shape)
        if not ok_shape:
            return
        ba, bb = ha[1], hb[1]
        E = chunks_eq(ba, bb)
        A_, B_ = st["A"], st["B"]
        ca, cb = A_.components(), B_.components()
        data_eq = z3.And(A_.x.len_term() == B_.x.len_term(),
                         *[z3.ForAll([z3.Int("di")], z3.Implies(z3.And(z3.Int("di") >= 0, z3.Int("di") < A_.x.len_term()),
                                                                 z3.And(A_.x.uf(z3.Int("di")) == B_.x.uf(z3.Int("di")),
                                                                        A_.y.uf(z3.Int("di")) == B_.y.uf(z3.Int("di")))))])
        sfx = f"edelta_{'on' if A_.edelta else 'off'}_{'on' if B_.edelta else 'off'}"
        if A_.edelta == B_.edelta:
            dontcare = {"num_samples"} if not A_.edelta else {"range_lo"}
            eq_all = z3.And(data_eq, *[ca[k] == cb[k] for k in ca if k not in dontcare])
            # equal data, preprocessing and effective settings  =>  equal hashes
            # (the documented don't-care is left free in the antecedent)
            S.ensure(f"equal_effective_settings_equal_hash.{sfx}", z3.Implies(eq_all, E))
            for k in ca:
                if k in dontcare:
                    continue
                S.ensure(f"change_detected.{k}", z3.Implies(ca[k] != cb[k], z3.Not(E)))
            j = z3.Int("sample_j")
            n = A_.x.len_term()
            S.ensure("change_detected.x_sample", z3.Implies(
                z3.And(n == B_.x.len_term(), j >= 0, j < n, A_.x.uf(j) != B_.x.uf(j)), z3.Not(E)))
            S.ensure("change_detected.y_sample", z3.Implies(
                z3.And(n == B_.x.len_term(), j >= 0, j < n, A_.y.uf(j) != B_.y.uf(j)), z3.Not(E)))
        else:
            S.ensure("change_detected.optimal_fit_edelta", z3.Not(E))
        # nothing but FP_DEFAULT keys, preprocessing and the axis data enters (no ids, no result keys)
        S.ensure("every_FP_DEFAULT_key_visited", set(st["fp_default"]) == set(A_.fp.d))

    S.run(setup, post)
    return S.finish(replay=replay_hash)


def replay_hash(ob):
    """native: vary the named component on the real fitter and compare hashes"""
    import copy
    import numpy as np
    import nanite
    from nanite.fit import IndentationFitter
    clause = ob.oid.split(".", 2)[-1]
    data = os.path.join(os.environ.get("VF_REPO", "/repo"), "tests", "data", "fmt-jpk-fd_spot3-0192.jpk-force")
    idnt = nanite.IndentationGroup(data)[0]
    idnt.apply_preprocessing(["compute_tip_position", "correct_force_offset", "correct_tip_offset"])
    base = dict(model_key="hertz_para", range_x=[-1e-6, 2e-6], weight_cp=5e-7, gcf_k=1.0, segment=0,
                method="leastsq", method_kws={}, range_type="absolute", optimal_fit_edelta=False,
                optimal_fit_num_samples=100)

    def H(**kw):
        k = dict(base)
        k.update(kw)
        return IndentationFitter(idnt, **k).hash
    h0 = H()
    trials = []
    comp = clause.split(".", 1)[1] if clause.startswith("change_detected.") else None
    alt = {"range_lo": dict(range_x=[-2e-6, 2e-6]), "range_hi": dict(range_x=[-1e-6, 3e-6]),
           "weight_cp": dict(weight_cp=6e-7), "gcf_k": dict(gcf_k=0.5), "segment": dict(segment=1),
           "method": dict(method="nelder"), "kws_max_nfev": dict(method_kws={"max_nfev": 7}),
           "range_type": dict(range_type="relative cp"), "model_key": dict(model_key="hertz_cone"),
           "optimal_fit_edelta": dict(optimal_fit_edelta=True),
           "num_samples": dict(optimal_fit_edelta=True, optimal_fit_num_samples=7)}
    if comp in alt:
        kw = alt[comp]
        ref = H(optimal_fit_edelta=True) if comp == "num_samples" else h0
        h1 = H(**kw)
        if h1 == ref:
            return {"confirmed": True, "input": kw, "observed": "hash unchanged", "required": "hash changes"}
    if comp and comp.startswith("params_initial."):
        _, name, attr = comp.split(".")
        p = idnt.get_initial_fit_parameters(model_key="hertz_para")
        p2 = copy.deepcopy(p)
        if attr == "value":
            p2[name].value = p2[name].value + 1.0
        elif attr == "min":
            p2[name].min = -12345.0
        elif attr == "max":
            p2[name].max = 12345678.0
        elif attr == "vary":
            p2[name].vary = not p2[name].vary
        elif attr == "expr":
            return {"confirmed": False, "why": "expr change not replayed natively"}
        if H(params_initial=p) == H(params_initial=p2):
            return {"confirmed": True, "input": comp, "observed": "hash unchanged", "required": "hash changes"}
    if clause.startswith("equal_effective"):
        if H(range_x=(-1e-6, 2e-6), segment=False) != h0 or H(optimal_fit_num_samples=5) != h0:
            return {"confirmed": True, "observed": "hash differs for equal effective settings "
                    "(tuple/list, bool/int, or sample count with plateau search off)"}
        if H(optimal_fit_edelta=True, range_x=[-1e-6, 2e-6]) != H(optimal_fit_edelta=True, range_x=[-3e-6, 2e-6]):
            return {"confirmed": True, "observed": "hash depends on the lower range bound although plateau "
                    "search is on (documented don't-care)"}
    return {"confirmed": False}


# ------------------------------------------------------------------ obj2bytes
def _np_int(I, term):
    cls = sx.ClassVal("numpy.int64", [sx.OBJECT], {})
    return sx.Obj(cls, {"value": SInt(term)})


def unit_obj2bytes(tier=None, seed=None):
    S = Session("C12", "obj2bytes", "nanite.fit:obj2bytes")
    CASES = ["int_vs_float", "bool_vs_int", "tuple_vs_list", "dict_order", "parameters_order",
             "parameter_attrs", "none_str", "numpy_integer", "numpy_float32", "nested"]
    st = {}

    def setup(I):
        f = I.lookup_qual("nanite.fit:obj2bytes")
        ci = I.choose([z3.Int("case") == i for i in range(len(CASES))])
        if ci >= len(CASES):
            raise sx.PathAbort()
        case = CASES[ci]
        n, x, b = z3.Int("n"), z3.Real("x"), z3.Bool("b")
        a1, a2 = SAtom(z3.Int("s1")), SAtom(z3.Int("s2"))
        if case == "int_vs_float":
            objs = (SInt(n), SReal(x))
            st["rel"] = z3.ToReal(n) == x
        elif case == "bool_vs_int":
            objs = (SBool(b), SInt(n))
            st["rel"] = n == z3.If(b, 1, 0)
        elif case == "tuple_vs_list":
            objs = ((SReal(x), a1, None), [SReal(x), a1, None])
            st["rel"] = z3.BoolVal(True)
        elif case == "dict_order":
            objs = (sx.SDict([("alpha", SReal(x)), ("beta", a1), ("gamma", SInt(n))]),
                    sx.SDict([("gamma", SInt(n)), ("alpha", SReal(x)), ("beta", a1)]))
            st["rel"] = z3.BoolVal(True)
        elif case == "parameters_order":
            p1, t1 = sym_parameters(I, ["E", "contact_point", "baseline"], prefix="P")
            p2 = I.new_parameters()
            for k in ["baseline", "E", "contact_point"]:
                p2.map.d[k] = [True, p1.map.d[k][1]]
            objs = (p1, p2)
            st["rel"] = z3.BoolVal(True)
        elif case == "parameter_attrs":
            p1, t1 = sym_parameters(I, ["E"], prefix="P")
            p2, t2 = sym_parameters(I, ["E"], prefix="Q")
            objs = (p1.map.d["E"][1], p2.map.d["E"][1])
            # the step size of the "brute" method is optional (None unless the user sets it)
            st["brute_given"] = I.fork(z3.Bool("brute_step_given"))
            if not st["brute_given"]:
                objs[0].attrs["brute_step"] = None
                objs[1].attrs["brute_step"] = None
            st["attrs"] = (t1["E"], t2["E"])
        elif case == "none_str":
            objs = (None, a1)
        elif case == "numpy_integer":
            objs = (_np_int(I, n), SInt(n))
            st["rel"] = z3.BoolVal(True)
        elif case == "numpy_float32":
            objs = (sx.Obj(sx.ClassVal("numpy.float32", [sx.OBJECT], {}), {"value": SReal(x)}), SReal(x))
            st["rel"] = z3.BoolVal(True)
        else:
            objs = ([[(SReal(x),), sx.SDict([("k", [a1, a2])])]], [[[SReal(x)], sx.SDict([("k", (a1, a2))])]])
            st["rel"] = z3.BoolVal(True)
        st.update(case=case)

        def driver(I):
            return tuple(I.call(f, [o], {}) for o in objs)
        return sx.Builtin("driver", driver), [], {}

    def post(S, out):
        case = st["case"]
        if out.kind != "return":
            # totality over the value types a setting may hold
            S.fail(f"total.{case}", f"raises {out.value.cls.name}", witness=case)
            return
        S.ok(f"total.{case}")
        b1, b2 = out.value
        if not (isinstance(b1, L.SBytes) and isinstance(b2, L.SBytes)):
            S.fail(f"returns_bytes.{case}", repr(out.value))
            return
        if case in ("int_vs_float", "bool_vs_int", "tuple_vs_list", "dict_order", "parameters_order",
                    "numpy_integer", "numpy_float32", "nested"):
            S.ensure(f"representation_independent.{case}", z3.Implies(st["rel"], chunks_eq(b1, b2)), witness=case)
        if case == "int_vs_float":
            S.ensure("value_dependent.number", z3.Implies(z3.Not(st["rel"]), z3.Not(chunks_eq(b1, b2))))
        if case == "parameter_attrs":
            t1, t2 = st["attrs"]
            E = chunks_eq(b1, b2)
            # "changing the value of any single setting that can influence the result ... changes the hash": value,
            # bounds, vary, expression -- and the grid step of the "brute" method when one is set
            attrs_ = ("value", "min", "max", "vary", "expr") + (("brute_step",) if st["brute_given"] else ())
            for a in attrs_:
                S.ensure(f"parameter_attribute_encoded.{a}", z3.Implies(t1[a] != t2[a], z3.Not(E)))
            S.ensure("parameter_equal_attrs_equal_bytes",
                     z3.Implies(z3.And(*[t1[a] == t2[a] for a in attrs_]), E))
        if case == "none_str":
            S.ensure("none_is_literal", b1.chunks == [("lit", b"none")])
            S.ensure("str_is_utf8", len(b2.chunks) == 1 and b2.chunks[0][0] == "utf8")

    S.run(setup, post)
    return S.finish(replay=replay_obj2bytes)


def replay_obj2bytes(ob):
    import numpy as np
    import lmfit
    from nanite.fit import obj2bytes
    w = ob.witness or ob.oid.rsplit(".", 1)[-1]
    pairs = {
        "int_vs_float": (3, 3.0), "bool_vs_int": (True, 1), "tuple_vs_list": ((1.5, "a", None), [1.5, "a", None]),
        "dict_order": ({"a": 1.0, "b": "x"}, {"b": "x", "a": 1.0}),
        "numpy_integer": (np.int64(3), 3), "numpy_float32": (np.float32(0.5), 0.5),
        "nested": ([[(1.5,), {"k": ["a", "b"]}]], [[[1.5], {"k": ("a", "b")}]]),
    }
    if w == "parameters_order":
        p1 = lmfit.Parameters()
        p1.add("E", value=1.0, min=0)
        p1.add("cp", value=2.0)
        p2 = lmfit.Parameters()
        p2.add("cp", value=2.0)
        p2.add("E", value=1.0, min=0)
        pairs[w] = (p1, p2)
    if w not in pairs:
        return {"confirmed": False}
    a, b = pairs[w]
    try:
        ba, bb = obj2bytes(a), obj2bytes(b)
    except Exception as exc:
        return {"confirmed": True, "input": repr((a, b)), "observed": repr(exc)[:160],
                "required": "bytes depending only on the value"}
    return {"confirmed": ba != bb, "input": repr((a, b))[:200], "observed": [repr(ba)[:60], repr(bb)[:60]],
            "required": "equal bytes"}


# ------------------------------------------------------------------ purity (syntactic)
ALLOWED_CALLS = {"isinstance", "str", "float", "list", "sorted", "obj2bytes", "ValueError", "format",
                 "encode", "tobytes", "join", "items", "md5", "hexdigest", "append"}
ALLOWED_NAMES = {"obj", "o", "self", "key", "hashlist", "myhash", "str", "bool", "int", "float", "np", "lmfit",
                 "tuple", "list", "dict", "isinstance", "sorted", "obj2bytes", "hashlib", "FP_DEFAULT",
                 "ValueError", "numbers"}


IMPURE_NAMES = {"hash", "id", "repr", "random", "time", "os", "uuid", "globals", "locals", "vars", "set", "frozenset",
                "object", "getpid", "environ", "datetime", "secrets"}
IMPURE_ATTRS = {"__hash__", "__repr__", "__dict__", "random", "urandom", "getpid", "time", "perf_counter", "now"}


def unit_purity(tier=None, seed=None):
    """Syntactic obligation: neither _hash / obj2bytes nor any function of fit.py they (transitively) call uses a
    construct whose result depends on object identity, the hash seed, the clock or other process state.  This is a
    BLACKLIST of such constructs -- helper functions, local names and the hashing library calls are free to change
    (a whitelist of names reported a harmless refactoring as a violation; see DESIGN.md 8.5)."""
    res = UnitResult(unit="purity")
    tree = ast.parse((SRC / "fit.py").read_text())
    defs = {}
    for node in ast.walk(tree):
        if isinstance(node, ast.FunctionDef):
            defs.setdefault(node.name, node)
    todo, seen = ["obj2bytes", "_hash"], []
    bad = []
    while todo:
        name = todo.pop()
        if name in seen or name not in defs:
            continue
        seen.append(name)
        for n in ast.walk(defs[name]):
            if isinstance(n, ast.Call):
                f = n.func
                cname = f.id if isinstance(f, ast.Name) else (f.attr if isinstance(f, ast.Attribute) else None)
                if cname in defs and cname not in seen:
                    todo.append(cname)
            if isinstance(n, ast.Name) and isinstance(n.ctx, ast.Load) and n.id in IMPURE_NAMES:
                bad.append(f"{name}: uses {n.id} (line {n.lineno})")
            elif isinstance(n, ast.Attribute) and n.attr in IMPURE_ATTRS:
                bad.append(f"{name}: uses .{n.attr} (line {n.lineno})")
            elif isinstance(n, (ast.Global, ast.Nonlocal, ast.Set, ast.SetComp)):
                bad.append(f"{name}: {type(n).__name__} (line {n.lineno})")
    ok = {"obj2bytes", "_hash"} <= set(seen) and not bad
    res.obligations.append(ObResult(
        oid="C12.purity.no_identity_or_seed_dependent_construct", status=DISCHARGED if ok else REFUTED,
        backend="syntactic", paths=len(seen),
        detail=f"blacklist scan of {', '.join(seen)}: no hash()/id()/repr()/set/clock/random/global state"
        if ok else "; ".join(bad)[:400], model={"offending": bad} if bad else None,
        replay={"confirmed": bool(bad), "note": "syntactic obligation: the offending construct is the witness"}))
    res.trusted.append("purity is decided syntactically (blacklist of identity/seed/clock dependent constructs in _hash, "
                       "obj2bytes and the fit.py functions they call)")
    return res


# ------------------------------------------------------------------ concatenation ambiguity (string lemma)
def _canon_float_re():
    d, nz = z3.Range("0", "9"), z3.Range("1", "9")
    ip = z3.Union(z3.Re("0"), z3.Concat(nz, z3.Star(d)))
    fp = z3.Union(z3.Re("0"), z3.Concat(z3.Star(d), nz))
    return z3.Concat(z3.Option(z3.Re("-")), ip, z3.Re("."), fp)


def unit_concat(tier=None, seed=None):
    """obj2bytes(list) = b''.join(...): are two adjacent numeric fields recoverable from their
    concatenated text?  Texts are str(float(v)) in positional notation (canonical decimals)."""
    import time
    res = UnitResult(unit="lemma.concat_unambiguous")
    s1, s2, s3, s4 = z3.Strings("s1 s2 s3 s4")
    R = _canon_float_re()
    cons = [z3.InRe(x, R) for x in (s1, s2, s3, s4)] + [z3.Length(x) <= 8 for x in (s1, s2, s3, s4)]
    goal = z3.Implies(z3.Concat(s1, s2) == z3.Concat(s3, s4), z3.And(s1 == s3, s2 == s4))
    st, be, dt, model, detail = solve(cons, goal, names={"s1": s1, "s2": s2, "s3": s3, "s4": s4}, timeout_ms=30000)
    ob = ObResult(oid="C12.lemma.concat_unambiguous.float_float", status=st, backend=be, time_s=round(dt, 3),
                  paths=1, detail=detail, model=model, witness="float.float")
    if st == REFUTED:
        ob.replay = replay_concat(model)
    res.obligations.append(ob)
    # identifiers (strings) from the finite universes: checked by enumeration
    t0 = time.time()
    import importlib
    cols = ["force", "height (measured)", "height (piezo)", "tip position", "time", "segment"]
    methods = ["leastsq", "least_squares", "nelder", "lbfgsb", "powell", "cg", "cobyla", "bfgs", "tnc", "slsqp",
               "differential_evolution", "brute", "basinhopping", "ampgo", "shgo", "dual_annealing", "emcee",
               "trust-constr", "newton", "dogleg", "trust-ncg", "trust-exact", "trust-krylov"]
    amb = []
    seen = {}
    for x, y, m in itertools.product(cols, cols, methods):
        t = x + y + m
        if t in seen and seen[t] != (x, y, m):
            amb.append((seen[t], (x, y, m)))
        seen[t] = (x, y, m)
    res.obligations.append(ObResult(
        oid="C12.lemma.concat_unambiguous.x_axis_y_axis_method", status=DISCHARGED if not amb else REFUTED,
        backend="enumeration", paths=len(seen), time_s=round(time.time() - t0, 3),
        detail=f"{len(seen)} triples of column names x column names x lmfit method names: concatenation injective"
        if not amb else f"ambiguous: {amb[0]}", model={"ambiguous": amb[:1]} if amb else None, witness="str.str.str"))
    res.trusted.append("str(float(v)) modelled as canonical positional decimals (length <= 8) for the ambiguity lemma")
    return res


def replay_concat(model):
    """native: two different range_x with the same concatenated encoding -> same hash, different fit"""
    import numpy as np
    import nanite
    from nanite.fit import obj2bytes, IndentationFitter
    try:
        a, b, c, d = (float(model[k]) for k in ("s1", "s2", "s3", "s4"))
    except Exception:
        a, b, c, d = 0.11, 6.2, 0.1, 16.2
    same_bytes = obj2bytes([a, b]) == obj2bytes([c, d]) and [a, b] != [c, d]
    out = {"confirmed": bool(same_bytes), "input": {"list1": [a, b], "list2": [c, d]},
           "observed": "obj2bytes(list1) == obj2bytes(list2)" if same_bytes else "bytes differ",
           "required": "different value lists give different bytes"}
    if same_bytes:
        data = os.path.join(os.environ.get("VF_REPO", "/repo"), "tests", "data", "fmt-jpk-fd_spot3-0192.jpk-force")
        idnt = nanite.IndentationGroup(data)[0]
        idnt.apply_preprocessing(["compute_tip_position"])
        h1 = IndentationFitter(idnt, range_x=[a, b]).hash
        h2 = IndentationFitter(idnt, range_x=[c, d]).hash
        out["fit_hash_collision"] = {"range_x_1": [a, b], "range_x_2": [c, d], "equal": h1 == h2}
    return out


# ------------------------------------------------------------------ bounded: processes / hash seeds
def unit_bounded_seeds(tier=None, seed=0):
    import subprocess
    import sys
    import time
    t0 = time.time()
    code = (
        "import nanite, os\n"
        "from nanite.fit import IndentationFitter\n"
        "d=os.path.join(os.environ.get('VF_REPO','/repo'),'tests','data','fmt-jpk-fd_spot3-0192.jpk-force')\n"
        "i=nanite.IndentationGroup(d)[0]\n"
        "i.apply_preprocessing(['compute_tip_position','correct_force_offset','correct_tip_offset'],"
        "{'correct_tip_offset':{'method':'fit_constant_line'}})\n"
        "print(IndentationFitter(i, range_x=(-1e-6,2e-6), method_kws={'b':1,'a':2}, segment='approach').hash)\n"
        "print(IndentationFitter(i, range_x=[-1e-6,2e-6], method_kws={'a':2,'b':1}, segment=0).hash)\n")
    outs = []
    for hs in (["0", "1", "4242"] if tier == "quick" else ["0", "1", "7", "99", "4242", "random"]):
        env = dict(os.environ, PYTHONHASHSEED=hs)
        p = subprocess.run([sys.executable, "-c", code], env=env, capture_output=True, text=True, timeout=300)
        outs.append((hs, p.stdout.split()))
    vals = {v for _, o in outs for v in o}
    ok = len(vals) == 1 and all(len(o) == 2 for _, o in outs)
    res = UnitResult(unit="bounded.hash_seeds")
    res.bounded.append(BoundedResult(
        bid="C12.bounded.identical_across_processes_and_hash_seeds", ok=ok, evaluations=2 * len(outs),
        distinct=len(outs), bound=f"{len(outs)} interpreter runs with different PYTHONHASHSEED x 2 representation "
                                   "variants (tuple/list, dict order, 'approach'/0) on one recorded curve",
        detail=f"hash values seen: {sorted(vals)}", samples=[{"PYTHONHASHSEED": h, "hashes": o} for h, o in outs[:3]],
        failing_input=None if ok else outs, time_s=round(time.time() - t0, 2)))
    return res


CANARIES = [
    dict(name="gcf_k skipped in the hash", file="fit.py",
         old="            elif (key == \"optimal_fit_num_samples\" and\n                  not self.fp[\"optimal_fit_edelta\"]):",
         new="            elif key == \"gcf_k\" or (key == \"optimal_fit_num_samples\" and\n                  not self.fp[\"optimal_fit_edelta\"]):",
         expect="change_detected.gcf_k"),
    dict(name="dict encoded in insertion order", file="fit.py", old="return obj2bytes(sorted(obj.items()))",
         new="return obj2bytes(list(obj.items()))", expect="representation_independent"),
    dict(name="range_x hashed fully under plateau search", file="fit.py",
         old="                hashlist.append(self.fp[\"range_x\"][1])", new="                hashlist.append(self.fp[\"range_x\"])",
         expect="equal_effective_settings_equal_hash"),
    dict(name="numbers encoded with str(obj)", file="fit.py", old="return str(float(obj)).encode(\"utf-8\")",
         new="return str(obj).encode(\"utf-8\")", expect="representation_independent"),
    dict(name="parameter min not encoded", file="fit.py", old="attrs = [obj.value, obj.max, obj.min, obj.vary, obj.expr, obj.name]",
         new="attrs = [obj.value, obj.max, obj.vary, obj.expr, obj.name]", expect="min"),
    dict(name="y data not hashed", file="fit.py", old="        hashlist.append(self.y_axis)\n", new="", expect="y_sample"),
    dict(name="object identity mixed in", file="fit.py", old="        hashlist = []\n        # preprocessing",
         new="        hashlist = [str(id(self))]\n        # preprocessing", expect="C12"),
]


def unit_canaries(tier=None, seed=None):
    from ..selftest import run_canaries
    return run_canaries("C12", CANARIES)


def units(tier):
    us = [Unit("_hash", unit_hash), Unit("obj2bytes", unit_obj2bytes), Unit("purity", unit_purity),
          Unit("lemma.concat_unambiguous", unit_concat), Unit("bounded.hash_seeds", unit_bounded_seeds)]
    # the documented don't-care "lower range bound with plateau search on" is sound only if the plateau scan does not
    # look at it (contract shared with C05/C11)
    from . import scan_units as SU
    us.append(Unit("compute_emodulus_vs_mindelta", SU.unit_scan, prop="C12"))
    if tier == "thorough" and not os.environ.get("VF_NO_CANARIES") and str(REPO) == "/repo":
        us.append(Unit("selftest.canaries", unit_canaries))
    return us


def replay_file(path):
    import json
    d = json.load(open(path))

    class _O:
        model = d.get("model")
        oid = d["obligation"]
        witness = d.get("witness", "")
    unit = d["obligation"].split(".")[1]
    if unit == "lemma":
        r = replay_concat(d.get("model") or {})
    elif unit == "_hash":
        r = replay_hash(_O)
    elif unit == "obj2bytes":
        r = replay_obj2bytes(_O)
    else:
        return 0
    print(json.dumps(r, indent=1, default=str))
    return 1 if r.get("confirmed") else 0
