"""Specification of the five shipped contact models (C02, reused by C11/C13).

Everything here is written from the property statement and the cited
literature, not from the code: the published closed forms as z3 terms over the
uninterpreted elementary functions pow/sqrt/tan (A4) and, independently, as
plain float functions for native replays.  Parameter bounds are re-read from
the AST of each module's ``get_parameter_defaults`` on every run.
"""
from __future__ import annotations

import ast
import math
from fractions import Fraction

import z3

from ..core import SRC
from ..engine import values as V

Q = lambda s: z3.RealVal(s)

MODELS = {
    "hertz_para": ("model_hertz_paraboloidal", "hertz_paraboloidal"),
    "hertz_cone": ("model_conical_indenter", "hertz_conical"),
    "hertz_pyr3s": ("model_hertz_three_sided_pyramid", "hertz_three_sided_pyramid"),
    "sneddon_spher_approx": ("model_sneddon_spherical_approximation", "hertz_sneddon_spherical_approx"),
    "power_layer_clifford_2009": ("model_power_layer_clifford_2009", "power_layer_clifford_2009"),
}


def target(key):
    m, f = MODELS[key]
    return f"nanite.model.{m}:{f}"


def read_bounds(key, src=None):
    """{param: (min|None, max|None)} and parameter order, from the real source"""
    m, _ = MODELS[key]
    tree = ast.parse(((src or SRC) / "model" / f"{m}.py").read_text())
    out, order = {}, []
    for fn in tree.body:
        if isinstance(fn, ast.FunctionDef) and fn.name == "get_parameter_defaults":
            for node in ast.walk(fn):
                if isinstance(node, ast.Call) and isinstance(node.func, ast.Attribute) and node.func.attr == "add":
                    name = node.args[0].value
                    kw = {k.arg: ast.literal_eval(k.value) for k in node.keywords}
                    out[name] = (kw.get("min"), kw.get("max"), kw.get("value"), kw.get("vary", True))
                    order.append(name)
    return out, order


def frac(x):
    return Fraction(repr(x)) if isinstance(x, float) else Fraction(x)


def bounds_term(P, bounds):
    """z3 constraint: every parameter inside its declared bounds"""
    cs = []
    for name, (lo, hi, _v, _vary) in bounds.items():
        if lo is not None:
            cs.append(P[name] >= Q(str(frac(lo))))
        if hi is not None:
            cs.append(P[name] <= Q(str(frac(hi))))
    return z3.And(*cs) if cs else z3.BoolVal(True)


# ------------------------------------------------------------------ published closed forms (z3)
def contact_term(key, P, r):
    """force minus baseline for indentation depth r > 0 (published formula)"""
    if key == "hertz_para":
        return Q("4/3") * P["E"] / (1 - P["nu"] * P["nu"]) * V.SQRT(P["R"]) * V.POW(r, Q("3/2"))
    if key == "hertz_cone":
        return 2 * V.TAN(P["alpha"] * V.PI / 180) / V.PI * P["E"] / (1 - P["nu"] * P["nu"]) * (r * r)
    if key == "hertz_pyr3s":
        # Bilodeau 1992: 0.8887 tan(alpha) E/(1-nu^2) delta^2
        return Q("0.8887") * V.TAN(P["alpha"] * V.PI / 180) * P["E"] / (1 - P["nu"] * P["nu"]) * (r * r)
    if key == "sneddon_spher_approx":
        x = r / P["R"]
        series = (1 - Q("1/10") * x - Q("1/840") * (x * x) + Q("11/15120") * (x * x * x)
                  + Q("1357/6652800") * (x * x * x * x))
        return Q("4/3") * P["E"] / (1 - P["nu"] * P["nu"]) * V.SQRT(P["R"]) * V.POW(r, Q("3/2")) * series
    if key == "power_layer_clifford_2009":
        Pc, n, m, BS, BL = Q("2.25"), Q("3/2"), Q("2/3"), Q("0.22"), Q("1.92")
        xi = (V.SQRT(P["R"]) * V.SQRT(r)) / P["t"] * V.POW(P["E_L"] / P["E_S"], m) \
            * (1 - BS * P["nu_S"] * P["nu_S"]) / (1 - BL * P["nu_L"] * P["nu_L"])
        xin = V.POW(xi, n)
        Estar = P["E_L"] + (P["E_S"] - P["E_L"]) * (Pc * xin) / (1 + Pc * xin)
        return Q("4/3") * Estar * V.SQRT(P["R"]) * V.POW(r, Q("3/2"))
    raise KeyError(key)


def extra_requires(key, P):
    """closed ends of the declared bounds at which the published formula itself is
    undefined (division by zero) are excluded; reported as an observation"""
    if key == "sneddon_spher_approx":
        return [P["R"] > 0]
    if key == "power_layer_clifford_2009":
        return [P["E_S"] > 0]
    return []


def spec_axioms(key, P, r):
    """A4 instances the spec terms rely on (same schemas the engine adds for the code)"""
    ax = []
    ax += V.Axioms.pi()
    ax += V.Axioms.sqrt(P["R"], V.SQRT(P["R"])) if "R" in P else []
    ax += V.Axioms.pow(r, Fraction(3, 2), V.POW(r, Q("3/2")))
    if key == "power_layer_clifford_2009":
        ax += V.Axioms.sqrt(r, V.SQRT(r))
    return ax


# ------------------------------------------------------------------ same formulas in floats (replay oracle)
def force_float(key, p, delta):
    r = p["contact_point"] - delta
    b = p["baseline"]
    if r <= 0:
        return b
    if key == "hertz_para":
        return 4 / 3 * p["E"] / (1 - p["nu"] ** 2) * math.sqrt(p["R"]) * r ** 1.5 + b
    if key == "hertz_cone":
        return 2 * math.tan(p["alpha"] * math.pi / 180) / math.pi * p["E"] / (1 - p["nu"] ** 2) * r ** 2 + b
    if key == "hertz_pyr3s":
        return 0.8887 * math.tan(p["alpha"] * math.pi / 180) * p["E"] / (1 - p["nu"] ** 2) * r ** 2 + b
    if key == "sneddon_spher_approx":
        x = r / p["R"]
        s = 1 - x / 10 - x ** 2 / 840 + 11 * x ** 3 / 15120 + 1357 * x ** 4 / 6652800
        return 4 / 3 * p["E"] / (1 - p["nu"] ** 2) * math.sqrt(p["R"]) * r ** 1.5 * s + b
    if key == "power_layer_clifford_2009":
        xi = math.sqrt(p["R"] * r) / p["t"] * (p["E_L"] / p["E_S"]) ** (2 / 3) \
            * (1 - 0.22 * p["nu_S"] ** 2) / (1 - 1.92 * p["nu_L"] ** 2)
        pxn = 2.25 * xi ** 1.5
        es = p["E_L"] + (p["E_S"] - p["E_L"]) * pxn / (1 + pxn)
        return 4 / 3 * es * math.sqrt(p["R"]) * r ** 1.5 + b
    raise KeyError(key)


def typical_params(key, rng):
    """random parameter vector inside the declared bounds (for replays / bounded runs)"""
    b, order = read_bounds(key)
    p = {}
    for name in order:
        lo, hi, val, _ = b[name]
        if name in ("contact_point",):
            p[name] = rng.uniform(-2e-6, 2e-6)
        elif name == "baseline":
            p[name] = rng.uniform(-1e-9, 1e-9)
        elif name in ("E", "E_S"):
            p[name] = 10 ** rng.uniform(1, 5)
        elif name == "E_L":
            p[name] = rng.uniform(1e-3, 1000)
        elif name == "R":
            p[name] = 10 ** rng.uniform(-7, -4)
        elif name == "t":
            p[name] = 10 ** rng.uniform(-8, -5)
        elif name.startswith("nu"):
            p[name] = rng.uniform(0, 0.5)
        elif name == "alpha":
            p[name] = rng.uniform(0.5, hi * 0.98)
        else:
            p[name] = val
    return p
