"""Runner:  python -m vf.run <ID> --tier quick|thorough [--replay file] [--update-baseline]

Exit status: 0 held / 1 violation (VIOLATION line) / 2 undecided / 3 internal error.
"""
from __future__ import annotations

import argparse
import concurrent.futures as cf
import importlib
import json
import multiprocessing as mp
import os
import sys
import time
import traceback

from . import core, findings
from .core import DISCHARGED, REFUTED, UNDECIDED, HERE


class _UnitTimeout(BaseException):
    pass


# wall-clock budget of one unit (seconds): a changed tree may send the symbolic execution into a path explosion; the
# unit is then UNDECIDED (exit 2), never a violation.  Units take at most ~2 minutes on the unchanged tree.
UNIT_BUDGET = {"quick": int(os.environ.get("VF_UNIT_BUDGET_S", "1200")),
               "thorough": int(os.environ.get("VF_UNIT_BUDGET_THOROUGH_S", "5400"))}


def _run_unit(prop, unit_name, tier, seed):
    import signal
    t0 = time.time()

    fired = []

    def _alarm(signum, frame):
        # (re-armed: a harness that runs nanite natively catches BaseException; whatever it records then is discarded)
        fired.append(1)
        signal.alarm(5)
        raise _UnitTimeout()
    try:
        signal.signal(signal.SIGALRM, _alarm)
        signal.alarm(UNIT_BUDGET.get(tier, 1200))
    except (ValueError, OSError):
        pass
    try:
        res = _run_unit_inner(prop, unit_name, tier, seed)
        if fired:
            raise _UnitTimeout()
    except _UnitTimeout:
        res = core.UnitResult(unit=unit_name)
        res.obligations.append(core.ObResult(
            oid=f"{prop}.{unit_name}.within_time_budget", status=UNDECIDED, backend="engine",
            detail=f"unit exceeded its wall-clock budget of {UNIT_BUDGET.get(tier)} s"))
    finally:
        try:
            signal.alarm(0)
        except (ValueError, OSError):
            pass
    res.time_s = round(time.time() - t0, 3)
    return res.to_json()


def _run_unit_inner(prop, unit_name, tier, seed):
    try:
        mod = importlib.import_module(f"vf.contracts.{prop.lower()}")
        unit = {u.name: u for u in mod.units(tier)}[unit_name]
        res = unit.run(tier, seed)
    except core.Unsupported as exc:
        res = core.UnitResult(unit=unit_name)
        res.obligations.append(core.ObResult(
            oid=f"{prop}.{unit_name}.supported", status=UNDECIDED,
            backend="engine", detail=f"Unsupported: {exc}"))
        if os.environ.get("VF_TRACE"):
            sys.stderr.write(traceback.format_exc())
    except _UnitTimeout:
        raise
    except BaseException:
        res = core.UnitResult(unit=unit_name, error=traceback.format_exc())
    return res


def main(argv=None):
    ap = argparse.ArgumentParser()
    ap.add_argument("prop")
    ap.add_argument("--tier", default=os.environ.get("VERIF_TIER", "quick"),
                    choices=["quick", "thorough"])
    ap.add_argument("--replay", default=None)
    ap.add_argument("--update-baseline", action="store_true")
    ap.add_argument("--only", default=None, help="run only units whose name contains this")
    ap.add_argument("--jobs", type=int, default=int(os.environ.get("VF_JOBS", "16")))
    args = ap.parse_args(argv)
    prop = args.prop.upper()
    seed = int(os.environ.get("VERIF_SEED", "0") or 0)
    t0 = time.time()

    try:
        mod = importlib.import_module(f"vf.contracts.{prop.lower()}")
    except ModuleNotFoundError:
        print(f"INTERNAL: no contract module for {prop}")
        return 3

    if args.replay:
        return mod.replay_file(args.replay)

    units = mod.units(args.tier)
    if args.only:
        units = [u for u in units if args.only in u.name]
    results = []
    ctx = mp.get_context("fork")
    with cf.ProcessPoolExecutor(max_workers=max(1, min(args.jobs, len(units))),
                                mp_context=ctx) as ex:
        futs = {ex.submit(_run_unit, prop, u.name, args.tier, seed): u for u in units}
        for fut in cf.as_completed(futs):
            try:
                results.append(fut.result())
            except BaseException as exc:   # worker died
                results.append(core.UnitResult(
                    unit=futs[fut].name, error=f"worker failed: {exc!r}").to_json())
    results.sort(key=lambda r: [u.name for u in units].index(r["unit"]))

    known = findings.load()
    obligations, bounded, errors = [], [], []
    for r in results:
        if r["error"]:
            errors.append((r["unit"], r["error"]))
        obligations += r["obligations"]
        bounded += r["bounded"]

    obligations = _merge(obligations)

    # --- vacuity / baseline guards -------------------------------------
    bl_path = HERE / "baseline" / "obligations.json"
    baseline = json.loads(bl_path.read_text()) if bl_path.exists() else {}
    present = sorted({o["oid"] for o in obligations} | {b["bid"] for b in bounded})
    if args.update_baseline and not args.only and str(core.REPO) == "/repo":
        import fcntl
        with open(str(bl_path) + ".lock", "w") as lk:        # several checks may update their own key at once
            fcntl.flock(lk, fcntl.LOCK_EX)
            baseline = json.loads(bl_path.read_text()) if bl_path.exists() else {}
            baseline[f"{prop}.{args.tier}"] = present
            bl_path.write_text(json.dumps(baseline, indent=1, sort_keys=True) + "\n")
    missing = []
    if not args.only:
        missing = sorted(set(baseline.get(f"{prop}.{args.tier}", [])) - set(present))

    # --- classify -------------------------------------------------------
    violations, known_hits, undecided = [], [], []
    rdir = (HERE / "replays" / prop) if str(core.REPO) == "/repo" else (HERE / ".scratch" / "replays" / prop)
    for o in obligations:
        if o["status"] == REFUTED:
            hit = findings.match(known, prop, o["oid"], o.get("witness", ""))
            (known_hits if hit else violations).append((o, hit))
        elif o["status"] == UNDECIDED:
            undecided.append(o)
    for b in bounded:
        if not b["ok"]:
            hit = findings.match(known, prop, b["bid"], b.get("witness", ""))
            (known_hits if hit else violations).append((b, hit))

    out_lines = []
    for o, hit in known_hits:
        oid = o.get("oid") or o.get("bid")
        out_lines.append(f"KNOWN-FINDING: property={prop} {oid}#{o.get('witness', '')} {hit['text']}")
    for o, _ in violations:
        oid = o.get("oid") or o.get("bid")
        rdir.mkdir(parents=True, exist_ok=True)
        rp = rdir / (oid.replace("/", "_") + ("." + o["witness"] if o.get("witness") else "") + ".json")
        rp.write_text(json.dumps({"property": prop, "obligation": oid, **o},
                                 indent=1, default=str) + "\n")
        rel = os.path.relpath(rp, HERE)
        confirmed = True
        if "oid" in o:   # deductive obligation: was the counter-model replayed natively?
            confirmed = bool(o.get("replay") and o["replay"].get("confirmed"))
        tail = "" if confirmed else " no-failing-input-found"
        out_lines.append(f"VIOLATION property={prop} replay={rel} obligation={oid}{tail}")
    for o in undecided:
        out_lines.append(f"UNDECIDED property={prop} obligation={o['oid']} {o['detail'][:300]}")
    for m in missing:
        out_lines.append(f"UNDECIDED property={prop} obligation={m} vanished (present in committed baseline)")
    for u, e in errors:
        out_lines.append(f"INTERNAL property={prop} unit={u}\n{e}")

    n_ob = len(obligations)
    n_dis = sum(1 for o in obligations if o["status"] == DISCHARGED)
    if n_ob + len(bounded) == 0 and not errors:
        out_lines.append(f"INTERNAL property={prop} zero obligations generated")
        errors.append(("runner", "zero obligations"))

    # --- evidence -------------------------------------------------------
    wall = round(time.time() - t0, 2)
    if not args.only:
        write_evidence(mod, prop, args.tier, seed, results, obligations, bounded,
                       known_hits, violations, undecided, wall)
    print(f"{prop} tier={args.tier}: obligations={n_ob} discharged={n_dis} "
          f"refuted={sum(1 for o in obligations if o['status'] == REFUTED)} "
          f"undecided={len(undecided)} bounded={len(bounded)} "
          f"bounded_failed={sum(1 for b in bounded if not b['ok'])} "
          f"known_findings={len(known_hits)} wall={wall}s")
    for line in out_lines:
        print(line)
    if violations:
        return 1
    if errors:
        return 3
    if undecided or missing:
        return 2
    return 0


def _merge(obligations):
    """several units may contribute paths to the same named obligation (case splits)"""
    rank = {DISCHARGED: 0, UNDECIDED: 1, REFUTED: 2}
    out = {}
    for o in obligations:
        key = (o["oid"], o.get("witness", "") if o["status"] == REFUTED else "")
        base = out.get(o["oid"])
        if base is None:
            out[o["oid"]] = dict(o)
            continue
        base["paths"] += o["paths"]
        base["time_s"] = round(base["time_s"] + o["time_s"], 4)
        if o["backend"] and o["backend"] not in base["backend"].split("+"):
            base["backend"] = "+".join(sorted(set(base["backend"].split("+")) | set(o["backend"].split("+")) - {""}))
        if rank[o["status"]] > rank[base["status"]]:
            for k in ("status", "detail", "model", "witness", "replay"):
                base[k] = o[k]
    return list(out.values())


def write_evidence(mod, prop, tier, seed, results, obligations, bounded,
                   known_hits, violations, undecided, wall):
    level = getattr(mod, "LEVEL", "proof")
    n_ob = len(obligations)
    n_dis = sum(1 for o in obligations if o["status"] == DISCHARGED)
    backends = {}
    solver_time = 0.0
    for o in obligations:
        backends[o["backend"]] = backends.get(o["backend"], 0) + 1
        solver_time += o["time_s"]
    trusted, assumptions, functions, notes = [], [], [], []
    for r in results:
        for t in r["trusted"]:
            if t not in trusted:
                trusted.append(t)
        for a in r["assumptions"]:
            if a not in assumptions:
                assumptions.append(a)
        functions += r["functions"]
        notes += r.get("notes", [])
    ev_bounded = [{k: b[k] for k in ("bid", "ok", "evaluations", "distinct", "bound", "detail", "time_s")}
                  for b in bounded]
    samples = [{"obligation": o["oid"], "status": o["status"], "backend": o["backend"],
                "paths": o["paths"], "time_s": o["time_s"], "detail": o["detail"][:200]}
               for o in obligations]
    for b in bounded[:6]:
        samples.append({"bounded": b["bid"], "samples": b["samples"][:3]})
    coverage = {
        "obligations": n_ob,
        "discharged": n_dis,
        "refuted_known_findings": sum(1 for o, _ in known_hits if "oid" in o),
        "refuted_new": sum(1 for o, _ in violations if "oid" in o),
        "undecided": len(undecided),
        "checker_cmd": f"./check {prop} --tier {tier}",
        "backends": backends,
        "solver_time_s": round(solver_time, 3),
        "trusted_base": trusted,
        "functions_under_contract": functions,
        "bounded": ev_bounded,
        "evaluations": sum(b["evaluations"] for b in bounded) + n_ob,
        "distinct_nontrivial": sum(b["distinct"] for b in bounded) + n_ob,
        "rule": ("one case per proof obligation (clause of a contract, decided on every path of the "
                 "real function) plus, for bounded stand-ins, one case per distinct generated input; "
                 "bounded cases are never counted in 'discharged'"),
        "samples": samples,
        "explanation": getattr(mod, "EXPLANATION", ""),
        "known_findings_matched": [(o.get("oid") or o.get("bid")) + "#" + o.get("witness", "")
                                   for o, _ in known_hits],
        "notes": notes,
        "unit_times_s": {r["unit"]: r["time_s"] for r in results},
    }
    ev = {
        "property_id": prop,
        "tier": tier,
        "seed": seed,
        "level": level,
        "coverage": coverage,
        "assumptions": assumptions,
        "wall_s": wall,
        "violations": len(violations),
    }
    edir = HERE / "evidence"
    if str(core.REPO) != "/repo":      # scratch tree (self-test): never overwrite real evidence
        edir = HERE / ".scratch" / "evidence"
    edir.mkdir(parents=True, exist_ok=True)
    (edir / f"{prop}.json").write_text(json.dumps(ev, indent=1, default=str) + "\n")


if __name__ == "__main__":
    sys.exit(main())
