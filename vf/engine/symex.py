"""pyvc: symbolic interpreter over the real AST of /repo (DESIGN.md 2.2-2.4).

Path enumeration by re-execution with a decision prefix: the function is run
from the start for every path; at a symbolic branch beyond the prefix both
sides are checked for feasibility and the untaken feasible side is queued.
State therefore never needs copying and python's own exception machinery gives
the exact semantics of try/except/else/finally (including return in finally).
"""
from __future__ import annotations

import ast
import hashlib
import time
from fractions import Fraction

import z3

from ..core import Unsupported, SRC, REPO
from . import values as V
from .values import SBool, SInt, SReal, SAtom, Sym, Opaque, NAN, fresh
from . import arrays as A
from .arrays import SArray, SCompressed


_AST_CACHE = {}


# ------------------------------------------------------------------ control flow
class ControlFlow(BaseException):
    pass


class _Return(ControlFlow):
    def __init__(self, value):
        self.value = value


class _Break(ControlFlow):
    pass


class _Continue(ControlFlow):
    pass


class PyRaise(ControlFlow):
    """a python exception travelling through the interpreted program"""

    def __init__(self, exc):
        self.exc = exc           # Obj whose cls is an exception ClassVal


class PathAbort(BaseException):
    """current path is infeasible"""


# ------------------------------------------------------------------ runtime objects
class Env:
    def __init__(self, parent=None, vars=None):
        self.vars = vars if vars is not None else {}
        self.parent = parent

    def lookup(self, name):
        e = self
        while e is not None:
            if name in e.vars:
                return e.vars[name]
            e = e.parent
        raise KeyError(name)


class ClassVal:
    def __init__(self, name, bases, ns, module=None, node=None):
        self.name, self.bases, self.ns, self.module, self.node = name, bases, ns, module, node

    def mro(self):
        out = [self]
        for b in self.bases:
            for c in b.mro():
                if c not in out:
                    out.append(c)
        return out

    def find(self, attr):
        for c in self.mro():
            if attr in c.ns:
                return c.ns[attr], c
        return None, None

    def issub(self, other):
        return other in self.mro()

    def __repr__(self):
        return f"<class {self.name}>"


class FuncVal:
    def __init__(self, node, module, closure, qualname, defaults=None, kwdefaults=None):
        self.node, self.module, self.closure, self.qualname = node, module, closure, qualname
        self.defaults = defaults or []
        self.kwdefaults = kwdefaults or {}
        self.attrs = {}
        self.is_static = False
        self.is_classmethod = False
        self.is_property = False
        self.setter = None

    @property
    def name(self):
        return getattr(self.node, "name", "<lambda>")

    def __repr__(self):
        return f"<function {self.qualname}>"


class BoundMethod:
    def __init__(self, obj, func, cls=None):
        self.obj, self.func, self.cls = obj, func, cls


class Obj:
    """instance of an interpreted class"""

    def __init__(self, cls, attrs=None):
        self.cls = cls
        self.attrs = attrs if attrs is not None else {}
        self.map = None       # SDict when the class derives from dict
        self.origin = None

    def __repr__(self):
        return f"<{self.cls.name} object>"


class ModuleVal:
    def __init__(self, name, path=None):
        self.name, self.path = name, path
        self.env = Env()
        self.tree = None

    def __repr__(self):
        return f"<module {self.name}>"


class LibRef:
    """reference into a modelled library (numpy, copy, ...)"""

    def __init__(self, name):
        self.name = name

    def __repr__(self):
        return f"<lib {self.name}>"


class Builtin:
    def __init__(self, name, fn):
        self.name, self.fn = name, fn

    def __repr__(self):
        return f"<builtin {self.name}>"


class Poison:
    def __init__(self, why):
        self.why = why


class SDict:
    """dict with concrete keys; presence of a key may be symbolic (z3 Bool)."""

    def __init__(self, items=None, origin=None):
        self.d = {}                 # key -> [present, value]; python insertion order
        self.origin = origin
        self.other_absent = True    # keys not listed are absent
        if items:
            for k, v in items:
                self.d[k] = [True, v]

    def concrete_items(self):
        return [(k, e[1]) for k, e in self.d.items() if e[0] is True]

    def __repr__(self):
        return "SDict({" + ", ".join(f"{k!r}: {e[1]!r}" + ("" if e[0] is True else f" [if {e[0]}]")
                                      for k, e in self.d.items() if e[0] is not False) + "})"


# ------------------------------------------------------------------ builtin exceptions
def _mk_exceptions():
    names = {
        "BaseException": [], "Exception": ["BaseException"], "ArithmeticError": ["Exception"],
        "ZeroDivisionError": ["ArithmeticError"], "AssertionError": ["Exception"],
        "AttributeError": ["Exception"], "ImportError": ["Exception"],
        "ModuleNotFoundError": ["ImportError"], "LookupError": ["Exception"],
        "IndexError": ["LookupError"], "KeyError": ["LookupError"], "NameError": ["Exception"],
        "UnboundLocalError": ["NameError"], "OSError": ["Exception"], "FileNotFoundError": ["OSError"],
        "RuntimeError": ["Exception"], "NotImplementedError": ["RuntimeError"],
        "StopIteration": ["Exception"], "TypeError": ["Exception"], "ValueError": ["Exception"],
        "Warning": ["Exception"], "UserWarning": ["Warning"], "DeprecationWarning": ["Warning"],
        "RuntimeWarning": ["Warning"], "KeyboardInterrupt": ["BaseException"],
        "SyntaxError": ["Exception"], "IndentationError": ["SyntaxError"], "PermissionError": ["OSError"],
        "IsADirectoryError": ["OSError"], "NotADirectoryError": ["OSError"], "FileExistsError": ["OSError"],
        "TimeoutError": ["OSError"], "EOFError": ["Exception"], "MemoryError": ["Exception"],
        "OverflowError": ["ArithmeticError"], "FloatingPointError": ["ArithmeticError"],
        "RecursionError": ["RuntimeError"], "UnicodeError": ["ValueError"], "UnicodeDecodeError": ["UnicodeError"],
        "UnicodeEncodeError": ["UnicodeError"], "BufferError": ["Exception"], "SystemExit": ["BaseException"],
        "GeneratorExit": ["BaseException"], "FutureWarning": ["Warning"], "PendingDeprecationWarning": ["Warning"],
        "ResourceWarning": ["Warning"], "ImportWarning": ["Warning"], "SyntaxWarning": ["Warning"],
    }
    out = {}
    for n, bases in names.items():
        out[n] = ClassVal(n, [out[b] for b in bases], {}, module=None)
    return out


EXC = _mk_exceptions()
OBJECT = ClassVal("object", [], {})
DICT = ClassVal("dict", [OBJECT], {})
LIST = ClassVal("list", [OBJECT], {})


# ------------------------------------------------------------------ paths / results
class Outcome:
    def __init__(self, kind, value):
        self.kind = kind          # "return" | "raise"
        self.value = value        # returned value | exception Obj

    @property
    def exc_class(self):
        return self.value.cls if self.kind == "raise" else None

    def raises(self, name):
        return self.kind == "raise" and any(c.name == name for c in self.value.cls.mro())

    def __repr__(self):
        return f"Outcome({self.kind}, {self.value!r})"


class Interp:
    """one symbolic execution session for one function under contract"""

    MAX_PATHS = 20000

    def __init__(self, repo_src=None, timeout_ms=20000):
        self.src = repo_src or SRC
        self.modules = {}
        self.solver = z3.Solver()
        self.solver.set("timeout", timeout_ms)
        self.lib = {}
        self.contracts = {}        # qualname -> callable(I, func, args, kwargs) (modular call)
        self.inline_log = set()
        self.functions_seen = {}   # qualname -> info dict
        self.trusted = set()
        self.notes = []
        self.python_float_division = False
        self.in_container_compare = False
        self._ext_exc = {}
        self.loop_bound = 64
        # per-path state
        self.prefix = []
        self.decisions = []
        self.worklist = []
        self.pc = []
        self.axioms_path = []
        self.safety_obs = []
        self.mutations = []
        self.ghost = {}
        self.guards = []
        self.dom_guards = []
        self.domain_pending = []
        self._dom_seen = set()
        self.check_time = 0.0
        self.n_checks = 0
        self.pins = {}
        self.copy_origin = {}
        self.keepalive = []
        from . import lib as _lib
        _lib.install(self)

    # ---------------------------------------------------------- solver helpers
    def _check(self, *extra):
        t0 = time.time()
        self.solver.push()
        try:
            for e in extra:
                self.solver.add(e)
            r = self.solver.check()
        finally:
            self.solver.pop()
            self.check_time += time.time() - t0
            self.n_checks += 1
        return r

    def feasible(self, cond):
        return self._check(cond) != z3.unsat

    def valid(self, cond):
        """cond holds on every model of the current path condition"""
        return self._check(z3.Not(cond)) == z3.unsat

    def assume(self, cond):
        if isinstance(cond, bool):
            if not cond:
                raise PathAbort()
            return
        self.pc.append(cond)
        self.solver.add(cond)

    def axiom(self, name, cond):
        self.trusted.add(name)
        self.axioms_path.append(cond)
        self.solver.add(cond)

    def fork(self, cond):
        """decide a symbolic branch; returns the python bool chosen"""
        if isinstance(cond, bool):
            return cond
        cond = z3.simplify(cond)
        if z3.is_true(cond):
            return True
        if z3.is_false(cond):
            return False
        if self.guards:
            # inside the body of an iteration that happens only if <guard>: a side that is infeasible together with
            # the guard is not taken (values computed here are merged under the guard only).  Not a recorded decision:
            # it is recomputed identically when the path prefix is replayed.
            g = z3.And(*self.guards)
            can_t = self.feasible(z3.And(g, cond))
            can_f = self.feasible(z3.And(g, z3.Not(cond)))
            if can_t != can_f:
                self.assume(z3.Implies(g, cond if can_t else z3.Not(cond)))
                return can_t
            if not can_t:
                raise Unsupported("iteration guard is infeasible on this path")
        idx = len(self.decisions)
        if idx < len(self.prefix):
            choice = self.prefix[idx]
        else:
            can_t = self.feasible(cond)
            can_f = self.feasible(z3.Not(cond))
            if can_t and can_f:
                self.worklist.append(self.decisions + [False])
                choice = True
            elif can_t:
                choice = True
            elif can_f:
                choice = False
            else:
                raise PathAbort()
        self.decisions.append(choice)
        self.assume(cond if choice else z3.Not(cond))
        if choice:
            self._note_pin(cond)
        return choice

    def _settle_guard(self, guard):
        """an iteration guard that is decided by the path condition: False (no such iteration), None (unconditional)"""
        g = z3.And(*self.guards, guard) if self.guards else guard
        if not self.feasible(g):
            return False
        if not self.guards and self.valid(guard):
            return None
        return guard

    def _note_pin(self, cond):
        """remember  atom == <code>  facts so that later comparisons are concrete"""
        if z3.is_eq(cond):
            a, b = cond.arg(0), cond.arg(1)
            if z3.is_int_value(b) and z3.is_const(a) and not z3.is_int_value(a):
                self.pins[a.get_id()] = b.as_long()
            elif z3.is_int_value(a) and z3.is_const(b) and not z3.is_int_value(b):
                self.pins[b.get_id()] = a.as_long()

    def resolve(self, v):
        """concrete string of an atom whose value the path condition pins, else the atom"""
        if isinstance(v, SAtom):
            c = self.pins.get(v.term.get_id())
            if c is not None:
                sv = V.code_str(c)
                if sv is not None:
                    return sv
        return v

    def choose(self, conds):
        """multi-way fork: returns index of the first condition chosen true, or len(conds)"""
        for i, c in enumerate(conds):
            if self.fork(c):
                return i
        return len(conds)

    def safety(self, name, cond, exc_name):
        """implicit failure point: fork; on the failing side raise the python exception"""
        if isinstance(cond, bool):
            ok = cond
        else:
            ok = self.fork(cond)
        if not ok:
            self.raise_py(exc_name, name)

    def domain(self, name, cond):
        """arithmetic stays inside the modelled reals (A1): collected per path and
        turned into the obligation <unit>.arith_defined by the session"""
        if self.dom_guards:
            cond = z3.Implies(z3.And(*self.dom_guards), cond)
        key = cond.hash()
        if key not in self._dom_seen:
            self._dom_seen.add(key)
            self.domain_pending.append((name, cond))

    def log_mutation(self, obj):
        if self.guards:
            raise Unsupported("array/list mutation under a symbolic iteration guard")
        self.mutations.append(obj)

    # ---------------------------------------------------------- exceptions
    def external_exc(self, name):
        """exception class of a library (known only by name): a direct subclass of Exception"""
        if name not in self._ext_exc:
            base = EXC["Warning"] if name.endswith("Warning") else EXC["Exception"]
            self._ext_exc[name] = ClassVal(name.rsplit(".", 1)[-1], [base], {"__external__": True})
        return self._ext_exc[name]

    def make_exc(self, cls, args=()):
        if isinstance(cls, str):
            cls = EXC[cls]
        o = Obj(cls, {"args": tuple(args)})
        return o

    def raise_py(self, cls, *args):
        raise PyRaise(self.make_exc(cls, args))

    # ---------------------------------------------------------- truthiness / logic
    def truth(self, v):
        """python truthiness -> python bool (forking when symbolic)"""
        if isinstance(v, bool):
            return v
        if v is None:
            return False
        if isinstance(v, SBool):
            return self.fork(v.term)
        if isinstance(v, SInt):
            return self.fork(v.term != 0)
        if isinstance(v, SReal):
            return self.fork(z3.Or(A._zb(v.nan), v.term != 0) if v.nan is not False else v.term != 0)
        if isinstance(v, (int, Fraction, float, str, list, tuple, dict, set)):
            return bool(v)
        if isinstance(v, SDict):
            ents = [e for e in v.d.values() if e[0] is not False]
            if any(e[0] is True for e in ents):
                return True
            if not ents:
                return False
            return self.fork(z3.Or(*[e[0] for e in ents]))
        if isinstance(v, Obj):
            if v.map is not None:
                return self.truth(v.map)
            if "__len__" in dir(v):
                pass
            return True
        if isinstance(v, SAtom):
            # strings: truthy iff non-empty
            return self.fork(v.term != V.str_code(""))
        if isinstance(v, (FuncVal, BoundMethod, ClassVal, ModuleVal, LibRef, Builtin, Opaque)):
            return True
        if isinstance(v, SArray):
            raise Unsupported("truth value of an array")
        if isinstance(v, Poison):
            raise Unsupported(f"use of poisoned value: {v.why}")
        raise Unsupported(f"truth of {v!r}")

    def as_bool_val(self, v):
        """python truthiness -> python bool or SBool without forking when possible"""
        if isinstance(v, (bool, SBool)):
            return v
        return self.truth(v)

    def not_(self, v):
        if isinstance(v, SBool):
            return SBool(z3.Not(v.term))
        if isinstance(v, SArray):
            s = v.snap()
            return SArray(v.length, lambda i: self.not_(s(i)), "bool")
        return not self.truth(v)

    # ---------------------------------------------------------- equality
    def equals(self, a, b):
        """python == -> python bool or SBool"""
        if isinstance(a, Poison) or isinstance(b, Poison):
            raise Unsupported("use of poisoned value")
        if a is b and not isinstance(a, SReal):
            return True
        if a is None or b is None:
            if isinstance(a, (SAtom,)) or isinstance(b, (SAtom,)):
                # atoms stand for strings/identifiers: never None
                return False
            return a is b
        if isinstance(a, SAtom) or isinstance(b, SAtom):
            return self._atom_eq(a, b)
        if V.is_num(a) and V.is_num(b):
            return A.scalar_compare("Eq", a, b)
        if isinstance(a, str) and isinstance(b, str):
            return a == b
        if isinstance(a, (list, tuple)) and isinstance(b, (list, tuple)):
            if type(a) is not type(b) or len(a) != len(b):
                return False
            acc = True
            prev = self.in_container_compare
            self.in_container_compare = True
            try:
                for x, y in zip(a, b):
                    acc = self.and_val(acc, self.equals(x, y))
                    if acc is False:
                        return False
            finally:
                self.in_container_compare = prev
            return acc
        if isinstance(a, SDict) and isinstance(b, SDict):
            return self._dict_eq(a, b)
        if isinstance(a, Obj) and a.map is not None:
            a = a.map
            return self.equals(a, b.map if isinstance(b, Obj) and b.map is not None else b)
        if isinstance(b, Obj) and b.map is not None:
            return self.equals(a, b.map)
        if isinstance(a, SArray) and isinstance(b, SArray) and self.in_container_compare:
            # container comparison calls bool(a == b): ambiguous for arrays with more than one element
            if self.valid(z3.And(a.len_term() > 1, b.len_term() > 1)):
                self.raise_py("ValueError", "The truth value of an array with more than one element is ambiguous")
            raise Unsupported("comparison of arrays of possibly one element inside a container")
        if isinstance(a, (SArray, SCompressed)) or isinstance(b, (SArray, SCompressed)):
            raise Unsupported("== on arrays (elementwise) outside the array domain")
        if isinstance(a, Obj) and isinstance(b, Obj):
            eq, _ = a.cls.find("__eq__")
            if eq is not None:
                return self.call(BoundMethod(a, eq), [b], {})
            return a is b
        if type(a) is not type(b):
            if isinstance(a, (str, list, tuple, SDict, type(None))) or isinstance(b, (str, list, tuple, SDict)):
                return False
        if isinstance(a, (FuncVal, ClassVal, ModuleVal, LibRef, Builtin, Opaque, Obj)):
            return a is b
        if isinstance(a, set) and isinstance(b, set):
            return a == b
        raise Unsupported(f"== between {a!r} and {b!r}")

    def _atom_eq(self, a, b):
        a, b = self.resolve(a), self.resolve(b)
        if isinstance(a, str) and isinstance(b, str):
            return a == b

        def code(x):
            if isinstance(x, SAtom):
                return x.term
            if isinstance(x, str):
                return z3.IntVal(V.str_code(x))
            return None
        ca, cb = code(a), code(b)
        if ca is None or cb is None:
            return False      # an atom is a string; other types differ
        t = z3.simplify(ca == cb)
        if z3.is_true(t):
            return True
        if z3.is_false(t):
            return False
        return SBool(t)

    def _dict_eq(self, a, b):
        keys = list(dict.fromkeys(list(a.d) + list(b.d)))
        acc = True
        for k in keys:
            ea = a.d.get(k, [False, None])
            eb = b.d.get(k, [False, None])
            pa, pb = ea[0], eb[0]
            if pa is False and pb is False:
                continue
            if pa is True and pb is True:
                acc = self.and_val(acc, self.equals(ea[1], eb[1]))
            elif (pa is False and pb is True) or (pa is True and pb is False):
                return False
            else:
                # symbolic presence: decide by forking (rare)
                ta = self.fork(pa) if pa not in (True, False) else pa
                tb = self.fork(pb) if pb not in (True, False) else pb
                if ta != tb:
                    return False
                if ta:
                    acc = self.and_val(acc, self.equals(ea[1], eb[1]))
            if acc is False:
                return False
        return acc

    def and_val(self, a, b):
        if a is True:
            return b
        if b is True:
            return a
        if a is False or b is False:
            return False
        return SBool(z3.And(V.bterm(a), V.bterm(b)))

    def or_val(self, a, b):
        if a is False:
            return b
        if b is False:
            return a
        if a is True or b is True:
            return True
        return SBool(z3.Or(V.bterm(a), V.bterm(b)))

    # ---------------------------------------------------------- modules
    def module(self, dotted):
        """load (interpret the top level of) a nanite module from the real source"""
        if dotted in self.modules:
            return self.modules[dotted]
        assert dotted == "nanite" or dotted.startswith("nanite."), dotted
        rel = dotted.split(".")[1:]
        p = self.src.joinpath(*rel)
        if p.is_dir():
            path = p / "__init__.py"
        else:
            path = p.with_suffix(".py")
        mod = ModuleVal(dotted, path)
        self.modules[dotted] = mod
        key = (str(path), path.stat().st_mtime_ns)
        if key not in _AST_CACHE:
            _AST_CACHE[key] = ast.parse(path.read_text())
        mod.tree = _AST_CACHE[key]
        mod.env.vars["__name__"] = dotted
        for st in mod.tree.body:
            try:
                self.exec_stmt(st, mod.env, mod)
            except Unsupported as exc:
                self.notes.append(f"module {dotted}: top-level statement at line {st.lineno} "
                                  f"skipped ({exc})")
                self._poison_bindings(st, mod, f"module-level statement at line {st.lineno} not modelled ({exc})")
            except PyRaise as exc:
                self.notes.append(f"module {dotted}: top-level statement at line {st.lineno} "
                                  f"raised {exc.exc.cls.name}; skipped")
                self._poison_bindings(st, mod, f"module-level statement at line {st.lineno} raised "
                                               f"{exc.exc.cls.name} in the engine")
        return mod

    def _poison_bindings(self, st, mod, why):
        """names a skipped top-level statement would have bound become poisoned: using them is Unsupported
        (undecided), never a NameError attributed to the code"""
        names = set()
        for n in ast.walk(st):
            if isinstance(n, ast.Name) and isinstance(n.ctx, ast.Store):
                names.add(n.id)
            elif isinstance(n, (ast.FunctionDef, ast.ClassDef, ast.AsyncFunctionDef)):
                names.add(n.name)
            elif isinstance(n, (ast.Import, ast.ImportFrom)):
                for a in n.names:
                    names.add((a.asname or a.name).split(".")[0])
        for nm in names:
            if nm not in mod.env.vars:
                mod.env.vars[nm] = Poison(why)

    def lookup_qual(self, spec):
        """'nanite.fit:FitProperties.__setitem__' -> value"""
        modname, _, qual = spec.partition(":")
        v = self.module(modname)
        for part in qual.split("."):
            v = self.getattr(v, part, raw=True)
        return v

    def func_info(self, fv):
        """evidence record of a function under contract / inlined"""
        node = fv.node
        path = fv.module.path if fv.module else None
        sha = hashlib.sha256(ast.dump(node).encode()).hexdigest()[:16]
        return {"name": f"{fv.module.name}:{fv.qualname}" if fv.module else fv.qualname,
                "file": str(path.relative_to(REPO)) if path else "",
                "lines": [node.lineno, getattr(node, "end_lineno", node.lineno)],
                "ast_sha256_16": sha}

    # ---------------------------------------------------------- exploration
    def explore(self, setup, post, max_paths=None):
        """run ``setup(I) -> (callable, args, kwargs)`` then the call, for every path;
        ``post(I, outcome)`` is invoked at the end of each path."""
        self.worklist = [[]]
        n = 0
        stats = {"paths": 0, "aborted": 0}
        while self.worklist:
            self.prefix = self.worklist.pop()
            self._reset_path()
            n += 1
            if n > (max_paths or self.MAX_PATHS):
                raise Unsupported(f"more than {max_paths or self.MAX_PATHS} paths")
            try:
                fn, args, kwargs = setup(self)
                try:
                    rv = self.call(fn, list(args), dict(kwargs))
                    out = Outcome("return", rv)
                except PyRaise as exc:
                    out = Outcome("raise", exc.exc)
                post(self, out)
                stats["paths"] += 1
            except PathAbort:
                stats["aborted"] += 1
        return stats

    def _reset_path(self):
        self.solver.reset()
        self.solver.set("timeout", 20000)
        self.decisions = []
        self.pc = []
        self.axioms_path = []
        self.mutations = []
        self.ghost = {"warnings": [], "calls": []}
        self.guards = []
        self.dom_guards = []
        self.domain_pending = []
        self._dom_seen = set()
        self.pins = {}
        self.copy_origin = {}
        self.keepalive = []
        # module-level state is rebuilt per path (registries are mutable)
        self.modules = {}

    # ---------------------------------------------------------- calls
    def call(self, fn, args, kwargs):
        if isinstance(fn, Poison):
            raise Unsupported("call of poisoned value")
        if isinstance(fn, BoundMethod):
            f = fn.func
            if isinstance(f, FuncVal):
                return self.call_function(f, [fn.obj] + list(args), kwargs)
            if isinstance(f, Builtin):
                return f.fn(self, fn.obj, *args, **kwargs)
            raise Unsupported(f"bound method of {f!r}")
        if isinstance(fn, FuncVal):
            return self.call_function(fn, args, kwargs)
        if isinstance(fn, Builtin):
            return self._call_model(fn.name, fn.fn, args, kwargs)
        if isinstance(fn, LibRef):
            impl = self.lib.get(fn.name)
            if impl is None and fn.name.startswith("some.path."):
                return LibRef("some.path")      # opaque filesystem path: methods yield paths
            if impl is None and fn.name.rsplit(".", 1)[-1].endswith(("Error", "Exception", "Warning")):
                return self.instantiate(self.external_exc(fn.name), args, kwargs)
            if impl is None:
                raise Unsupported(f"no library model for {fn.name}")
            self.trusted.add(f"libmodel:{fn.name}")
            return self._call_model(fn.name, impl, args, kwargs)
        if isinstance(fn, ClassVal):
            return self.instantiate(fn, args, kwargs)
        if isinstance(fn, Opaque):
            raise Unsupported(f"call of opaque {fn.name}")
        if isinstance(fn, Obj):
            m, _ = fn.cls.find("__call__")
            if m is not None:
                return self.call(BoundMethod(fn, m), args, kwargs)
        raise Unsupported(f"call of {fn!r}")

    def _call_model(self, name, impl, args, kwargs):
        """call a library / builtin model; a call form the model does not know (extra keyword, other arity) is a gap
        of the engine -- Unsupported, hence undecided -- and never an error of the check"""
        import inspect
        try:
            sig = inspect.signature(impl)
        except (TypeError, ValueError):
            sig = None
        if sig is not None:
            try:
                sig.bind(self, *args, **kwargs)
            except TypeError as exc:
                raise Unsupported(f"call form not modelled for {name}: {exc}")
        return impl(self, *args, **kwargs)

    def instantiate(self, cls, args, kwargs):
        if cls.issub(EXC["BaseException"]):
            o = Obj(cls, {"args": tuple(args)})
            init, owner = cls.find("__init__")
            if init is not None and isinstance(init, FuncVal):
                self.call_function(init, [o] + list(args), kwargs)
            return o
        o = Obj(cls)
        if cls.issub(DICT):
            o.map = SDict()
        init, owner = cls.find("__init__")
        if init is not None:
            if isinstance(init, FuncVal):
                self.call_function(init, [o] + list(args), kwargs)
            else:
                init.fn(self, o, *args, **kwargs)
        elif cls.issub(DICT):
            self.lib["dict.__init__"](self, o, *args, **kwargs)
        return o

    def call_function(self, fv, args, kwargs):
        key = f"{fv.module.name}:{fv.qualname}" if fv.module else fv.qualname
        hook = self.contracts.get(key)
        if hook is not None and not getattr(self, "_in_contract_" + key, False):
            return hook(self, fv, args, kwargs)
        if key not in self.functions_seen:
            self.functions_seen[key] = self.func_info(fv)
        node = fv.node
        env = Env(fv.closure)
        self.bind_args(fv, node.args, args, kwargs, env)
        if isinstance(node, ast.Lambda):
            return self.eval(node.body, env, fv.module)
        env.vars["__class_cell__"] = getattr(fv, "owner_class", None)
        env.vars["__funcqual__"] = fv.qualname
        env.vars["__locals_declared__"] = _assigned_names(node)
        try:
            self.exec_block(node.body, env, fv.module)
        except _Return as r:
            return r.value
        return None

    def bind_args(self, fv, a, args, kwargs, env):
        params = [p.arg for p in a.posonlyargs + a.args]
        args = list(args)
        kwargs = dict(kwargs)
        n_def = len(fv.defaults)
        for i, name in enumerate(params):
            if i < len(args):
                if name in kwargs:
                    self.raise_py("TypeError", f"multiple values for {name}")
                env.vars[name] = args[i]
            elif name in kwargs:
                env.vars[name] = kwargs.pop(name)
            else:
                di = i - (len(params) - n_def)
                if di >= 0:
                    env.vars[name] = fv.defaults[di]
                else:
                    self.raise_py("TypeError", f"missing argument {name}")
        extra = args[len(params):]
        if a.vararg:
            env.vars[a.vararg.arg] = tuple(extra)
        elif extra:
            self.raise_py("TypeError", "too many positional arguments")
        for p in a.kwonlyargs:
            if p.arg in kwargs:
                env.vars[p.arg] = kwargs.pop(p.arg)
            elif p.arg in fv.kwdefaults:
                env.vars[p.arg] = fv.kwdefaults[p.arg]
            else:
                self.raise_py("TypeError", f"missing keyword argument {p.arg}")
        if a.kwarg:
            env.vars[a.kwarg.arg] = SDict(list(kwargs.items()))
        elif kwargs:
            self.raise_py("TypeError", f"unexpected keyword arguments {sorted(kwargs)}")

    # ---------------------------------------------------------- statements
    def exec_block(self, stmts, env, mod):
        for st in stmts:
            self.exec_stmt(st, env, mod)

    def exec_stmt(self, st, env, mod):
        m = getattr(self, "st_" + type(st).__name__, None)
        if m is None:
            raise Unsupported(f"statement {type(st).__name__} at line {st.lineno}")
        return m(st, env, mod)

    def st_Expr(self, st, env, mod):
        if isinstance(st.value, ast.Constant) and isinstance(st.value.value, str):
            return  # docstring
        self.eval(st.value, env, mod)

    def st_Pass(self, st, env, mod):
        pass

    def st_Global(self, st, env, mod):
        g = env.vars.setdefault("__globals_declared__", set())
        g.update(st.names)

    def st_Import(self, st, env, mod):
        for al in st.names:
            name = al.asname or al.name.split(".")[0]
            if al.name == "nanite" or al.name.startswith("nanite."):
                env.vars[name] = self.module(al.name if al.asname else al.name.split(".")[0])
            else:
                env.vars[name] = LibRef(al.name if al.asname else al.name.split(".")[0])

    def st_ImportFrom(self, st, env, mod):
        base = st.module or ""
        if st.level:
            pkg = mod.name.split(".")
            if not (mod.path and mod.path.name == "__init__.py"):
                pkg = pkg[:-1]
            if st.level > 1:
                pkg = pkg[:-(st.level - 1)]
            base = ".".join(pkg + ([st.module] if st.module else []))
        for al in st.names:
            name = al.asname or al.name
            if base == "nanite" or base.startswith("nanite."):
                # submodule or attribute
                sub = self.src.joinpath(*(base.split(".")[1:] + [al.name]))
                if sub.with_suffix(".py").exists() or (sub / "__init__.py").exists():
                    env.vars[name] = self.module(base + "." + al.name)
                else:
                    m = self.module(base)
                    try:
                        env.vars[name] = m.env.lookup(al.name)
                    except KeyError:
                        self.raise_py("ImportError", al.name)
            else:
                from . import lib as _lib
                const = _lib.CONSTANTS.get(f"{base}.{al.name}")
                if const is not None:
                    env.vars[name] = ("__const__", f"{base}.{al.name}")
                else:
                    env.vars[name] = LibRef(f"{base}.{al.name}")

    def st_FunctionDef(self, st, env, mod):
        fv = self.make_function(st, env, mod)
        val = fv
        for dec in reversed(st.decorator_list):
            d = self.eval_decorator(dec, env, mod)
            val = self.apply_decorator(d, val)
        env.vars[st.name] = val

    def make_function(self, st, env, mod, qualprefix=None):
        a = st.args
        defaults = [self.eval(d, env, mod) for d in a.defaults]
        kwdefaults = {p.arg: self.eval(d, env, mod) for p, d in zip(a.kwonlyargs, a.kw_defaults) if d is not None}
        q = getattr(st, "name", "<lambda>")
        prefix = qualprefix if qualprefix is not None else env.vars.get("__qualname__")
        if prefix:
            q = f"{prefix}.{q}"
        elif env.vars.get("__funcqual__"):
            q = f"{env.vars['__funcqual__']}.<locals>.{q}"
        fv = FuncVal(st, mod, env, q, defaults, kwdefaults)
        return fv

    def eval_decorator(self, dec, env, mod):
        return self.eval(dec, env, mod)

    def apply_decorator(self, d, val):
        if isinstance(d, Builtin) and d.name in ("staticmethod", "classmethod", "property"):
            if d.name == "staticmethod":
                val.is_static = True
            elif d.name == "classmethod":
                val.is_classmethod = True
            else:
                val.is_property = True
            return val
        if isinstance(d, LibRef) and d.name in ("functools.lru_cache", "functools.cache"):
            # @lru_cache without parentheses
            return self.lib["functools.lru_cache"](self, val)
        if isinstance(d, tuple) and d and d[0] == "lru_cache_call":
            return val
        if isinstance(d, tuple) and d and d[0] == "setter":
            prop, = d[1:]
            prop.setter = val
            return prop
        return self.call(d, [val], {})

    def st_ClassDef(self, st, env, mod):
        bases = []
        for b in st.bases:
            bv = self.eval(b, env, mod)
            if isinstance(bv, ClassVal):
                bases.append(bv)
            elif isinstance(bv, Builtin) and bv.name == "dict":
                bases.append(DICT)
            elif isinstance(bv, Builtin) and bv.name == "object":
                bases.append(OBJECT)
            elif isinstance(bv, LibRef):
                bases.append(ClassVal(bv.name, [OBJECT], {"__external__": True}))
            else:
                raise Unsupported(f"base class {ast.dump(b)}")
        if not bases:
            bases = [OBJECT]
        cenv = Env(env, {"__qualname__": st.name})
        cls = ClassVal(st.name, bases, cenv.vars, mod, st)
        for s in st.body:
            if isinstance(s, ast.FunctionDef):
                fv = self.make_function(s, env, mod, qualprefix=st.name)
                fv.owner_class = cls
                val = fv
                for dec in reversed(s.decorator_list):
                    if isinstance(dec, ast.Attribute) and dec.attr == "setter":
                        prop = cenv.vars[dec.value.id]
                        prop.setter = fv
                        val = prop
                        continue
                    d = self.eval_decorator(dec, cenv, mod)
                    val = self.apply_decorator(d, val)
                cenv.vars[s.name] = val
            else:
                self.exec_stmt(s, cenv, mod)
        env.vars[st.name] = cls

    def st_Return(self, st, env, mod):
        raise _Return(self.eval(st.value, env, mod) if st.value is not None else None)

    def st_Break(self, st, env, mod):
        raise _Break()

    def st_Continue(self, st, env, mod):
        raise _Continue()

    def st_Raise(self, st, env, mod):
        if st.exc is None:
            cur = env.lookup("__current_exc__") if self._has(env, "__current_exc__") else None
            if cur is None:
                self.raise_py("RuntimeError", "no active exception")
            raise PyRaise(cur)
        v = self.eval(st.exc, env, mod)
        if isinstance(v, ClassVal):
            v = self.instantiate(v, [], {})
        if not (isinstance(v, Obj) and v.cls.issub(EXC["BaseException"])):
            self.raise_py("TypeError", "exceptions must derive from BaseException")
        raise PyRaise(v)

    def _has(self, env, name):
        try:
            env.lookup(name)
            return True
        except KeyError:
            return False

    def st_Assert(self, st, env, mod):
        v = self.eval(st.test, env, mod)
        if not self.truth(v):
            self.raise_py("AssertionError")

    def st_If(self, st, env, mod):
        if self.truth(self.eval(st.test, env, mod)):
            self.exec_block(st.body, env, mod)
        else:
            self.exec_block(st.orelse, env, mod)

    def st_While(self, st, env, mod):
        n = 0
        broke = False
        while self.truth(self.eval(st.test, env, mod)):
            n += 1
            if n > self.loop_bound:
                raise Unsupported(f"while loop at line {st.lineno} exceeds unrolling bound")
            try:
                self.exec_block(st.body, env, mod)
            except _Break:
                broke = True
                break
            except _Continue:
                continue
        if not broke:
            self.exec_block(st.orelse, env, mod)

    def st_For(self, st, env, mod):
        it = self.eval(st.iter, env, mod)
        items = self.iterate(it)
        broke = False
        for item in items:
            guard = None
            if isinstance(item, tuple) and len(item) == 3 and item[0] == "__forked__":
                # membership of this element is symbolic and decided by a case split
                if not self.fork(item[1]):
                    continue
                item = item[2]
            if isinstance(item, tuple) and len(item) == 3 and item[0] == "__guarded__":
                _, guard, item = item
                guard = self._settle_guard(guard)
                if guard is False:
                    continue
            self.assign(st.target, item, env, mod)
            if guard is not None:
                self.guards.append(guard)
            try:
                self.exec_block(st.body, env, mod)
            except _Break:
                if guard is not None:
                    raise Unsupported("break under symbolic iteration guard")
                broke = True
                break
            except _Continue:
                continue
            except (_Return, PyRaise):
                if guard is not None:
                    raise Unsupported("return/raise under symbolic iteration guard")
                raise
            finally:
                if guard is not None:
                    self.guards.pop()
        if not broke:
            self.exec_block(st.orelse, env, mod)

    def st_With(self, st, env, mod):
        # modelled context managers: enter returns the manager itself / a modelled value
        mgrs = []
        for item in st.items:
            cm = self.eval(item.context_expr, env, mod)
            enter = self.getattr(cm, "__enter__")
            val = self.call(enter, [], {})
            mgrs.append(cm)
            if item.optional_vars is not None:
                self.assign(item.optional_vars, val, env, mod)
        try:
            self.exec_block(st.body, env, mod)
        finally:
            for cm in reversed(mgrs):
                self.call(self.getattr(cm, "__exit__"), [None, None, None], {})

    def st_Try(self, st, env, mod):
        try:
            try:
                self.exec_block(st.body, env, mod)
            except PyRaise as pr:
                handled = False
                for h in st.handlers:
                    if h.type is None:
                        match = True
                    else:
                        t = self.eval(h.type, env, mod)
                        classes = t if isinstance(t, tuple) else (t,)
                        classes = tuple(self.external_exc(c.name) if isinstance(c, LibRef) else c for c in classes)
                        match = any(isinstance(c, ClassVal) and pr.exc.cls.issub(c) for c in classes)
                    if match:
                        handled = True
                        if h.name:
                            env.vars[h.name] = pr.exc
                        prev = env.vars.get("__current_exc__")
                        env.vars["__current_exc__"] = pr.exc
                        try:
                            self.exec_block(h.body, env, mod)
                        finally:
                            env.vars["__current_exc__"] = prev
                            if h.name:
                                env.vars.pop(h.name, None)
                        break
                if not handled:
                    raise
            else:
                self.exec_block(st.orelse, env, mod)
        finally:
            if st.finalbody:
                self.exec_block(st.finalbody, env, mod)

    def st_Assign(self, st, env, mod):
        v = self.eval(st.value, env, mod)
        for t in st.targets:
            self.assign(t, v, env, mod)

    def st_AnnAssign(self, st, env, mod):
        if st.value is not None:
            self.assign(st.target, self.eval(st.value, env, mod), env, mod)

    def st_AugAssign(self, st, env, mod):
        op = type(st.op).__name__
        t = st.target
        if isinstance(t, ast.Name):
            cur = self.eval(ast.Name(id=t.id, ctx=ast.Load()), env, mod)
            rhs = self.eval(st.value, env, mod)
            if isinstance(cur, SArray):
                # numpy in-place operator: mutates the array object
                new = self.binop(op, cur, rhs)
                if isinstance(new, SArray):
                    cur.write(self, new.snap())
                    cur.kind = new.kind if cur.kind != "bool" else cur.kind
                    return
            if isinstance(cur, list) and op == "Add":
                seq = self.iterate(rhs)
                self._list_mutate(cur)
                cur.extend(seq)
                return
            self.assign(t, self.binop(op, cur, rhs), env, mod)
            return
        if isinstance(t, ast.Subscript):
            obj = self.eval(t.value, env, mod)
            idx = self.eval_index(t.slice, env, mod)
            cur = self.getitem(obj, idx)
            rhs = self.eval(st.value, env, mod)
            self.setitem(obj, idx, self.binop(op, cur, rhs))
            return
        if isinstance(t, ast.Attribute):
            obj = self.eval(t.value, env, mod)
            cur = self.getattr(obj, t.attr)
            rhs = self.eval(st.value, env, mod)
            if isinstance(cur, list) and op == "Add":
                self._list_mutate(cur)
                cur.extend(self.iterate(rhs))
                return
            self.setattr(obj, t.attr, self.binop(op, cur, rhs))
            return
        raise Unsupported("augmented assignment target")

    def st_Delete(self, st, env, mod):
        for t in st.targets:
            if isinstance(t, ast.Name):
                env.vars.pop(t.id, None)
            elif isinstance(t, ast.Subscript):
                obj = self.eval(t.value, env, mod)
                idx = self.eval_index(t.slice, env, mod)
                self.delitem(obj, idx)
            else:
                raise Unsupported("del target")

    # ---------------------------------------------------------- assignment
    def assign(self, target, value, env, mod):
        if isinstance(target, ast.Name):
            if self.guards:
                env.vars.setdefault("__guard_assigned__", set()).add(target.id)
            g = env.vars.get("__globals_declared__")
            if g and target.id in g:
                mod.env.vars[target.id] = value
            else:
                env.vars[target.id] = value
        elif isinstance(target, (ast.Tuple, ast.List)):
            items = self.iterate(value)
            if len(items) != len(target.elts):
                self.raise_py("ValueError", "unpack")
            for t, v in zip(target.elts, items):
                self.assign(t, v, env, mod)
        elif isinstance(target, ast.Attribute):
            obj = self.eval(target.value, env, mod)
            self.setattr(obj, target.attr, value)
        elif isinstance(target, ast.Subscript):
            obj = self.eval(target.value, env, mod)
            idx = self.eval_index(target.slice, env, mod)
            self.setitem(obj, idx, value)
        else:
            raise Unsupported(f"assignment target {type(target).__name__}")

    # ---------------------------------------------------------- expressions
    def eval(self, node, env, mod):
        m = getattr(self, "ev_" + type(node).__name__, None)
        if m is None:
            raise Unsupported(f"expression {type(node).__name__} at line {getattr(node, 'lineno', '?')}")
        v = m(node, env, mod)
        if isinstance(v, Poison):
            raise Unsupported(f"use of poisoned value: {v.why}")
        return v

    def ev_Constant(self, node, env, mod):
        v = node.value
        if isinstance(v, float):
            # literal read as the exact decimal it spells (A1)
            try:
                txt = ast.get_source_segment(mod.path.read_text(), node) if False else None
            except Exception:
                txt = None
            return Fraction(repr(v))
        if isinstance(v, bytes):
            from . import lib as _lib
            return _lib.SBytes([("lit", v)] if v else [])
        return v

    def ev_Name(self, node, env, mod):
        try:
            v = env.lookup(node.id)
        except KeyError:
            if node.id in self.builtins:
                return self.builtins[node.id]
            # python: local declared later in the function but not yet bound
            declared = None
            try:
                declared = env.lookup("__locals_declared__")
            except KeyError:
                pass
            if declared and node.id in declared:
                self.raise_py("UnboundLocalError", node.id)
            import builtins as _pybuiltins
            if hasattr(_pybuiltins, node.id):
                # a real Python builtin the engine has no model of: undecided, NOT a NameError of the code
                raise Unsupported(f"builtin {node.id}() is not modelled")
            self.raise_py("NameError", node.id)
        if isinstance(v, tuple) and len(v) == 2 and v[0] == "__const__":
            from . import lib as _lib
            c = _lib.CONSTANTS[v[1]]
            return c(self) if callable(c) else c
        return v

    def ev_Attribute(self, node, env, mod):
        obj = self.eval(node.value, env, mod)
        return self.getattr(obj, node.attr)

    def ev_Tuple(self, node, env, mod):
        return tuple(self._elts(node.elts, env, mod))

    def ev_List(self, node, env, mod):
        return list(self._elts(node.elts, env, mod))

    def ev_Set(self, node, env, mod):
        return set(self._elts(node.elts, env, mod))

    def _elts(self, elts, env, mod):
        out = []
        for e in elts:
            if isinstance(e, ast.Starred):
                out.extend(self.iterate(self.eval(e.value, env, mod)))
            else:
                out.append(self.eval(e, env, mod))
        return out

    def ev_Dict(self, node, env, mod):
        d = SDict()
        for k, v in zip(node.keys, node.values):
            if k is None:
                src = self.eval(v, env, mod)
                for kk, vv in self.dict_items(src):
                    d.d[kk] = [True, vv]
            else:
                kk = self.eval(k, env, mod)
                d.d[self.hashable(kk)] = [True, self.eval(v, env, mod)]
        return d

    def hashable(self, k):
        k = self.resolve(k)
        if isinstance(k, (str, int, bool, Fraction, tuple, type(None))):
            return k
        if isinstance(k, SAtom):
            # concretise the atom against known strings
            raise Unsupported("symbolic dictionary key (concretise first)")
        raise Unsupported(f"unhashable / symbolic key {k!r}")

    def ev_JoinedStr(self, node, env, mod):
        if len(node.values) == 1 and isinstance(node.values[0], ast.FormattedValue) \
                and node.values[0].format_spec is None and node.values[0].conversion in (-1, 114, 115):
            # f"{x}" / f"{x!r}" / f"{x!s}" of one value: str(x) (repr and str agree for floats, ints, bools)
            x = self.eval(node.values[0].value, env, mod)
            if isinstance(x, (SReal, SInt, SBool, Fraction)) or (isinstance(x, (int, float)) and not isinstance(x, bool)):
                return self.call(self.builtins["str"], [x], {})
        parts, vals = [], []
        sym = False
        for v in node.values:
            if isinstance(v, ast.Constant):
                parts.append(str(v.value))
                vals.append(None)
            else:
                x = self.eval(v.value, env, mod)
                vals.append(x)
                if isinstance(x, str):
                    parts.append(x)
                elif isinstance(x, (int, bool)) and not isinstance(x, Sym):
                    parts.append(str(x))
                else:
                    sym = True
        if sym:
            # f"...{a}...{b}" is "...{}...{}".format(a, b): one library model (and one place for contracts to hook
            # into) for both spellings
            if all(isinstance(v, ast.Constant) or (v.format_spec is None and v.conversion == -1) for v in node.values):
                tmpl, args = "", []
                for v, x in zip(node.values, vals):
                    if isinstance(v, ast.Constant):
                        tmpl += str(v.value).replace("{", "{{").replace("}", "}}")
                    else:
                        tmpl += "{}"
                        args.append(x)
                return self.lib["str.format"](self, tmpl, *args)
            return Opaque("formatted-string")
        return "".join(parts)

    def ev_BoolOp(self, node, env, mod):
        is_and = isinstance(node.op, ast.And)
        last = None
        for i, e in enumerate(node.values):
            last = self.eval(e, env, mod)
            if i == len(node.values) - 1:
                return last
            t = self.truth(last)
            if is_and and not t:
                return last
            if not is_and and t:
                return last
        return last

    def ev_UnaryOp(self, node, env, mod):
        v = self.eval(node.operand, env, mod)
        op = type(node.op).__name__
        if op == "Invert":
            if isinstance(v, SArray) and v.kind == "bool":
                s = v.snap()
                return SArray(v.length, lambda i: SBool(z3.Not(V.bterm(s(i)))), "bool")
            if isinstance(v, SCompressed) and v.kind == "bool":
                f = v.fn
                return SCompressed(lambda i: SBool(z3.Not(V.bterm(f(i)))), v.maskfn, v.length, "bool")
            if isinstance(v, SBool):
                return SBool(z3.Not(v.term))
            raise Unsupported("~ on non-boolean")
        if op == "Not":
            return self.not_(v)
        if isinstance(v, (SArray, SCompressed)):
            return A.elementwise(self, lambda x: A.scalar_unop(self, op, x), v)
        return A.scalar_unop(self, op, v)

    def ev_BinOp(self, node, env, mod):
        a = self.eval(node.left, env, mod)
        b = self.eval(node.right, env, mod)
        return self.binop(type(node.op).__name__, a, b)

    def binop(self, op, a, b):
        if isinstance(a, Poison) or isinstance(b, Poison):
            raise Unsupported("use of poisoned value")
        if A.is_arraylike(a) or A.is_arraylike(b):
            if op in ("BitAnd", "BitOr", "Mult") and self._is_boolarr(a) and self._is_boolarr(b):
                f = (lambda x, y: SBool(z3.And(V.bterm(x), V.bterm(y)))) if op != "BitOr" else \
                    (lambda x, y: SBool(z3.Or(V.bterm(x), V.bterm(y))))
                return A.elementwise(self, f, a, b, kind="bool")
            for o in (a, b):
                if isinstance(o, (list, tuple)):
                    raise Unsupported("array op with python sequence")
            return A.elementwise(self, lambda x, y: A.scalar_binop(self, op, x, y), a, b)
        if isinstance(a, str) and isinstance(b, str) and op == "Add":
            return a + b
        if isinstance(a, str) and op == "Mod":
            return Opaque("formatted-string")
        if isinstance(a, (str, Opaque)) and isinstance(b, (str, Opaque)) and op == "Add":
            return Opaque("formatted-string")
        if op == "Add" and type(a).__name__ == "SBytes" and type(b).__name__ == "SBytes":
            return type(a)(a.chunks + b.chunks)
        if isinstance(a, list) and isinstance(b, list) and op == "Add":
            return a + b
        if isinstance(a, tuple) and isinstance(b, tuple) and op == "Add":
            return a + b
        if isinstance(a, list) and isinstance(b, int) and op == "Mult":
            return a * b
        if isinstance(a, set) and isinstance(b, set):
            if op == "BitAnd":
                return a & b
            if op == "BitOr":
                return a | b
            if op == "Sub":
                return a - b
        if op in ("BitAnd", "BitOr") and isinstance(a, (bool, SBool)) and isinstance(b, (bool, SBool)):
            return self.and_val(a, b) if op == "BitAnd" else self.or_val(a, b)
        if isinstance(a, LibRef) or isinstance(b, LibRef):
            # e.g. path / "name"
            return Opaque("path")
        if op == "Div" and isinstance(a, Obj) and a.cls.name in ("Path", "FilePath"):
            return Opaque("path")
        if isinstance(a, Opaque) or isinstance(b, Opaque):
            return Opaque("derived")
        try:
            return A.scalar_binop(self, op, a, b)
        except ZeroDivisionError:
            self.raise_py("ZeroDivisionError")

    def _is_boolarr(self, v):
        return (isinstance(v, (SArray, SCompressed)) and v.kind == "bool") or isinstance(v, (bool, SBool))

    def ev_Compare(self, node, env, mod):
        left = self.eval(node.left, env, mod)
        result = True
        for op, comp in zip(node.ops, node.comparators):
            right = self.eval(comp, env, mod)
            r = self.compare(type(op).__name__, left, right)
            if len(node.ops) == 1:
                return r
            result = self.and_val(result, r if isinstance(r, (bool, SBool)) else self.truth(r))
            if result is False:
                return False
            left = right
        return result

    def compare(self, op, a, b):
        if op == "Is":
            return self.is_(a, b)
        if op == "IsNot":
            r = self.is_(a, b)
            return (not r) if isinstance(r, bool) else SBool(z3.Not(r.term))
        if op == "In":
            return self.contains(b, a)
        if op == "NotIn":
            r = self.contains(b, a)
            return (not r) if isinstance(r, bool) else SBool(z3.Not(r.term))
        if A.is_arraylike(a) or A.is_arraylike(b):
            return A.elementwise(self, lambda x, y: A.scalar_compare(op, x, y), a, b, kind="bool")
        if op == "Eq":
            return self.equals(a, b)
        if op == "NotEq":
            r = self.equals(a, b)
            return (not r) if isinstance(r, bool) else SBool(z3.Not(r.term))
        if V.is_num(a) and V.is_num(b):
            return A.scalar_compare(op, a, b)
        if isinstance(a, str) and isinstance(b, str):
            return {"Lt": a < b, "LtE": a <= b, "Gt": a > b, "GtE": a >= b}[op]
        if isinstance(a, (set, frozenset)) and isinstance(b, (set, frozenset)) \
                and all(isinstance(x, (str, int, bool)) for x in a | b):
            # subset / superset tests of concrete sets
            return {"Lt": a < b, "LtE": a <= b, "Gt": a > b, "GtE": a >= b}[op]
        raise Unsupported(f"compare {op} on {a!r}, {b!r}")

    def is_(self, a, b):
        if a is None or b is None:
            if isinstance(a, Sym) or isinstance(b, Sym):
                return False
            return a is b
        if isinstance(a, bool) and isinstance(b, bool):
            return a == b
        if isinstance(a, SBool) and isinstance(b, bool):
            return SBool(a.term == z3.BoolVal(b))
        return a is b

    def contains(self, container, item):
        if isinstance(container, Obj) and container.map is not None:
            m, _ = container.cls.find("__contains__")
            if m is not None and isinstance(m, FuncVal):
                return self.call(BoundMethod(container, m), [item], {})
            container = container.map
        if isinstance(container, Obj):
            m, _ = container.cls.find("__contains__")
            if m is not None:
                return self.call(BoundMethod(container, m), [item], {})
            raise Unsupported(f"in on {container!r}")
        if isinstance(container, SDict):
            if isinstance(item, SAtom):
                acc = False
                for k, e in container.d.items():
                    if isinstance(k, str) and e[0] is not False:
                        eq = self._atom_eq(item, k)
                        pres = e[0]
                        term = self.and_val(eq, True if pres is True else SBool(pres))
                        acc = self.or_val(acc, term)
                return acc
            k = self.hashable(item)
            e = container.d.get(k)
            if e is None or e[0] is False:
                return False
            if e[0] is True:
                return True
            return SBool(e[0])
        if isinstance(container, (list, tuple, set)):
            acc = False
            for x in container:
                acc = self.or_val(acc, self._truthval(self.equals(x, item)))
                if acc is True:
                    return True
            return acc
        if isinstance(container, str) and isinstance(item, str):
            return item in container
        if isinstance(container, ModuleVal):
            raise Unsupported("in on module")
        raise Unsupported(f"in on {container!r}")

    def _truthval(self, v):
        if isinstance(v, (bool, SBool)):
            return v
        return self.truth(v)

    def ev_IfExp(self, node, env, mod):
        if self.truth(self.eval(node.test, env, mod)):
            return self.eval(node.body, env, mod)
        return self.eval(node.orelse, env, mod)

    def ev_Lambda(self, node, env, mod):
        return self.make_function(node, env, mod)

    def ev_ListComp(self, node, env, mod):
        out = []

        def emit(e, guard=None):
            v = self.eval(node.elt, e, mod)
            # an element that exists only under a presence condition stays guarded (as in list(d.keys()))
            out.append(v if guard is None else ("__guarded__", guard, v))
        self._comp(node.generators, 0, env, mod, emit, guarded_ok=True)
        return out

    def ev_GeneratorExp(self, node, env, mod):
        return self.ev_ListComp(node, env, mod)

    def ev_SetComp(self, node, env, mod):
        return set(self.ev_ListComp(node, env, mod))

    def ev_DictComp(self, node, env, mod):
        d = SDict()
        def add(e):
            d.d[self.hashable(self.eval(node.key, e, mod))] = [True, self.eval(node.value, e, mod)]
        self._comp(node.generators, 0, env, mod, add)
        return d

    def _comp(self, gens, i, env, mod, emit, guarded_ok=False, guard=None):
        if i == len(gens):
            if guard is not None:
                emit(env, guard)
            else:
                emit(env)
            return
        g = gens[i]
        for item in self.iterate(self.eval(g.iter, env, mod)):
            g2 = guard
            if isinstance(item, tuple) and len(item) == 3 and item[0] == "__guarded__":
                if not guarded_ok or len(gens) != 1:
                    raise Unsupported("comprehension over symbolic-presence dict")
                _, g2, item = item
                g2 = self._settle_guard(g2)
                if g2 is False:
                    continue
                if g2 is None:
                    g2 = guard
            e2 = Env(env)
            self.assign(g.target, item, e2, mod)
            if g2 is not None:
                self.guards.append(g2)
            try:
                keep = all(self.truth(self.eval(c, e2, mod)) for c in g.ifs)
                if keep:
                    self._comp(gens, i + 1, e2, mod, emit, guarded_ok, g2)
            finally:
                if g2 is not None:
                    self.guards.pop()

    def ev_Call(self, node, env, mod):
        # super() support
        if isinstance(node.func, ast.Name) and node.func.id == "super":
            cls = env.lookup("__class_cell__")
            if node.args:
                cls = self.eval(node.args[0], env, mod)
                obj = self.eval(node.args[1], env, mod)
            else:
                obj = env.lookup(list(env.vars.keys())[0]) if False else env.lookup("self")
            return ("__super__", cls, obj)
        fn = self.eval(node.func, env, mod)
        args = []
        for a in node.args:
            if isinstance(a, ast.Starred):
                args.extend(self.iterate(self.eval(a.value, env, mod)))
            else:
                args.append(self.eval(a, env, mod))
        kwargs = {}
        for kw in node.keywords:
            if kw.arg is None:
                src = self.eval(kw.value, env, mod)
                for k, v in self.dict_items(src):
                    kwargs[k] = v
            else:
                kwargs[kw.arg] = self.eval(kw.value, env, mod)
        return self.call(fn, args, kwargs)

    def ev_Subscript(self, node, env, mod):
        obj = self.eval(node.value, env, mod)
        idx = self.eval_index(node.slice, env, mod)
        return self.getitem(obj, idx)

    def eval_index(self, sl, env, mod):
        if isinstance(sl, ast.Slice):
            return slice(self.eval(sl.lower, env, mod) if sl.lower else None,
                         self.eval(sl.upper, env, mod) if sl.upper else None,
                         self.eval(sl.step, env, mod) if sl.step else None)
        if isinstance(sl, ast.Tuple):
            return tuple(self.eval_index(e, env, mod) for e in sl.elts)
        return self.eval(sl, env, mod)

    def ev_Slice(self, node, env, mod):
        return self.eval_index(node, env, mod)

    def ev_Starred(self, node, env, mod):
        raise Unsupported("starred expression")

    # ---------------------------------------------------------- attribute access
    def getattr(self, obj, name, raw=False):
        from . import lib as _lib
        if isinstance(obj, tuple) and len(obj) == 3 and obj[0] == "__super__":
            _, cls, inst = obj
            mro = inst.cls.mro() if isinstance(inst, Obj) else [cls]
            start = mro.index(cls) + 1 if cls in mro else 0
            for c in mro[start:]:
                if name in c.ns:
                    return self._bind(c.ns[name], inst, c)
                if c is DICT:
                    return BoundMethod(inst, Builtin("dict." + name, self._dict_method(name)))
            if name == "__init__":
                return Builtin("object.__init__", lambda I, *a, **k: None)
            raise Unsupported(f"super().{name}")
        if isinstance(obj, ModuleVal):
            try:
                return obj.env.lookup(name) if name in obj.env.vars else self._missing_mod_attr(obj, name)
            except KeyError:
                self.raise_py("AttributeError", name)
        if isinstance(obj, LibRef):
            full = f"{obj.name}.{name}"
            const = _lib.CONSTANTS.get(full)
            if const is not None:
                return const(self) if callable(const) else const
            return LibRef(full)
        if isinstance(obj, Obj):
            if name in obj.attrs:
                return obj.attrs[name]
            if name == "__class__":
                return obj.cls
            v, owner = obj.cls.find(name)
            if v is not None:
                return self._bind(v, obj, owner)
            if obj.map is not None or obj.cls.issub(DICT):
                return BoundMethod(obj, Builtin("dict." + name, self._dict_method(name)))
            hook = self.lib.get(f"attr:{obj.cls.name}.{name}")
            if hook is not None:
                return hook(self, obj)
            self.raise_py("AttributeError", name)
        if isinstance(obj, ClassVal):
            if name == "__name__":
                return obj.name
            v, owner = obj.find(name)
            if v is None:
                self.raise_py("AttributeError", name)
            if isinstance(v, FuncVal) and v.is_classmethod:
                return BoundMethod(obj, v)
            return v
        if isinstance(obj, FuncVal):
            if name in obj.attrs:
                return obj.attrs[name]
            if name == "__doc__":
                return ast.get_docstring(obj.node) if not isinstance(obj.node, ast.Lambda) else None
            if name == "__name__":
                return obj.name
            if name == "__module__":
                return obj.module.name
            self.raise_py("AttributeError", name)
        m = _lib.method_of(self, obj, name)
        if m is not None:
            return m
        if isinstance(obj, BoundMethod) and name == "__func__":
            return obj.func
        if isinstance(obj, BoundMethod) and name == "__self__":
            return obj.obj
        if isinstance(obj, Builtin) and obj is self.builtins.get("dict") and name in (
                "__getitem__", "__setitem__", "__contains__", "__delitem__", "get", "pop"):
            # dict.<method>(d, ...): the plain dictionary operation, bypassing an override in a subclass
            def plain(I, d, *a, _n=name):
                m = d.map if isinstance(d, Obj) and d.map is not None else d
                if not isinstance(m, SDict):
                    raise Unsupported(f"dict.{_n} on {d!r}")
                if _n == "__getitem__":
                    return _lib.dict_getitem(I, m, *a)
                if _n == "__setitem__":
                    return _lib.dict_setitem(I, m, *a)
                if _n == "__contains__":
                    return I.contains(m, *a)
                if _n == "__delitem__":
                    return _lib.dict_pop(I, m, *a) and None
                if _n == "pop":
                    return _lib.dict_pop(I, m, *a)
                return I.call(I.getattr(m, "get"), list(a), {})
            return Builtin("dict." + name, plain)
        if isinstance(obj, Builtin) and obj is self.builtins.get("dict") and name == "fromkeys":
            def fromkeys(I, keys, value=None):
                d = SDict()
                for k in _lib._plain(I.iterate(keys)):
                    _lib.dict_setitem(I, d, k, value)
                return d
            return Builtin("dict.fromkeys", fromkeys)
        if obj is None or isinstance(obj, (bool, int, Fraction)):
            self.raise_py("AttributeError", f"{type(obj).__name__} object has no attribute {name}")
        raise Unsupported(f"attribute {name} of {obj!r}")

    def _missing_mod_attr(self, mod, name):
        raise KeyError(name)

    def _bind(self, v, inst, owner):
        if isinstance(v, FuncVal):
            if v.is_property:
                return self.call_function(v, [inst], {})
            if v.is_static:
                return v
            if v.is_classmethod:
                return BoundMethod(inst.cls if isinstance(inst, Obj) else inst, v)
            return BoundMethod(inst, v, owner)
        if isinstance(v, Builtin) and isinstance(inst, Obj):
            return BoundMethod(inst, v)
        return v

    def _dict_method(self, name):
        impl = self.lib.get("dict." + name)
        if impl is None:
            raise Unsupported(f"dict.{name}")
        return impl

    def setattr(self, obj, name, value):
        if isinstance(obj, Obj):
            v, owner = obj.cls.find(name)
            if isinstance(v, FuncVal) and v.is_property:
                if v.setter is None:
                    self.raise_py("AttributeError", f"can't set {name}")
                self.call_function(v.setter, [obj, value], {})
                return
            if self.guards:
                raise Unsupported("attribute store under symbolic guard")
            obj.attrs[name] = value
            self.mutations.append((obj, name))
            return
        if isinstance(obj, FuncVal):
            obj.attrs[name] = value
            return
        if isinstance(obj, ModuleVal):
            obj.env.vars[name] = value
            self.mutations.append((obj, name))
            return
        if isinstance(obj, LibRef):
            hook = self.lib.get("setattr:" + obj.name + "." + name)
            if hook:
                return hook(self, value)
            raise Unsupported(f"attribute store on library object {obj.name}.{name}")
        raise Unsupported(f"setattr on {obj!r}")

    # ---------------------------------------------------------- items
    def getitem(self, obj, idx):
        from . import lib as _lib
        return _lib.getitem(self, obj, idx)

    def setitem(self, obj, idx, value):
        from . import lib as _lib
        return _lib.setitem(self, obj, idx, value)

    def delitem(self, obj, idx):
        from . import lib as _lib
        return _lib.delitem(self, obj, idx)

    def iterate(self, v):
        from . import lib as _lib
        return _lib.iterate(self, v)

    def dict_items(self, v):
        from . import lib as _lib
        return _lib.dict_items(self, v)

    def _list_mutate(self, lst):
        if self.guards:
            raise Unsupported("list mutation under symbolic guard")
        self.mutations.append(lst)


def _assigned_names(fn_node):
    """names bound anywhere in the function body (python's local-variable rule)"""
    names = set()
    if isinstance(fn_node, ast.Lambda):
        return names

    class Vis(ast.NodeVisitor):
        def visit_Name(self, n):
            if isinstance(n.ctx, (ast.Store, ast.Del)):
                names.add(n.id)

        def visit_FunctionDef(self, n):
            names.add(n.name)

        def visit_ClassDef(self, n):
            names.add(n.name)

        def visit_Lambda(self, n):
            pass

        def visit_Import(self, n):
            for al in n.names:
                names.add(al.asname or al.name.split(".")[0])

        def visit_ImportFrom(self, n):
            for al in n.names:
                names.add(al.asname or al.name)

        def visit_ExceptHandler(self, n):
            if n.name:
                names.add(n.name)
            self.generic_visit(n)

    for st in fn_node.body:
        Vis().visit(st)
    glob = set()
    for st in ast.walk(fn_node):
        if isinstance(st, (ast.Global, ast.Nonlocal)):
            glob.update(st.names)
    return names - glob
