"""Library models (assumed contracts on dependencies, DESIGN.md 2.5) and the
python builtins of the interpreter.  Every model used on a run is listed in the
evidence under trusted_base as ``libmodel:<name>``."""
from __future__ import annotations

from fractions import Fraction

import z3

from ..core import Unsupported
from . import values as V
from .values import SBool, SInt, SReal, SAtom, Sym, Opaque, NAN, fresh
from . import arrays as A
from .arrays import SArray, SCompressed


def _sx():
    from . import symex
    return symex


# ================================================================== constants
CONSTANTS = {
    "numpy.pi": lambda I: _pi(I),
    "numpy.nan": NAN,
    "numpy.inf": Opaque("inf"),
    "numpy.uint8": Opaque("dtype:uint8"),
    "math.pi": lambda I: _pi(I),
}


def _pi(I):
    for ax in V.Axioms.pi():
        I.axiom("A4.pi-bounds", ax)
    return SReal(V.PI)


# ================================================================== items
def getitem(I, obj, idx):
    sx = _sx()
    if isinstance(obj, sx.Poison):
        raise Unsupported("use of poisoned value")
    if isinstance(obj, sx.Obj):
        m, owner = obj.cls.find("__getitem__")
        if m is not None:
            return I.call(sx.BoundMethod(obj, m), [idx], {})
        if obj.map is not None:
            return dict_getitem(I, obj.map, idx)
        raise Unsupported(f"subscript of {obj!r}")
    if isinstance(obj, sx.SDict):
        return dict_getitem(I, obj, idx)
    if isinstance(obj, (list, tuple, str)):
        return seq_getitem(I, obj, idx)
    if isinstance(obj, SArray):
        return arr_getitem(I, obj, idx)
    from .arrays2d import S2D, getitem2d
    if isinstance(obj, S2D):
        return getitem2d(I, obj, idx)
    if isinstance(obj, SCompressed):
        if isinstance(idx, SCompressed) and idx.kind == "bool" and A.same_mask(I, idx.maskfn, obj.maskfn):
            # selection inside an already selected part: conjunction of the masks
            f, m0, g = obj.fn, obj.maskfn, idx.fn
            return SCompressed(f, lambda i: z3.And(m0(i), V.bterm(g(i))), obj.length, obj.kind, src=obj.src)
        if isinstance(idx, int) and not isinstance(idx, bool) and idx in (0, -1):
            # first / last selected element: a witness index with its defining axioms (IndexError when empty)
            n = V.iterm(obj.length)
            cnt = V.iterm(count_mask(I, obj.maskfn, obj.length))
            j = z3.Int(fresh("sel_first" if idx == 0 else "sel_last"))
            i = z3.Int(fresh("i"))
            I.safety("index", z3.Exists([i], z3.And(i >= 0, i < n, obj.maskfn(i))), "IndexError")
            other = z3.And(i >= 0, i < j) if idx == 0 else z3.And(i > j, i < n)
            I.axiom("def:selection-end", z3.And(j >= 0, j < n, obj.maskfn(j), cnt > 0,
                                                z3.ForAll([i], z3.Implies(other, z3.Not(obj.maskfn(i))))))
            return obj.fn(j)
        if isinstance(idx, slice) and idx.step is None and idx.start is None and isinstance(idx.stop, SInt):
            # a[:k] with a symbolic k (negative: all but the last -k): abstracted to fresh values of the right length
            cnt = V.iterm(count_mask(I, obj.maskfn, obj.length))
            k = idx.stop.term
            ln = z3.If(k < 0, z3.If(cnt + k > 0, cnt + k, 0), z3.If(k < cnt, k, cnt))
            f = z3.Function(fresh("selslice"), z3.IntSort(), z3.RealSort())
            I.trusted.add("A9.slices of selections abstracted to fresh values")
            return SArray(SInt(z3.simplify(ln)), lambda j, f=f: SReal(f(j)), obj.kind)
        if isinstance(idx, slice) and idx.step is None and all(v is None or (isinstance(v, int) and not isinstance(v, bool))
                                                                for v in (idx.start, idx.stop)):
            # a[:k] / a[-k:] of a selection: ABSTRACTED to an array of fresh values of the right length (what the
            # elements are is lost; sound for proofs, a refutation that depends on them does not replay)
            cnt = V.iterm(count_mask(I, obj.maskfn, obj.length))
            if idx.start is None and idx.stop is not None and idx.stop >= 0:
                ln = z3.If(cnt < idx.stop, cnt, z3.IntVal(idx.stop))
            elif idx.stop is None and idx.start is not None and idx.start < 0:
                ln = z3.If(cnt < -idx.start, cnt, z3.IntVal(-idx.start))
            else:
                raise Unsupported("slice of a compressed array")
            f = z3.Function(fresh("selslice"), z3.IntSort(), z3.RealSort())
            I.trusted.add("A9.slices of selections abstracted to fresh values")
            return SArray(SInt(z3.simplify(ln)), lambda k, f=f: SReal(f(k)), obj.kind)
        raise Unsupported("indexing a compressed array")
    if isinstance(obj, sx.LibRef) and obj.name in ("typing.List", "typing.Literal"):
        return Opaque("type")
    raise Unsupported(f"subscript of {obj!r}")


def setitem(I, obj, idx, value):
    sx = _sx()
    if isinstance(obj, sx.Obj):
        m, owner = obj.cls.find("__setitem__")
        if m is not None:
            I.call(sx.BoundMethod(obj, m), [idx, value], {})
            return
        if obj.map is not None:
            return dict_setitem(I, obj.map, idx, value)
        raise Unsupported(f"item store on {obj!r}")
    if isinstance(obj, sx.SDict):
        return dict_setitem(I, obj, idx, value)
    if isinstance(obj, list):
        i = concrete_index(I, idx, len(obj))
        I._list_mutate(obj)
        obj[i] = value
        return
    if isinstance(obj, SArray):
        return arr_setitem(I, obj, idx, value)
    from .arrays2d import S2D, setitem2d
    if isinstance(obj, S2D):
        return setitem2d(I, obj, idx, value)
    if isinstance(obj, SSeq):
        if isinstance(idx, slice) and idx.start is None and idx.stop is None and idx.step is None \
                and isinstance(value, SSeq):
            obj.term = value.term
            I.mutations.append(obj)
            return
        raise Unsupported("SSeq item store")
    if isinstance(obj, SCompressed) and isinstance(idx, SCompressed) and idx.kind == "bool" \
            and A.same_mask(I, idx.maskfn, obj.maskfn) and not A.is_arraylike(value):
        f, g = obj.fn, idx.fn
        if isinstance(obj.src, tuple) and len(obj.src) == 2 and isinstance(obj.src[0], S2D):
            # a column of a (row-selected) matrix is a VIEW: the store goes through to the matrix
            m2, c = obj.src
            setitem2d(I, m2, (idx, c), value)
            obj.fn = lambda i: A.ite_val(V.bterm(g(i)), value, f(i))
            return
        # x[x > 1] = 1 on a selection (a selection is a copy in numpy, so only this object changes)
        obj.fn = lambda i: A.ite_val(V.bterm(g(i)), value, f(i))
        I.mutations.append(obj)
        return
    raise Unsupported(f"item store on {obj!r}")


def delitem(I, obj, idx):
    sx = _sx()
    if isinstance(obj, sx.Obj) and obj.map is not None:
        obj = obj.map
    if isinstance(obj, sx.SDict):
        dict_pop(I, obj, idx)
        return
    if isinstance(obj, list):
        i = concrete_index(I, idx, len(obj))
        I._list_mutate(obj)
        del obj[i]
        return
    raise Unsupported("del item")


def concrete_index(I, idx, n):
    """index into a python sequence of concrete length n; symbolic ints are case-split"""
    if isinstance(idx, bool):
        idx = int(idx)
    if isinstance(idx, Fraction) and idx.denominator == 1:
        idx = int(idx)
    if isinstance(idx, int):
        if idx < -n or idx >= n:
            I.raise_py("IndexError", "index out of range")
        return idx % n if n else idx
    if isinstance(idx, SInt):
        for k in range(-n, n):
            if I.fork(idx.term == k):
                return k % n
        I.raise_py("IndexError", "index out of range")
    if isinstance(idx, (SReal, Fraction, float)):
        I.raise_py("TypeError", "indices must be integers")
    raise Unsupported(f"index {idx!r}")


def seq_getitem(I, obj, idx):
    if isinstance(idx, slice):
        if any(isinstance(x, Sym) for x in (idx.start, idx.stop, idx.step)):
            # symbolic slice bound on a concrete-length sequence: case split
            lo = 0 if idx.start is None else _split_int(I, idx.start, len(obj))
            hi = len(obj) if idx.stop is None else _split_int(I, idx.stop, len(obj))
            return obj[slice(lo, hi, idx.step)]
        return obj[idx]
    return obj[concrete_index(I, idx, len(obj))]


def _split_int(I, v, n):
    if isinstance(v, int):
        return v
    for k in range(0, n + 1):
        if I.fork(v.term == k):
            return k
    raise Unsupported("slice bound outside 0..len")


# ------------------------------------------------------------------ dict
def _key(I, d, k):
    """normalise a key; a symbolic atom is concretised against the known keys"""
    k = I.resolve(k)
    if isinstance(k, SAtom):
        for cand in list(d.d.keys()):
            if isinstance(cand, str):
                r = I._atom_eq(k, cand)
                if r is True or (r is not False and I.fork(r.term)):
                    return cand
        return ("__other_atom__", k)
    if isinstance(k, float):
        k = V.to_frac(k)
    if isinstance(k, (str, int, bool, Fraction, tuple, type(None))):
        return k
    raise Unsupported(f"dict key {k!r}")


def dict_getitem(I, d, k):
    sx = _sx()
    k = _key(I, d, k)
    e = d.d.get(k)
    if e is None or e[0] is False:
        I.raise_py("KeyError", k)
    if e[0] is not True:
        if not I.fork(e[0]):
            I.raise_py("KeyError", k)
    v = e[1]
    if isinstance(v, sx.Poison):
        raise Unsupported(f"use of poisoned dict value {k!r}: {v.why}")
    return v


def dict_setitem(I, d, k, v):
    k = _key(I, d, k)
    if isinstance(k, tuple) and k and k[0] == "__other_atom__":
        raise Unsupported("store under an unknown symbolic key")
    if I.guards:
        g = z3.And(*I.guards)
        e = d.d.get(k, [False, None])
        old_p = e[0]
        newp = z3.simplify(z3.If(g, True, old_p if not isinstance(old_p, bool) else z3.BoolVal(old_p)))
        newp = True if z3.is_true(newp) else (False if z3.is_false(newp) else newp)
        d.d[k] = [newp, _phi(I, g, v, e[1], old_p)]
    else:
        d.d[k] = [True, v]
    I.mutations.append(d)


def _phi(I, g, new, old, old_present):
    sx = _sx()
    if old_present is False or old is new:
        return new
    if V.is_num(new) and V.is_num(old):
        try:
            return A.ite_val(g, new, old)
        except Unsupported:
            pass
    return sx.Poison("value merged under a symbolic iteration guard")


def dict_pop(I, d, k, *default):
    k = _key(I, d, k)
    e = d.d.get(k)
    if I.guards:
        g = z3.And(*I.guards)
        if e is None or e[0] is False:
            raise Unsupported("guarded pop of absent key")
        old_p = e[0]
        newp = z3.simplify(z3.And(z3.Not(g), old_p if not isinstance(old_p, bool) else z3.BoolVal(old_p)))
        newp = True if z3.is_true(newp) else (False if z3.is_false(newp) else newp)
        e[0] = newp
        I.mutations.append(d)
        return e[1]
    if e is None or e[0] is False or (e[0] is not True and not I.fork(e[0])):
        if default:
            return default[0]
        I.raise_py("KeyError", k)
    del d.d[k]
    I.mutations.append(d)
    return e[1]


def dict_keys_iter(I, d, what="keys"):
    """iteration: entries with symbolic presence are iterated under a guard"""
    out = []
    for k, e in list(d.d.items()):
        if e[0] is False:
            continue
        item = k if what == "keys" else ((k, e[1]) if what == "items" else e[1])
        if e[0] is True:
            out.append(item)
        else:
            out.append(("__guarded__", e[0], item))
    return out


def dict_items(I, v):
    sx = _sx()
    if isinstance(v, sx.Obj) and v.map is not None:
        v = v.map
    if isinstance(v, sx.SDict):
        res = []
        for k, e in v.d.items():
            if e[0] is False:
                continue
            if e[0] is not True:
                if not I.fork(e[0]):
                    continue
            res.append((k, e[1]))
        return res
    if isinstance(v, dict):
        return list(v.items())
    raise Unsupported(f"dict items of {v!r}")


def _m(obj):
    sx = _sx()
    return obj.map if isinstance(obj, sx.Obj) else obj


def install_dict(I):
    L = I.lib
    sx = _sx()

    def d_init(I, self, *args, **kwargs):
        if isinstance(self, sx.Obj) and self.map is None:
            self.map = sx.SDict()
        m = _m(self)
        for a in args:
            for k, v in dict_items(I, a) if not isinstance(a, (list, tuple)) else [tuple(x) for x in a]:
                m.d[k] = [True, v]
        for k, v in kwargs.items():
            m.d[k] = [True, v]
    L["dict.__init__"] = d_init
    L["dict.__setitem__"] = lambda I, self, k, v: dict_setitem(I, _m(self), k, v)
    L["dict.__getitem__"] = lambda I, self, k: dict_getitem(I, _m(self), k)
    L["dict.__contains__"] = lambda I, self, k: I.contains(_m(self), k)
    L["dict.pop"] = lambda I, self, k, *d: dict_pop(I, _m(self), k, *d)
    L["dict.keys"] = lambda I, self: ("__dictview__", _m(self), "keys")
    L["dict.values"] = lambda I, self: ("__dictview__", _m(self), "values")
    L["dict.items"] = lambda I, self: ("__dictview__", _m(self), "items")

    def d_get(I, self, k, default=None):
        m = _m(self)
        kk = _key(I, m, k)
        e = m.d.get(kk)
        if e is None or e[0] is False or (e[0] is not True and not I.fork(e[0])):
            return default
        if isinstance(e[1], sx.Poison):
            raise Unsupported("poisoned value")
        return e[1]
    L["dict.get"] = d_get

    def d_update(I, self, *args, **kwargs):
        # dict.update bypasses __setitem__ of subclasses (as in CPython)
        m = _m(self)
        for a in args:
            if isinstance(a, (list, tuple)):
                pairs = [(True,) + tuple(x) for x in a]
            else:
                src = _m(a)
                if not isinstance(src, sx.SDict):
                    raise Unsupported("dict.update from this object")
                # entries whose presence is symbolic are written under that presence as a guard
                pairs = [(e[0], k, e[1]) for k, e in src.d.items() if e[0] is not False]
            for g, k, v in pairs:
                if g is True:
                    dict_setitem(I, m, k, v)
                else:
                    I.guards.append(g)
                    try:
                        dict_setitem(I, m, k, v)
                    finally:
                        I.guards.pop()
        for k, v in kwargs.items():
            dict_setitem(I, m, k, v)
    L["dict.update"] = d_update

    def d_copy(I, self):
        m = _m(self)
        n = sx.SDict()
        for k, e in m.d.items():
            n.d[k] = [e[0], e[1]]
        return n
    L["dict.copy"] = d_copy

    def d_setdefault(I, self, k, default=None):
        m = _m(self)
        r = I.contains(m, k)
        if I.truth(r):
            return dict_getitem(I, m, k)
        dict_setitem(I, m, k, default)
        return default
    L["dict.setdefault"] = d_setdefault

    def d_clear(I, self):
        m = _m(self)
        m.d.clear()
        I.mutations.append(m)
    L["dict.clear"] = d_clear


# ------------------------------------------------------------------ iteration
def iterate(I, v):
    sx = _sx()
    if isinstance(v, sx.Poison):
        raise Unsupported("use of poisoned value")
    if isinstance(v, SSeq):
        return ("__sseq__", v)
    if isinstance(v, (list, tuple)):
        if len(v) == 3 and isinstance(v, tuple) and v[0] == "__dictview__":
            return dict_keys_iter(I, v[1], v[2])
        return list(v)
    if isinstance(v, set):
        try:
            return sorted(v)
        except TypeError:
            return list(v)
    if isinstance(v, str):
        return list(v)
    if isinstance(v, range):
        return list(v)
    if isinstance(v, sx.SDict):
        return dict_keys_iter(I, v, "keys")
    if isinstance(v, sx.Obj):
        m, _ = v.cls.find("__iter__")
        if m is not None:
            return iterate(I, I.call(sx.BoundMethod(v, m), [], {}))
        if v.map is not None:
            return dict_keys_iter(I, v.map, "keys")
    if isinstance(v, SArray) and isinstance(v.length, int):
        return [v.at(z3.IntVal(i)) for i in range(v.length)]
    raise Unsupported(f"iteration over {v!r}")


# ------------------------------------------------------------------ arrays: indexing
def arr_getitem(I, arr, idx):
    if idx is Ellipsis:
        return arr          # a[...] is a view of the whole array
    if isinstance(idx, tuple) and len(idx) == 2 and idx[0] is Ellipsis:
        return arr_getitem(I, arr, idx[1])      # a[..., k] of a 1-D array is a[k]
    if isinstance(idx, SArray) and idx.kind == "bool":
        s = arr.snap()
        m = idx.snap()
        return SCompressed(s, lambda i: V.bterm(m(i)), arr.length, arr.kind, src=arr)
    if isinstance(idx, slice):
        return arr_slice(I, arr, idx)
    if isinstance(idx, (int, SInt, bool)) or (isinstance(idx, Fraction) and idx.denominator == 1):
        n = arr.len_term()
        i = V.iterm(idx)
        I.safety("index", z3.And(i >= -n, i < n), "IndexError")
        j = z3.If(i < 0, i + n, i) if not (isinstance(idx, int) and idx >= 0) else i
        return arr.at(j)
    if isinstance(idx, (SReal, Fraction)):
        I.raise_py("IndexError", "only integers, slices ... are valid indices")
    raise Unsupported(f"array index {idx!r}")


def _clip_bound(I, v, n, default):
    """python slice bound normalisation for step > 0: result in [0, n]"""
    if v is None:
        return default
    t = V.iterm(v)
    t = z3.If(t < 0, z3.If(t + n < 0, 0, t + n), z3.If(t > n, n, t))
    return z3.simplify(t)


def arr_slice(I, arr, sl):
    n = arr.len_term()
    step = sl.step
    if step is None or step == 1:
        lo = _clip_bound(I, sl.start, n, z3.IntVal(0))
        hi = _clip_bound(I, sl.stop, n, n)
        length = z3.simplify(z3.If(hi - lo > 0, hi - lo, 0))
        return arr.view(SInt(length), lambda i: i + lo, lambda j: j - lo,
                        lambda j: z3.And(j >= lo, j < lo + length))
    if step == -1 and sl.start is None and sl.stop is None:
        return arr.view(arr.length, lambda i: n - 1 - i, lambda j: n - 1 - j,
                        lambda j: z3.And(j >= 0, j < n))
    raise Unsupported("slice with this step")


def arr_setitem(I, arr, idx, value):
    if isinstance(idx, SArray) and idx.kind == "bool":
        m = idx.snap()
        old = arr.snap()
        if isinstance(value, SCompressed):
            if not A.same_mask(I, value.maskfn, lambda i: V.bterm(m(i))):
                raise Unsupported("masked store with a differently masked value")
            vf = value.fn

            def masked(i):
                g = V.bterm(m(i))
                I.dom_guards.append(g)
                try:
                    v = vf(i)
                finally:
                    I.dom_guards.pop()
                return A.ite_val(g, v, old(i))
            arr.write(I, masked)
        elif isinstance(value, SArray):
            raise Unsupported("masked store of a full array")
        else:
            arr.write(I, lambda i: A.ite_val(V.bterm(m(i)), value, old(i)))
        return
    if isinstance(idx, tuple):
        raise Unsupported("2-D store")
    if isinstance(idx, slice):
        view = arr_slice(I, arr, idx)
        if isinstance(value, SArray):
            I.safety("shape", V.iterm(value.length) == V.iterm(view.length), "ValueError")
            vs = value.snap()
            view.write(I, vs)
        elif isinstance(value, SCompressed):
            raise Unsupported("slice store of compressed value")
        else:
            view.write(I, lambda i: value)
        return
    if isinstance(idx, (int, SInt)):
        n = arr.len_term()
        i = V.iterm(idx)
        I.safety("index", z3.And(i >= -n, i < n), "IndexError")
        j = z3.If(i < 0, i + n, i)
        old = arr.snap()
        arr.write(I, lambda k: A.ite_val(k == j, value, old(k)))
        return
    raise Unsupported(f"array store index {idx!r}")


# ================================================================== methods of builtin values
def method_of(I, obj, name):
    sx = _sx()
    B = sx.Builtin
    BM = sx.BoundMethod
    if isinstance(obj, sx.SDict):
        impl = I.lib.get("dict." + name)
        if impl is not None:
            return BM(obj, B("dict." + name, impl))
    if isinstance(obj, tuple) and len(obj) == 3 and obj[0] == "__dictview__":
        return None
    if isinstance(obj, list):
        impl = I.lib.get("list." + name)
        if impl is not None:
            return BM(obj, B("list." + name, impl))
    if isinstance(obj, str):
        impl = I.lib.get("str." + name)
        if impl is not None:
            return BM(obj, B("str." + name, impl))
    from .arrays2d import S2D as _S2D
    if isinstance(obj, _S2D) and name == "shape":
        if obj.rowmask is not None:
            # number of rows kept = size of any of its (row-selected) columns
            return (arr_size(I, obj.column(0)), obj.ncols)
        return (obj.nrows, obj.ncols)
    if isinstance(obj, _S2D) and name == "ndim":
        return 2
    if isinstance(obj, (SArray, SCompressed)):
        if name == "size":
            return arr_size(I, obj)
        if name == "shape":
            return (arr_size(I, obj),)
        if name == "T":
            return obj
        impl = I.lib.get("ndarray." + name)
        if impl is not None:
            return BM(obj, B("ndarray." + name, impl))
        # a.any(), a.all(), a.std(), ... : the method form of the numpy function of the same name
        if name in ("any", "all", "std", "var", "prod", "cumsum", "nonzero", "round", "clip", "ptp", "conj", "squeeze",
                    "ravel", "tolist", "item") and ("numpy." + name) in I.lib:
            fn = I.lib["numpy." + name]
            return BM(obj, B("ndarray." + name, lambda I, self, *a, _f=fn, **k: _f(I, self, *a, **k)))
    if isinstance(obj, (set, frozenset)) and name in ("issubset", "issuperset", "isdisjoint", "union", "intersection",
                                                       "difference", "symmetric_difference", "copy"):
        # methods of concrete sets that do not modify the set (arguments: concrete iterables)
        def setm(I, self, *others, _n=name):
            args = []
            for o in others:
                items = [I.resolve(v) for v in _plain(iterate(I, o))]
                if not all(isinstance(x, (str, int, bool, Fraction, tuple, type(None))) for x in items):
                    raise Unsupported("set operation with symbolic elements")
                args.append(set(items))
            return getattr(set(self), _n)(*args)
        return BM(obj, B("set." + name, setm))
    if type(obj).__name__ == "S2D":
        impl = I.lib.get("ndarray2d." + name)
        if impl is not None:
            return BM(obj, B("ndarray2d." + name, impl))
    if isinstance(obj, (SAtom,)):
        impl = I.lib.get("str." + name)
        if impl is not None:
            return BM(obj, B("str." + name, impl))
    if isinstance(obj, SSeq):
        return sseq_method(I, obj, name)
    if isinstance(obj, (SBytes, SNumStr)):
        key = ("bytes." if isinstance(obj, SBytes) else "str.") + name
        impl = I.lib.get(key)
        if impl is not None:
            return BM(obj, B(key, impl))
    if isinstance(obj, Opaque):
        impl = I.lib.get(f"opaque:{obj.name}.{name}")
        if impl is not None:
            return BM(obj, B(name, impl))
    return None


def arr_size(I, a):
    if isinstance(a, SArray):
        return a.length
    # compressed: number of positions where the mask holds
    return count_mask(I, a.maskfn, a.length)


COUNT = z3.Function("count", z3.ArraySort(z3.IntSort(), z3.BoolSort()), z3.IntSort(), z3.IntSort())


def count_mask(I, maskfn, length):
    k = z3.Int(fresh("ci"))
    lam = z3.Lambda([k], maskfn(k))
    n = V.iterm(length)
    c = COUNT(lam, n)
    I.axiom("count:0<=count<=len", z3.And(c >= 0, c <= n))
    # count > 0  <=>  some entry in range is selected (witness for =>, instance for <=)
    w = z3.Int(fresh("cw"))
    i = z3.Int(fresh("ci"))
    I.axiom("count:positive-iff-nonempty",
            z3.And(z3.Implies(c > 0, z3.And(w >= 0, w < n, maskfn(w))),
                   z3.ForAll([i], z3.Implies(z3.And(i >= 0, i < n, maskfn(i)), c > 0))))
    return SInt(c)


# ================================================================== builtins
def install_builtins(I):
    sx = _sx()
    B = sx.Builtin
    bi = {}

    def b_len(I, x):
        if isinstance(x, (list, tuple, str, set)):
            if isinstance(x, tuple) and len(x) == 3 and x[0] == "__dictview__":
                return b_len(I, x[1])
            return len(x)
        if isinstance(x, sx.Obj):
            m, _ = x.cls.find("__len__")
            if m is not None:
                return I.call(sx.BoundMethod(x, m), [], {})
            if x.map is not None:
                x = x.map
        if isinstance(x, sx.SDict):
            n = 0
            for k, e in x.d.items():
                if e[0] is True:
                    n += 1
                elif e[0] is not False:
                    if I.fork(e[0]):
                        n += 1
            return n
        if isinstance(x, (SArray, SCompressed)):
            return arr_size(I, x)
        raise Unsupported(f"len of {x!r}")
    bi["len"] = B("len", b_len)

    def b_range(I, *a):
        if all(isinstance(x, int) for x in a):
            return list(range(*a))
        hv = I.ghost.get("havoc_range")
        if hv is not None and len(a) == 1 and isinstance(a[0], SInt) and z3.eq(z3.simplify(a[0].term), hv[0]):
            # havoc iteration granted by the contract: the body of `for i in range(<this length>)` runs ONCE for an
            # arbitrary index (the contract is responsible for the body not depending on earlier iterations)
            I.trusted.add("loop verified for one arbitrary iteration (havoc): range over a symbolic length")
            return [SInt(hv[1])]
        raise Unsupported("range with symbolic bound (needs a loop invariant)")
    bi["range"] = B("range", b_range)
    def b_enumerate(I, x, start=0):
        if isinstance(x, sx.Obj) and "__symbolic_enumerate__" in x.attrs:
            # havoc iteration: ONE iteration for a symbolic index (loop body verified for every index)
            idx, item = x.attrs["__symbolic_enumerate__"]
            return [(I.binop("Add", idx, start) if start != 0 else idx, item)]
        if isinstance(x, SArray) and not isinstance(x.length, int) and I.ghost.get("symbolic_loop_index") is not None \
                and start == 0:
            # havoc iteration over an array of symbolic length, requested by the contract: the loop body runs ONCE
            # for an arbitrary index (the contract is responsible for the body not depending on earlier iterations)
            ii = I.ghost["symbolic_loop_index"]
            n = x.len_term()
            if not I.fork(n > 0):
                return []
            I.assume(z3.And(ii >= 0, ii < n))
            I.trusted.add("loop verified for one arbitrary iteration (havoc): enumerate over an array of symbolic length")
            return [(SInt(ii), x.at(ii))]
        return [(i + start, v) for i, v in enumerate(iterate(I, x))]
    bi["enumerate"] = B("enumerate", b_enumerate)

    _NO_DEFAULT = object()

    def b_next(I, it, default=_NO_DEFAULT):
        # next() of a generator expression / iterator that the engine evaluates eagerly: its first element.
        # Only for freshly built sequences (a generator expression argument); guarded elements are not supported.
        items = _plain(iterate(I, it)) if not isinstance(it, list) else _plain(it)
        if items:
            return items[0]
        if default is _NO_DEFAULT:
            I.raise_py("StopIteration", "")
        return default
    bi["next"] = B("next", b_next)
    bi["slice"] = B("slice", lambda I, *a: slice(*a))
    bi["zip"] = B("zip", lambda I, *xs: [tuple(t) for t in zip(*[iterate(I, x) for x in xs])])
    def b_list(I, x=()):
        it = iterate(I, x)
        if isinstance(it, tuple) and len(it) == 2 and it[0] == "__sseq__":
            return SSeq(it[1].term)
        # keys of a dict with symbolic presence stay guarded: a for-loop over the list runs
        # each of them under its presence condition
        return list(it)
    bi["list"] = B("list", b_list)
    bi["tuple"] = B("tuple", lambda I, x=(): tuple(_plain(iterate(I, x))))
    def b_set(I, x=()):
        items = [I.resolve(v) for v in _plain(iterate(I, x))]
        if any(isinstance(v, Sym) for v in items):
            raise Unsupported("set of symbolic values")
        return set(items)
    bi["set"] = B("set", b_set)

    def b_sorted(I, x, key=None, reverse=False):
        items = _plain(iterate(I, x))
        if key is not None:
            return sorted(items, key=lambda v: I.call(key, [v], {}), reverse=reverse)
        try:
            return sorted(items, reverse=reverse)
        except TypeError:
            raise Unsupported("sorted over symbolic values")
    bi["sorted"] = B("sorted", b_sorted)

    def b_dict(I, *args, **kwargs):
        d = sx.SDict()
        I.lib["dict.__init__"](I, d, *args, **kwargs)
        return d
    bi["dict"] = B("dict", b_dict)

    def b_isinstance(I, x, t):
        ts = t if isinstance(t, tuple) else (t,)
        return any(_isinst(I, x, c) for c in ts)
    bi["isinstance"] = B("isinstance", b_isinstance)

    def b_hasattr(I, x, name):
        if isinstance(x, sx.Obj):
            hook = I.lib.get(f"hasattr:{x.cls.name}")
            if hook is not None:
                return hook(I, x, name)
        try:
            I.getattr(x, name)
            return True
        except sx.PyRaise as pr:
            if pr.exc.cls.issub(sx.EXC["AttributeError"]):
                return False
            raise
    bi["hasattr"] = B("hasattr", b_hasattr)

    def b_getattr(I, x, name, *default):
        try:
            return I.getattr(x, name)
        except sx.PyRaise as pr:
            if default and pr.exc.cls.issub(sx.EXC["AttributeError"]):
                return default[0]
            raise
    bi["getattr"] = B("getattr", b_getattr)
    bi["setattr"] = B("setattr", lambda I, x, n, v: I.setattr(x, n, v))

    def b_str(I, x=""):
        if isinstance(x, str):
            return x
        if isinstance(x, bool) or isinstance(x, int):
            return str(x)
        if isinstance(x, SAtom):
            return x
        return Opaque("str-of-value")
    bi["str"] = B("str", b_str)

    def b_int(I, x=0):
        if isinstance(x, (int, bool)):
            return int(x)
        if isinstance(x, Fraction):
            return int(x)
        if isinstance(x, SInt):
            return x
        if isinstance(x, SBool):
            return SInt(V.iterm(x))
        if isinstance(x, SReal):
            if x.nan is not False:
                I.safety("int(nan)", z3.Not(A._zb(x.nan)), "ValueError")
            t = x.term
            # truncation toward zero
            return SInt(z3.If(t >= 0, z3.ToInt(t), -z3.ToInt(-t)))
        if isinstance(x, str):
            try:
                return int(x)
            except ValueError:
                I.raise_py("ValueError", "invalid literal for int()")
        if isinstance(x, SAtom):
            raise Unsupported("int() of symbolic string")
        if getattr(getattr(x, "cls", None), "name", None) == "Parameter" and "value" in getattr(x, "attrs", {}):
            return b_int(I, x.attrs["value"])      # lmfit.Parameter.__int__ is int(self.value)
        raise Unsupported(f"int({x!r})")
    bi["int"] = B("int", b_int)

    def b_float(I, x=0):
        if isinstance(x, (int, bool, Fraction)):
            return V.to_frac(x)
        if isinstance(x, (SReal,)):
            return x
        if isinstance(x, SInt):
            return SReal(z3.ToReal(x.term))
        if isinstance(x, SBool):
            return SReal(V.rterm(x))
        if isinstance(x, str):
            try:
                return V.to_frac(float(x))
            except ValueError:
                I.raise_py("ValueError", "could not convert string to float")
        raise Unsupported(f"float({x!r})")
    bi["float"] = B("float", b_float)

    def b_bool(I, x=False):
        return I.as_bool_val(x)
    bi["bool"] = B("bool", b_bool)
    bi["abs"] = B("abs", lambda I, x: A.scalar_abs(x))

    def b_minmax(which):
        def f(I, *xs, **kw):
            if len(xs) == 1:
                xs = iterate(I, xs[0])
            if not xs:
                I.raise_py("ValueError", f"{which}() arg is an empty sequence")
            acc = xs[0]
            for x in xs[1:]:
                c = A.scalar_compare("Lt" if which == "min" else "Gt", x, acc)
                if isinstance(c, bool):
                    acc = x if c else acc
                else:
                    acc = A.ite_val(c.term, x, acc)
            return acc
        return f
    bi["min"] = B("min", b_minmax("min"))
    bi["max"] = B("max", b_minmax("max"))

    def b_sum(I, xs, start=0):
        acc = start
        for x in iterate(I, xs):
            acc = I.binop("Add", acc, x)
        return acc
    bi["sum"] = B("sum", b_sum)
    bi["any"] = B("any", lambda I, xs: _any(I, iterate(I, xs)))
    bi["all"] = B("all", lambda I, xs: _all(I, iterate(I, xs)))
    bi["print"] = B("print", lambda I, *a, **k: None)
    bi["round"] = B("round", lambda I, x, ndigits=None: Opaque("rounded") if isinstance(x, Sym) else round(x, ndigits))
    bi["id"] = B("id", lambda I, x: Opaque("id"))
    bi["hex"] = B("hex", lambda I, x: Opaque("hex"))
    bi["repr"] = B("repr", lambda I, x: repr(x) if isinstance(x, (str, int)) else Opaque("repr"))
    bi["type"] = B("type", lambda I, x: x.cls if isinstance(x, sx.Obj) else Opaque("type"))
    bi["callable"] = B("callable", lambda I, x: isinstance(x, (sx.FuncVal, sx.BoundMethod, sx.Builtin, sx.ClassVal, sx.LibRef)))
    bi["locals"] = B("locals", lambda I: (_ for _ in ()).throw(Unsupported("locals()")))
    for n in ("staticmethod", "classmethod", "property"):
        bi[n] = B(n, None)
    bi["object"] = B("object", None)
    bi["dict"].cls = sx.DICT
    for n, c in sx.EXC.items():
        bi[n] = c
    bi["True"], bi["False"], bi["None"] = True, False, None
    I.builtins = bi


def _plain(items):
    out = []
    for it in items:
        if isinstance(it, tuple) and len(it) == 3 and it[0] == "__guarded__":
            raise Unsupported("materialising keys of a symbolic-presence dict")
        out.append(it)
    return out


def _guarded_bool(I, x, neutral):
    """truth value of an element that exists only under a presence condition: neutral when absent"""
    if isinstance(x, tuple) and len(x) == 3 and x[0] == "__guarded__":
        g = x[1] if not isinstance(x[1], bool) else z3.BoolVal(x[1])
        v = I.as_bool_val(x[2])
        vt = V.bterm(v) if not isinstance(v, bool) else z3.BoolVal(v)
        return SBool(z3.And(g, vt)) if neutral is False else SBool(z3.Implies(g, vt))
    return I.as_bool_val(x)


def _any(I, xs):
    acc = False
    for x in xs:
        acc = I.or_val(acc, _guarded_bool(I, x, False))
        if acc is True:
            return True
    return acc


def _all(I, xs):
    acc = True
    for x in xs:
        acc = I.and_val(acc, _guarded_bool(I, x, True))
        if acc is False:
            return False
    return acc


def _isinst(I, x, c):
    sx = _sx()
    if isinstance(c, sx.ClassVal):
        if isinstance(x, sx.Obj):
            return x.cls.issub(c)
        if c is sx.DICT:
            return isinstance(x, sx.SDict)
        return False
    if isinstance(c, sx.Builtin):
        n = c.name
        if n == "str":
            return isinstance(x, (str, SAtom))
        if n == "bool":
            return isinstance(x, (bool, SBool))
        if n == "int":
            return isinstance(x, (bool, int, SInt, SBool)) and not isinstance(x, Fraction)
        if n == "float":
            return isinstance(x, (Fraction, SReal, float))
        if n == "list":
            return isinstance(x, list)
        if n == "tuple":
            return isinstance(x, tuple)
        if n == "dict":
            return isinstance(x, sx.SDict) or (isinstance(x, sx.Obj) and x.map is not None)
        if n == "set":
            return isinstance(x, set)
        if n == "object":
            return True
    if isinstance(c, sx.LibRef):
        n = c.name
        if n == "numbers.Integral":
            return isinstance(x, (bool, int, SInt, SBool)) and not isinstance(x, Fraction)
        if n in ("numpy.ndarray",):
            return isinstance(x, (SArray, SCompressed))
        if n in ("numpy.bool_",):
            return isinstance(x, SBool)
        if n in ("pathlib.Path",):
            return isinstance(x, Opaque) and x.name == "path"
        hook = I.lib.get("isinstance:" + n)
        if hook is not None:
            return hook(I, x)
        if n in ("os.PathLike", "pathlib.PurePath", "pathlib.PosixPath"):
            # plain python values (strings, numbers, None, containers) are not path objects
            if x is None or isinstance(x, (str, int, bool, Fraction, float, tuple, list, sx.SDict, SAtom, SReal, SInt,
                                           SBool)):
                return False
            return isinstance(x, Opaque) and x.name == "path"
    raise Unsupported(f"isinstance against {c!r}")


# ================================================================== list / str methods
def install_seq(I):
    L = I.lib
    sx = _sx()

    def l_append(I, self, v):
        I._list_mutate(self)
        self.append(v)
    L["list.append"] = l_append

    def l_extend(I, self, vs):
        I._list_mutate(self)
        self.extend(iterate(I, vs))
    L["list.extend"] = l_extend

    def l_index(I, self, v, *a):
        for i, x in enumerate(self):
            if I.truth(I.equals(x, v)):
                return i
        I.raise_py("ValueError", "x not in list")
    L["list.index"] = l_index

    def l_remove(I, self, v):
        for i, x in enumerate(self):
            if I.truth(I.equals(x, v)):
                I._list_mutate(self)
                del self[i]
                return
        I.raise_py("ValueError", "list.remove(x): x not in list")
    L["list.remove"] = l_remove

    def l_insert(I, self, idx, v):
        if not isinstance(idx, int):
            raise Unsupported("insert at symbolic index")
        I._list_mutate(self)
        self.insert(idx, v)
    L["list.insert"] = l_insert

    def l_pop(I, self, idx=-1):
        i = concrete_index(I, idx, len(self))
        I._list_mutate(self)
        return self.pop(i)
    L["list.pop"] = l_pop
    L["list.copy"] = lambda I, self: list(self)

    def l_count(I, self, v):
        return sum(1 for x in self if I.truth(I.equals(x, v)))
    L["list.count"] = l_count

    def l_sort(I, self):
        I._list_mutate(self)
        self.sort()
    L["list.sort"] = l_sort

    def s_format(I, self, *a, **k):
        if isinstance(self, str) and all(isinstance(x, (str, int)) and not isinstance(x, Sym) for x in a) and not k:
            try:
                return self.format(*a)
            except Exception:
                pass
        return Opaque("formatted-string")
    L["str.format"] = s_format

    def s_join(I, self, parts):
        ps = iterate(I, parts)
        if isinstance(self, str) and all(isinstance(p, str) for p in ps):
            return self.join(ps)
        return Opaque("joined-string")
    L["str.join"] = s_join

    def s_lower(I, self):
        if isinstance(self, str):
            return self.lower()
        return ("__lower__", self)
    L["str.lower"] = s_lower
    L["str.strip"] = lambda I, self, *a: self.strip(*a) if isinstance(self, str) else _unsup("strip of symbolic string")
    L["str.split"] = lambda I, self, *a: self.split(*a) if isinstance(self, str) else _unsup("split of symbolic string")

    def s_startswith(I, self, p):
        if isinstance(self, str):
            return self.startswith(p)
        raise Unsupported("startswith on symbolic string")
    L["str.startswith"] = s_startswith
    L["str.endswith"] = lambda I, self, p: self.endswith(p) if isinstance(self, str) else _unsup("endswith")
    L["str.encode"] = lambda I, self, *a: ("__bytes__", self)


def _unsup(msg):
    raise Unsupported(msg)


# ================================================================== numpy
RED_MIN = "min"


def _reduce_minmax(I, arr, which):
    """m = min/max of a (possibly compressed) array: fresh constant with its
    defining axioms (bounded by every element, attained at a witness index)."""
    if isinstance(arr, (list, tuple)):
        return I.builtins[which].fn(I, list(arr))
    n, fn, maskfn = _arr_parts(arr)
    m = z3.Real(fresh(which))
    j = z3.Int(fresh(which + "_at"))
    inrange = lambda i: z3.And(i >= 0, i < n, maskfn(i)) if maskfn else z3.And(i >= 0, i < n)
    nonempty = _nonempty(I, arr)
    I.safety("reduce-empty", nonempty, "ValueError")
    i = z3.Int(fresh("i"))
    vi = fn(i)
    cmp_ = (V.rterm(vi) >= m) if which == "min" else (V.rterm(vi) <= m)
    # NaN elements are outside the modelled domain of min/max
    I.axiom(f"def:{which}", z3.ForAll([i], z3.Implies(inrange(i), cmp_)))
    I.axiom(f"def:{which}", z3.And(inrange(j), V.rterm(fn(j)) == m))
    res = SReal(m)
    res.witness = j
    I.ghost.setdefault("reductions", []).append((which, m, j))
    return res


def _arr_parts(arr):
    if isinstance(arr, SArray):
        return arr.len_term(), arr.snap(), None
    if isinstance(arr, SCompressed):
        return V.iterm(arr.length), arr.fn, arr.maskfn
    raise Unsupported(f"not an array: {arr!r}")


def _nonempty(I, arr):
    if isinstance(arr, SArray):
        return arr.len_term() > 0
    # compressed array: non-empty iff the mask holds somewhere (same count term as .size / .shape)
    return V.iterm(count_mask(I, arr.maskfn, arr.length)) > 0


SUM = z3.Function("sum", z3.ArraySort(z3.IntSort(), z3.RealSort()), z3.IntSort(), z3.RealSort())


def _reduce_sum(I, arr):
    if isinstance(arr, (list, tuple)):
        return I.builtins["sum"].fn(I, list(arr))
    if isinstance(arr, SArray) and isinstance(arr.length, int):
        acc = 0
        for i in range(arr.length):
            acc = I.binop("Add", acc, arr.at(z3.IntVal(i)))
        return acc
    n, fn, maskfn = _arr_parts(arr)
    k = z3.Int(fresh("si"))
    if maskfn is not None:
        body = z3.If(maskfn(k), V.rterm(fn(k)), z3.RealVal(0))
    else:
        body = V.rterm(fn(k))
    if arr.kind == "bool" and isinstance(arr, SArray):
        return count_mask(I, lambda i: V.bterm(fn(i)), arr.length)
    if arr.kind == "bool" and isinstance(arr, SCompressed):
        # number of selected entries that are true
        return count_mask(I, lambda i: z3.And(maskfn(i), V.bterm(fn(i))), arr.length)
    tot = SUM(z3.Lambda([k], body), n)
    if getattr(I, "sum_sign_axioms", False):
        # a sum of non-negative (non-positive) terms is non-negative (non-positive); an empty sum is 0
        j = z3.Int(fresh("sj"))
        inr = z3.And(j >= 0, j < n)
        term = z3.substitute(body, (k, j))
        I.axiom("sum:sign", z3.And(
            z3.Implies(z3.ForAll([j], z3.Implies(inr, term >= 0)), tot >= 0),
            z3.Implies(z3.ForAll([j], z3.Implies(inr, term <= 0)), tot <= 0)))
    return SReal(tot)


def install_numpy(I):
    L = I.lib
    sx = _sx()

    def ew1(f):
        def g(I, x, *a, **k):
            if A.is_arraylike(x):
                return A.elementwise(I, lambda v: f(I, v), x)
            if isinstance(x, (list, tuple)):
                raise Unsupported("numpy ufunc on python sequence")
            return f(I, x)
        return g
    L["numpy.sqrt"] = ew1(lambda I, v: A.scalar_sqrt(I, v))
    L["numpy.abs"] = ew1(lambda I, v: A.scalar_abs(v))
    L["numpy.absolute"] = L["numpy.abs"]
    L["numpy.tan"] = ew1(lambda I, v: A.scalar_tan(I, v))
    L["numpy.log"] = ew1(lambda I, v: A.scalar_log(I, v))

    def isnan(I, v):
        if V.is_concrete_num(v):
            return False
        if isinstance(v, SReal):
            return v.nan if isinstance(v.nan, bool) else SBool(v.nan)
        if isinstance(v, (SInt, SBool)):
            return False
        if v is None:
            I.raise_py("TypeError", "isnan(None)")
        raise Unsupported(f"isnan({v!r})")
    L["numpy.isnan"] = ew1(isnan)

    def zeros_like(I, a, dtype=None):
        if isinstance(a, SArray):
            kind = a.kind if dtype is None else "int"
            zero = {"real": Fraction(0), "bool": False, "int": 0}[kind]
            return SArray(a.length, lambda i: zero, kind)
        raise Unsupported("zeros_like of non-array")
    L["numpy.zeros_like"] = zeros_like

    def full_like(I, a, val, dtype=None):
        if isinstance(a, SArray):
            return SArray(a.length, lambda i: val, "real" if isinstance(val, (SReal, Fraction)) else a.kind)
        raise Unsupported("full_like of non-array")
    L["numpy.full_like"] = full_like

    def np_copy(I, a, *args, **k):
        if isinstance(a, SArray):
            return SArray(a.length, a.snap(), a.kind)
        if isinstance(a, SCompressed):
            return SCompressed(a.fn, a.maskfn, a.length, a.kind)
        if isinstance(a, (list, tuple)):
            return np_array(I, a)
        raise Unsupported("copy of non-array")
    L["numpy.copy"] = np_copy
    L["ndarray.copy"] = lambda I, self: np_copy(I, self)

    def np_array(I, a, copy=True, dtype=None, **k):
        if isinstance(a, SArray):
            if copy is False:
                return a
            return SArray(a.length, a.snap(), a.kind)
        if isinstance(a, (list, tuple)):
            items = list(a)
            if not all(V.is_num(x) for x in items):
                raise Unsupported("np.array of non-numeric list")
            def fn(i, items=items):
                acc = items[-1] if items else Fraction(0)
                for k in range(len(items) - 2, -1, -1):
                    acc = A.ite_val(i == k, items[k], acc)
                return acc
            kind = "real"
            if items and all(A.kind_of(x) == "bool" for x in items):
                kind = "bool"
            elif items and all(A.kind_of(x) in ("int", "bool") for x in items):
                kind = "int"
            return SArray(len(items), fn, kind)
        raise Unsupported(f"np.array({a!r})")
    L["numpy.array"] = np_array
    L["numpy.asarray"] = lambda I, a, **k: np_array(I, a, copy=False)

    def np_min(which):
        def f(I, a, *args, **k):
            if isinstance(a, (list, tuple)):
                return I.builtins[which].fn(I, list(a))
            return _reduce_minmax(I, a, which)
        return f
    L["numpy.min"] = np_min("min")
    L["numpy.max"] = np_min("max")
    def np_ptp(I, a, **k):
        hi, lo = _reduce_minmax(I, a, "max"), _reduce_minmax(I, a, "min")
        return SReal(hi.term - lo.term)
    L["numpy.ptp"] = np_ptp
    L["ndarray.min"] = lambda I, self: _reduce_minmax(I, self, "min")
    L["ndarray.max"] = lambda I, self: _reduce_minmax(I, self, "max")
    L["numpy.sum"] = lambda I, a, **k: _reduce_sum(I, a)
    L["ndarray.sum"] = lambda I, self: _reduce_sum(I, self)

    def np_any(I, a):
        if isinstance(a, SArray) and isinstance(a.length, int):
            return _any(I, [a.at(z3.IntVal(i)) for i in range(a.length)])
        if isinstance(a, SArray):
            k = z3.Int(fresh("any"))
            n = a.len_term()
            s = a.snap()
            return SBool(z3.Exists([k], z3.And(k >= 0, k < n, V.bterm(s(k)))))
        if isinstance(a, (list, tuple)):
            return _any(I, a)
        return I.as_bool_val(a)
    L["numpy.any"] = np_any

    def np_all(I, a):
        if isinstance(a, SArray) and isinstance(a.length, int):
            return _all(I, [a.at(z3.IntVal(i)) for i in range(a.length)])
        if isinstance(a, SArray):
            k = z3.Int(fresh("all"))
            n = a.len_term()
            s = a.snap()
            return SBool(z3.ForAll([k], z3.Implies(z3.And(k >= 0, k < n), V.bterm(s(k)))))
        if isinstance(a, (list, tuple)):
            return _all(I, a)
        return I.as_bool_val(a)
    L["numpy.all"] = np_all

    def setflags(I, self, write=None, **k):
        if write is not None:
            self.root().writable = bool(write)
            I.ghost.setdefault("setflags", []).append((self, write))
    L["ndarray.setflags"] = setflags

    def np_isinf(I, v):
        if V.is_num(v):
            return False     # A1: infinities are outside the modelled reals
        raise Unsupported("isinf")
    L["numpy.isinf"] = ew1(np_isinf)

    def isclose(I, a, b, rtol=None, atol=None, **k):
        rt = V.rterm(rtol) if rtol is not None else z3.RealVal("1e-5")
        at = V.rterm(atol) if atol is not None else z3.RealVal("1e-8")

        def f(x, y):
            d = V.rterm(x) - V.rterm(y)
            ay = z3.If(V.rterm(y) >= 0, V.rterm(y), -V.rterm(y))
            return SBool(z3.If(d >= 0, d, -d) <= at + rt * ay)
        if A.is_arraylike(a) or A.is_arraylike(b):
            return A.elementwise(I, f, a, b, kind="bool")
        return f(a, b)
    L["numpy.isclose"] = isclose

    def logical2(op):
        def f(I, a, b, **k):
            if k:
                raise Unsupported("logical ufunc with keywords")
            g = (lambda x, y: SBool(z3.Or(V.bterm(I.as_bool_val(x)) if not isinstance(I.as_bool_val(x), bool) else z3.BoolVal(I.as_bool_val(x)),
                                          V.bterm(I.as_bool_val(y)) if not isinstance(I.as_bool_val(y), bool) else z3.BoolVal(I.as_bool_val(y))))) \
                if op == "or" else None
            if A.is_arraylike(a) or A.is_arraylike(b):
                return A.elementwise(I, g, a, b, kind="bool")
            return g(a, b)
        return f
    L["numpy.logical_or"] = logical2("or")

    def logical_not(I, a, **k):
        g = lambda x: SBool(z3.Not(V.bterm(I.as_bool_val(x)) if not isinstance(I.as_bool_val(x), bool) else z3.BoolVal(I.as_bool_val(x))))
        if A.is_arraylike(a):
            return A.elementwise(I, g, a, kind="bool")
        return g(a)
    L["numpy.logical_not"] = logical_not

    def putmask(I, a, mask, values):
        # np.putmask(a, mask, v): a[mask] = v for a scalar v
        if not isinstance(a, SArray) or A.is_arraylike(values):
            raise Unsupported("putmask of this kind")
        arr_setitem(I, a, mask, values)
    L["numpy.putmask"] = putmask

    def nd_fill(I, self, value):
        if not isinstance(self, SArray) or A.is_arraylike(value):
            raise Unsupported("fill of this kind")
        self.write(I, lambda i: value)
    L["ndarray.fill"] = nd_fill

    def nd_astype(I, self, dtype=None, **k):
        # bool -> integer types: 0/1 ; anything else: a copy with the same values (A1)
        if isinstance(self, SArray):
            sn = self.snap()
            if self.kind == "bool":
                return SArray(self.length, lambda i: SInt(z3.If(V.bterm(sn(i)), 1, 0)), "int")
            return SArray(self.length, sn, self.kind)
        raise Unsupported("astype of this value")
    L["ndarray.astype"] = nd_astype

    def attrgetter(I, *names):
        if not names or not all(isinstance(n_, str) and "." not in n_ for n_ in names):
            raise Unsupported("attrgetter of this form")

        def get(I, obj):
            vals = tuple(I.getattr(obj, n_) for n_ in names)
            return vals[0] if len(vals) == 1 else vals
        return sx.Builtin("attrgetter" + repr(names), get)
    L["operator.attrgetter"] = attrgetter

    def chain_from_iterable(I, its):
        out = []
        for it in _plain(iterate(I, its)):
            out.extend(_plain(iterate(I, it)))
        return out
    def lru_cache(I, maxsize=128, typed=False):
        B = sx.Builtin
        """functools.lru_cache / functools.cache: a REAL memo (results are remembered per argument values), so that a
        contract can see what a cached function returns on a later call"""
        def key_of(v):
            if v is None or isinstance(v, (str, int, bool, Fraction)):
                return ("c", v)
            if isinstance(v, tuple):
                return ("t",) + tuple(key_of(x) for x in v)
            if isinstance(v, (SAtom, SInt, SReal, SBool)):
                return ("s", str(v.term))
            raise Unsupported("unhashable / unmodelled argument of a memoised function")

        def decorate(I, fn):
            memo = {}

            def cached(I, *a, **k):
                key = (tuple(key_of(x) for x in a), tuple(sorted((n_, key_of(x)) for n_, x in k.items())))
                if key not in memo:
                    memo[key] = I.call(fn, list(a), dict(k))
                return memo[key]
            b = B("lru_cache(" + getattr(fn, "qualname", "f") + ")", cached)
            b.memo = memo
            return b
        if callable(maxsize) or isinstance(maxsize, (sx.FuncVal, sx.Builtin)):     # used as @lru_cache without ()
            return decorate(I, maxsize)
        return B("lru_cache.decorator", decorate)
    L["functools.lru_cache"] = lru_cache
    L["functools.cache"] = lambda I, fn: lru_cache(I, fn)
    L["itertools.chain.from_iterable"] = chain_from_iterable
    L["itertools.chain"] = lambda I, *its: chain_from_iterable(I, list(its))
    import operator as _op
    for _nm, _astop in (("add", "Add"), ("sub", "Sub"), ("mul", "Mult"), ("truediv", "Div"), ("pow", "Pow")):
        L["operator." + _nm] = (lambda I, a, b, _o=_astop: I.binop(_o, a, b))

    def finfo(I, t=None):
        # machine parameters of IEEE double precision (exact rationals)
        o = sx.Obj(sx.ClassVal("finfo", [sx.OBJECT], {}))
        o.attrs.update(eps=Fraction(1, 2 ** 52), tiny=Fraction(1, 2 ** 1022), resolution=Fraction(1, 10 ** 15),
                       max=Fraction(2 ** 1024 - 2 ** 971), min=-Fraction(2 ** 1024 - 2 ** 971))
        return o
    L["numpy.finfo"] = finfo

    def np_minmax2(which):
        def f(I, a, b, out=None, **k):
            def sc(x, y):
                c = A.scalar_compare("Lt" if which == "min" else "Gt", x, y)
                return A.ite_val(V.bterm(c) if not isinstance(c, bool) else z3.BoolVal(c), x, y)
            r = A.elementwise(I, sc, a, b) if (A.is_arraylike(a) or A.is_arraylike(b)) else sc(a, b)
            if out is not None:
                if not (isinstance(out, SArray) and isinstance(r, SArray)):
                    raise Unsupported("out= of this kind")
                out.write(I, r.snap())
                return out
            return r
        return f
    L["numpy.minimum"] = np_minmax2("min")

    def flatnonzero(I, a):
        # indices of the true entries: a selection of the index sequence
        if isinstance(a, SArray) and a.kind == "bool":
            sn = a.snap()
            return SCompressed(lambda i: SInt(i), lambda i: V.bterm(sn(i)), a.length, "int")
        if isinstance(a, (list, tuple)) and all(isinstance(x, (bool, SBool)) for x in a):
            # concrete length: the index i is in the result iff a[i] (the loop over it is case-split per entry)
            return [("__forked__", x if isinstance(x, bool) else x.term, i) for i, x in enumerate(a)]
        raise Unsupported("flatnonzero of this value")
    L["numpy.flatnonzero"] = flatnonzero

    def np_where3(I, cond, a=None, b=None):
        if a is None or b is None:
            raise Unsupported("np.where with one argument")
        def sc(c, x, y):
            return A.ite_val(V.bterm(c) if not isinstance(c, bool) else z3.BoolVal(c), x, y)
        return A.elementwise(I, sc, cond, a, b)
    L["numpy.where"] = np_where3

    def allclose(I, a, b, rtol=None, atol=None, equal_nan=False, **k):
        """scalars and equally long lists/tuples of numbers; anything non-numeric raises TypeError and lists of
        different lengths ValueError (numpy: ufunc not supported for the input types / cannot broadcast)"""
        def flat(v):
            if isinstance(v, (list, tuple)):
                out = []
                for x in v:
                    out.extend(flat(x))
                return out
            return [v]
        if A.is_arraylike(a) or A.is_arraylike(b):
            raise Unsupported("allclose of arrays")
        fa, fb = flat(a), flat(b)
        if not all(V.is_num(x) for x in fa + fb):
            I.raise_py("TypeError", "ufunc 'isfinite' not supported for the input types")
        if len(fa) != len(fb) and 1 not in (len(fa), len(fb)):
            I.raise_py("ValueError", "operands could not be broadcast together")
        if len(fa) != len(fb):
            fa, fb = (fa * len(fb), fb) if len(fa) == 1 else (fa, fb * len(fa))
        terms = []
        for x, y in zip(fa, fb):
            c = V.bterm(isclose(I, x, y, rtol=rtol, atol=atol))
            nx, ny = A._zb(V.nanflag(x)), A._zb(V.nanflag(y))
            if equal_nan:
                c = z3.If(z3.Or(nx, ny), z3.And(nx, ny), c)
            else:
                c = z3.And(z3.Not(nx), z3.Not(ny), c)
            terms.append(c)
        return SBool(z3.simplify(z3.And(*terms)) if terms else z3.BoolVal(True))
    L["numpy.allclose"] = allclose

    def array_equal(I, a, b, **k):
        if isinstance(a, SArray) and isinstance(b, SArray):
            if a is b:
                return True
            i = z3.Int(fresh("ae"))
            n = a.len_term()
            sa, sb = a.snap(), b.snap()
            return SBool(z3.And(n == b.len_term(),
                                z3.ForAll([i], z3.Implies(z3.And(i >= 0, i < n),
                                                          V.rterm(sa(i)) == V.rterm(sb(i))))))
        raise Unsupported("array_equal of non-arrays")
    L["numpy.array_equal"] = array_equal

    def atleast_2d(I, a):
        # rows of a 2-D array: a list of 1-D arrays (a single 1-D array becomes one row)
        if isinstance(a, SArray):
            return [a]
        if isinstance(a, (list, tuple)):
            if all(isinstance(x, SArray) for x in a):
                return list(a)
            if all(V.is_num(x) for x in a):
                return [L["numpy.array"](I, list(a))]
        raise Unsupported("atleast_2d of this value")
    L["numpy.atleast_2d"] = atleast_2d
    L["ndarray.flatten"] = lambda I, self: SArray(self.length, self.snap(), self.kind)

    def np_maximum(I, a, b):
        f = lambda x, y: A.ite_val(V.bterm(A.scalar_compare("GtE", x, y)) if not isinstance(A.scalar_compare("GtE", x, y), bool) else z3.BoolVal(A.scalar_compare("GtE", x, y)), x, y)
        if A.is_arraylike(a) or A.is_arraylike(b):
            return A.elementwise(I, f, a, b)
        return f(a, b)
    L["numpy.maximum"] = np_maximum


# ================================================================== misc stdlib
def install_misc(I):
    L = I.lib
    sx = _sx()

    def copy_copy(I, x):
        if isinstance(x, list):
            return list(x)
        if isinstance(x, tuple):
            return x
        if isinstance(x, sx.SDict):
            return L["dict.copy"](I, x)
        if isinstance(x, SArray):
            return SArray(x.length, x.snap(), x.kind)
        if isinstance(x, (str, int, bool, Fraction, type(None), Sym)):
            return x
        if isinstance(x, sx.Obj):
            hook = I.lib.get(f"copy:{x.cls.name}")
            if hook:
                return hook(I, x, False)
        raise Unsupported(f"copy.copy({x!r})")
    L["copy.copy"] = copy_copy

    def deep(I, x):
        r = deep0(I, x)
        if r is not x and isinstance(r, (list, sx.SDict, sx.Obj)):
            # provenance of copies (ghost): lets contracts relate a stored copy to the value it came from
            I.copy_origin[id(r)] = x
            I.keepalive.append(r)
        return r

    def deep0(I, x):
        if isinstance(x, list):
            return [deep(I, v) for v in x]
        if isinstance(x, tuple):
            return tuple(deep(I, v) for v in x)
        if isinstance(x, sx.SDict):
            n = sx.SDict()
            for k, e in x.d.items():
                n.d[k] = [e[0], deep(I, e[1])]
            return n
        if isinstance(x, SArray):
            return SArray(x.length, x.snap(), x.kind)
        if isinstance(x, (str, int, bool, Fraction, type(None), SBool, SInt, SReal, SAtom, Opaque)):
            return x
        if isinstance(x, sx.Obj):
            hook = I.lib.get(f"copy:{x.cls.name}")
            if hook:
                return hook(I, x, True)
        raise Unsupported(f"copy.deepcopy({x!r})")
    L["copy.deepcopy"] = deep

    def warn(I, msg, category=None, *a, **k):
        I.ghost["warnings"].append(category.name if isinstance(category, sx.ClassVal) else str(category))
    L["warnings.warn"] = warn
    L["collections.OrderedDict"] = lambda I, *a, **k: I.builtins["dict"].fn(I, *a, **k)
    # (functools.lru_cache: real memo model, defined above)

    def sig_params(I, fn):
        if isinstance(fn, sx.FuncVal):
            a = fn.node.args
            names = [p.arg for p in a.posonlyargs + a.args + a.kwonlyargs]
            d = sx.SDict([(n, True) for n in names])
            o = sx.Obj(sx.ClassVal("Signature", [sx.OBJECT], {}), {"parameters": d})
            return o
        hook = I.lib.get("signature-of")
        if hook:
            return hook(I, fn)
        raise Unsupported("inspect.signature of non-interpreted function")
    L["inspect.signature"] = sig_params


def install_numpy_scalars(I):
    """numpy scalar objects are Obj instances of a class named numpy.<type> with a 'value' attribute"""
    sx = _sx()
    isnp = lambda x, pre: isinstance(x, sx.Obj) and x.cls.name.startswith(pre)
    I.lib["isinstance:numpy.integer"] = lambda I, x: isnp(x, "numpy.int")
    I.lib["isinstance:numpy.floating"] = lambda I, x: isnp(x, "numpy.float")
    I.lib["isinstance:numpy.number"] = lambda I, x: isnp(x, "numpy.")
    I.lib["isinstance:numbers.Number"] = lambda I, x: V.is_num(x) or isnp(x, "numpy.")
    I.lib["isinstance:numbers.Real"] = I.lib["isinstance:numbers.Number"]
    old_float = I.builtins["float"].fn

    def b_float(I, x=0):
        if isnp(x, "numpy."):
            return old_float(I, x.attrs["value"])
        return old_float(I, x)
    I.builtins["float"] = sx.Builtin("float", b_float)


def install(I):
    install_builtins(I)
    install_dict(I)
    install_seq(I)
    install_numpy(I)
    install_misc(I)
    from . import lmfit_model
    lmfit_model.install(I)
    install_sseq(I)
    install_sysmods(I)
    install_bytes(I)
    install_numpy_scalars(I)
    install_numpy2(I)
    install_numpy3(I)
    from . import arrays2d
    arrays2d.install(I)


# ================================================================== symbolic-length lists (z3 sequences)
class SSeq(Sym):
    """python list of atoms with symbolic length, backed by a z3 Seq(Int) term.
    Only the operations sys.path handling needs."""

    def __init__(self, term):
        self.term = term

    def __repr__(self):
        return f"SSeq({self.term})"


def _atom_code(I, v):
    v = I.resolve(v)
    if isinstance(v, str):
        return z3.IntVal(V.str_code(v))
    if isinstance(v, SAtom):
        return v.term
    raise Unsupported(f"sequence element {v!r}")


def install_sseq(I):
    L = I.lib
    sx = _sx()

    def seq_insert(I, self, idx, v):
        n = z3.Length(self.term)
        u = z3.Unit(_atom_code(I, v))
        if idx == -1:
            # list.insert(-1, x): before the last element; at position 0 for an empty list
            new = z3.If(n == 0, u, z3.Concat(z3.SubSeq(self.term, 0, n - 1), u, z3.SubSeq(self.term, n - 1, 1)))
        elif idx == 0:
            new = z3.Concat(u, self.term)
        else:
            raise Unsupported("SSeq.insert at this index")
        self.term = new
        I.mutations.append(self)
    L["sseq.insert"] = seq_insert

    def seq_append(I, self, v):
        self.term = z3.Concat(self.term, z3.Unit(_atom_code(I, v)))
        I.mutations.append(self)
    L["sseq.append"] = seq_append

    def seq_remove(I, self, v):
        u = z3.Unit(_atom_code(I, v))
        if not I.fork(z3.Contains(self.term, u)):
            I.raise_py("ValueError", "list.remove(x): x not in list")
        i = z3.IndexOf(self.term, u, 0)
        n = z3.Length(self.term)
        self.term = z3.Concat(z3.SubSeq(self.term, 0, i), z3.SubSeq(self.term, i + 1, n - i - 1))
        I.mutations.append(self)
    L["sseq.remove"] = seq_remove

    def seq_pop(I, self, idx=-1):
        n = z3.Length(self.term)
        if not I.fork(n > 0):
            I.raise_py("IndexError", "pop from empty list")
        if idx == -1:
            val = SAtom(self.term[n - 1])
            self.term = z3.SubSeq(self.term, 0, n - 1)
        elif idx == 0:
            val = SAtom(self.term[0])
            self.term = z3.SubSeq(self.term, 1, n - 1)
        else:
            raise Unsupported("SSeq.pop at this index")
        I.mutations.append(self)
        return val
    L["sseq.pop"] = seq_pop
    L["sseq.copy"] = lambda I, self: SSeq(self.term)
    L["sseq.index"] = lambda I, self, v: (_ for _ in ()).throw(Unsupported("SSeq.index"))


def sseq_method(I, obj, name):
    sx = _sx()
    impl = I.lib.get("sseq." + name)
    if impl is not None:
        return sx.BoundMethod(obj, sx.Builtin("sseq." + name, impl))
    return None


# ================================================================== sys / pathlib / importlib
def install_sysmods(I):
    L = I.lib
    sx = _sx()
    I.sys_state = {"path": None, "dont_write_bytecode": False}
    CONSTANTS["sys.path"] = lambda I: I.sys_state["path"]
    CONSTANTS["sys.dont_write_bytecode"] = lambda I: I.sys_state["dont_write_bytecode"]

    def set_dwb(I, v):
        I.sys_state["dont_write_bytecode"] = v
        I.ghost.setdefault("sys_writes", []).append(("dont_write_bytecode", v))
    L["setattr:sys.dont_write_bytecode"] = set_dwb

    def set_path(I, v):
        I.sys_state["path"] = v
    L["setattr:sys.path"] = set_path

    PATH = sx.ClassVal("Path", [sx.OBJECT], {})

    def mk_path(I, p):
        if isinstance(p, sx.Obj) and p.cls is PATH:
            return p
        o = sx.Obj(PATH)
        o.attrs["raw"] = p
        o.attrs["parent"] = sx.Obj(PATH, {"raw": ("parent", p), "str": I.path_parent_atom(p)})
        o.attrs["stem"] = I.path_stem_atom(p)
        o.attrs["str"] = p
        return o
    L["pathlib.Path"] = mk_path
    I.path_parent_atom = lambda p: SAtom(z3.Int("dir_of_path"), "parent")
    I.path_stem_atom = lambda p: SAtom(z3.Int("stem_of_path"), "stem")

    old_str = I.builtins["str"].fn

    def b_str(I, x=""):
        if isinstance(x, sx.Obj) and x.cls is PATH:
            return x.attrs["str"]
        return old_str(I, x)
    I.builtins["str"] = sx.Builtin("str", b_str)


# ================================================================== bytes as chunk lists (obj2bytes / md5)
class SBytes(Sym):
    """bytes value as a list of chunks:
       ("utf8", str|SAtom)  ("num", numeric value: text of str(float(v)))  ("raw", SArray)  ("lit", bytes)"""

    def __init__(self, chunks):
        self.chunks = list(chunks)

    def __repr__(self):
        return f"SBytes({self.chunks})"


class SNumStr(Sym):
    """str(float(v)) of a numeric value"""

    def __init__(self, value, kind="num"):
        self.value = value
        self.kind = kind      # "num": text of a float; "inttxt"/"booltxt": str() of an int / bool


def install_bytes(I):
    L = I.lib
    sx = _sx()

    def encode(I, self, *a):
        if isinstance(self, SNumStr):
            return SBytes([(self.kind, self.value)])
        return SBytes([("utf8", I.resolve(self))])
    L["str.encode"] = encode

    def b_join(I, self, parts):
        out = []
        items = iterate(I, parts)
        for i, p in enumerate(items):
            if not isinstance(p, SBytes):
                raise Unsupported("bytes.join of non-bytes")
            if i and self.chunks:
                out += self.chunks
            out += p.chunks
        return SBytes(out)
    L["bytes.join"] = b_join
    L["ndarray.tobytes"] = lambda I, self: SBytes([("raw", SArray(self.length, self.snap(), self.kind))])

    MD5 = sx.ClassVal("md5", [sx.OBJECT], {})
    MD5.ns["hexdigest"] = sx.Builtin("hexdigest", lambda I, self: ("__md5__", self.attrs["data"]))

    def md5_update(I, self, data):
        # md5 of a concatenation = successive updates
        if not isinstance(data, SBytes):
            raise Unsupported("md5.update of non-bytes")
        self.attrs["data"] = SBytes(self.attrs["data"].chunks + data.chunks)
    MD5.ns["update"] = sx.Builtin("update", md5_update)

    def md5(I, data=None):
        if data is None:
            data = SBytes([])
        if not isinstance(data, SBytes):
            raise Unsupported("md5 of non-bytes")
        return sx.Obj(MD5, {"data": SBytes(data.chunks)})
    L["hashlib.md5"] = md5

    old_str = I.builtins["str"].fn

    def b_str(I, x=""):
        if isinstance(x, (Fraction, SReal)) or (isinstance(x, float)):
            return SNumStr(x)
        if isinstance(x, SBool):
            return SNumStr(x, "booltxt")
        if isinstance(x, SInt):
            return SNumStr(x, "inttxt")
        return old_str(I, x)
    I.builtins["str"] = sx.Builtin("str", b_str)


# ================================================================== more numpy reductions (uninterpreted + definitional axioms)
AVG = z3.Function("avg", z3.ArraySort(z3.IntSort(), z3.RealSort()), z3.IntSort(), z3.RealSort())
STD = z3.Function("std", z3.ArraySort(z3.IntSort(), z3.RealSort()), z3.IntSort(), z3.RealSort())


def _lam_of(arr):
    n, fn, maskfn = _arr_parts(arr)
    if maskfn is not None:
        raise Unsupported("average/std of a compressed array")
    k = z3.Int("red_k")
    return z3.Lambda([k], V.rterm(fn(k))), n


def install_numpy2(I):
    L = I.lib

    def np_average(I, a, **k):
        if isinstance(a, (list, tuple)):
            a = L["numpy.array"](I, list(a))
        lam, n = _lam_of(a)
        # empty slice -> NaN (numpy warns); modelled by the NaN flag
        return SReal(AVG(lam, n), n <= 0)
    L["numpy.average"] = np_average
    L["numpy.mean"] = np_average
    L["ndarray.mean"] = lambda I, self, **k: I.lib["numpy.mean"](I, self, **k)

    def np_std(I, a, **k):
        lam, n = _lam_of(a)
        s = STD(lam, n)
        I.axiom("std>=0", s >= 0)
        return SReal(s, n <= 0)
    L["numpy.std"] = np_std

    def arg_extreme(which):
        def f(I, a, *args, **k):
            n, fn, maskfn = _arr_parts(a)
            if maskfn is not None:
                raise Unsupported("argmin/argmax of a compressed array")
            I.safety("arg-of-empty", n > 0, "ValueError")
            j = z3.Int(fresh(which))
            i = z3.Int(fresh("i"))
            better = (lambda x, y: x <= y) if which == "argmin" else (lambda x, y: x >= y)
            strictly = (lambda x, y: x < y) if which == "argmin" else (lambda x, y: x > y)
            fj = V.rterm(fn(j))
            I.axiom(f"def:{which}", z3.And(j >= 0, j < n))
            I.axiom(f"def:{which}", z3.ForAll([i], z3.Implies(z3.And(i >= 0, i < n), better(fj, V.rterm(fn(i))))))
            I.axiom(f"def:{which}-first", z3.ForAll([i], z3.Implies(z3.And(i >= 0, i < j), strictly(fj, V.rterm(fn(i))))))
            I.ghost.setdefault("arg_reductions", []).append((which, j, fn, n))
            return SInt(j)
        return f
    L["numpy.argmin"] = arg_extreme("argmin")
    L["numpy.argmax"] = arg_extreme("argmax")
    L["ndarray.argmin"] = lambda I, self: L["numpy.argmin"](I, self)
    L["ndarray.argmax"] = lambda I, self: L["numpy.argmax"](I, self)

    def np_zeros(I, n, dtype=None, **k):
        kind = "real" if dtype is None else "int"
        zero = Fraction(0) if kind == "real" else 0
        return SArray(n if isinstance(n, (int, SInt)) else n, lambda i: zero, kind)
    L["numpy.zeros"] = np_zeros

    def np_full(I, shape, fill_value, dtype=None, **k):
        if isinstance(shape, (tuple, list)):
            if len(shape) != 1:
                raise Unsupported("np.full with more than one dimension")
            shape = shape[0]
        is_float = dtype is None or (getattr(dtype, "name", None) == "float")
        if not isinstance(shape, (int, SInt)) or A.is_arraylike(fill_value) or not is_float or k:
            raise Unsupported("np.full with these arguments")
        fv = V.to_frac(fill_value) if isinstance(fill_value, float) else fill_value
        kind = "bool" if isinstance(fv, (bool, SBool)) else ("int" if isinstance(fv, (int, SInt)) else "real")
        return SArray(shape, lambda i: fv, kind)
    L["numpy.full"] = np_full
    L["numpy.arange"] = lambda I, n: SArray(n, lambda i: SInt(i), "int")
    L["numpy.uint8"] = Opaque("dtype")


def install_numpy3(I):
    L = I.lib
    SIN = z3.Function("u_sin", z3.RealSort(), z3.RealSort())
    COS = z3.Function("u_cos", z3.RealSort(), z3.RealSort())

    def ew(fun):
        def g(I, x):
            f = lambda v: SReal(fun(V.rterm(v)), V.nanflag(v))
            if A.is_arraylike(x):
                return A.elementwise(I, f, x)
            return f(x)
        return g
    L["numpy.sin"] = ew(SIN)
    L["numpy.cos"] = ew(COS)

    def linspace(I, start, stop, num=50, endpoint=True, **k):
        if not endpoint or k:
            raise Unsupported("linspace variant")
        n = V.iterm(num)
        a, b = V.rterm(start), V.rterm(stop)
        # x[i] = start + i (stop-start)/(n-1); a single point is `start`
        return SArray(num, lambda i: SReal(z3.If(n > 1, a + z3.ToReal(i) * (b - a) / z3.ToReal(n - 1), a)), "real")
    L["numpy.linspace"] = linspace
