"""Library model of lmfit.Parameters / lmfit.Parameter (assumed, DESIGN.md 2.5).

Parameters: insertion-ordered map name -> Parameter (a dict subclass in lmfit);
Parameter: record (name, value, vary, expr, min, max, brute_step, stderr, correl,
init_value, user_data); ``set(...)`` overwrites the given fields in place;
``__getstate__`` returns exactly that record; ``valuesdict`` maps name -> value.
Bounds are NOT enforced on ``set``/``value =`` here (lmfit clips lazily): the
contracts that need in-bounds values state so explicitly.
"""
from __future__ import annotations

import z3

from ..core import Unsupported
from . import values as V
from .values import SBool, SInt, SReal, SAtom, fresh

STATE_FIELDS = ("name", "value", "vary", "expr", "min", "max", "brute_step", "stderr", "correl",
                "init_value", "user_data")


def install(I):
    from . import symex as sx
    from . import lib

    PARAMETER = sx.ClassVal("Parameter", [sx.OBJECT], {"__lmfit__": True})
    PARAMETERS = sx.ClassVal("Parameters", [sx.DICT], {"__lmfit__": True})
    I.lmfit = {"Parameter": PARAMETER, "Parameters": PARAMETERS}
    B = sx.Builtin

    def p_set(I, self, value=None, vary=None, min=None, max=None, expr=None, brute_step=None, **kw):
        if kw:
            raise Unsupported(f"Parameter.set({sorted(kw)})")
        for k, v in (("value", value), ("vary", vary), ("min", min), ("max", max), ("expr", expr),
                     ("brute_step", brute_step)):
            if v is not None:
                self.attrs[k] = v
                I.mutations.append((self, k))
        # lmfit: setting a value (or vary=True) removes an expression constraint; setting an expression fixes the
        # parameter (vary=False)
        if expr is None and (value is not None or vary is True) and self.attrs.get("expr") is not None:
            self.attrs["expr"] = None
            I.mutations.append((self, "expr"))
        if expr is not None and expr != "":
            self.attrs["vary"] = False
        return None
    PARAMETER.ns["set"] = B("Parameter.set", p_set)

    def p_getstate(I, self):
        return tuple(self.attrs.get(f) for f in STATE_FIELDS)
    PARAMETER.ns["__getstate__"] = B("Parameter.__getstate__", p_getstate)

    def new_parameter(I, name, value=None, vary=True, min=None, max=None, expr=None, **extra):
        o = sx.Obj(PARAMETER)
        o.attrs.update(name=name, value=value, vary=vary, expr=expr, min=min, max=max,
                       brute_step=extra.get("brute_step"), stderr=extra.get("stderr"),
                       correl=extra.get("correl"), init_value=extra.get("init_value", value),
                       user_data=extra.get("user_data"))
        return o
    I.new_parameter = lambda *a, **k: new_parameter(I, *a, **k)
    I.lib["lmfit.Parameter"] = lambda I, name, **k: new_parameter(I, name, **k)
    I.lib["lmfit.parameter.Parameter"] = I.lib["lmfit.Parameter"]

    def ps_new(I, *a, **k):
        o = sx.Obj(PARAMETERS)
        o.map = sx.SDict()
        return o
    I.lib["lmfit.Parameters"] = ps_new
    I.new_parameters = lambda: ps_new(I)

    def ps_add(I, self, name, value=None, vary=True, min=None, max=None, expr=None, **k):
        if isinstance(name, sx.Obj) and name.cls is PARAMETER:
            self.map.d[name.attrs["name"]] = [True, name]
        else:
            self.map.d[name] = [True, new_parameter(I, name, value=value, vary=vary, min=min, max=max,
                                                    expr=expr)]
        I.mutations.append(self.map)
    PARAMETERS.ns["add"] = B("Parameters.add", ps_add)

    def ps_valuesdict(I, self):
        d = sx.SDict()
        for k, e in self.map.d.items():
            if e[0] is not True:
                raise Unsupported("valuesdict with symbolic-presence parameter")
            d.d[k] = [True, e[1].attrs["value"]]
        return d
    PARAMETERS.ns["valuesdict"] = B("Parameters.valuesdict", ps_valuesdict)

    def ps_dumps(I, self, **k):
        return ("__params_dump__", self)
    PARAMETERS.ns["dumps"] = B("Parameters.dumps", ps_dumps)

    def copy_params(I, x, deep):
        if x.cls is PARAMETER:
            o = sx.Obj(PARAMETER)
            o.attrs.update(x.attrs)
            return o
        o = sx.Obj(PARAMETERS)
        o.map = sx.SDict()
        for k, e in x.map.d.items():
            # lmfit.Parameters.__copy__ == __deepcopy__: parameter objects are duplicated
            o.map.d[k] = [e[0], copy_params(I, e[1], True)]
        return o
    I.lib["copy:Parameters"] = copy_params
    I.lib["copy:Parameter"] = copy_params
    I.lib["isinstance:lmfit.parameter.Parameter"] = lambda I, x: isinstance(x, sx.Obj) and x.cls is PARAMETER
    I.lib["isinstance:lmfit.Parameter"] = I.lib["isinstance:lmfit.parameter.Parameter"]
    I.lib["isinstance:lmfit.Parameters"] = lambda I, x: isinstance(x, sx.Obj) and x.cls is PARAMETERS


def sym_parameters(I, names, prefix="p", vary=None, concrete_expr=True):
    """a Parameters object with fully symbolic parameter records; returns (obj, terms)"""
    ps = I.new_parameters()
    terms = {}
    for n in names:
        val = z3.Real(f"{prefix}_{n}_value")
        lo = z3.Real(f"{prefix}_{n}_min")
        hi = z3.Real(f"{prefix}_{n}_max")
        vr = z3.Bool(f"{prefix}_{n}_vary") if vary is None else None
        ex = z3.Int(f"{prefix}_{n}_expr")
        misc = z3.Int(f"{prefix}_{n}_misc")
        bs = z3.Int(f"{prefix}_{n}_brute_step")
        par = I.new_parameter(n, value=SReal(val), vary=SBool(vr) if vr is not None else vary[n],
                              min=SReal(lo), max=SReal(hi), expr=SAtom(ex),
                              brute_step=SAtom(bs), stderr=SAtom(misc), correl=SAtom(misc),
                              init_value=SAtom(misc), user_data=SAtom(misc))
        ps.map.d[n] = [True, par]
        terms[n] = dict(value=val, min=lo, max=hi, vary=vr, expr=ex, misc=misc, brute_step=bs)
    return ps, terms
