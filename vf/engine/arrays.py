"""Scalar operations and the pointwise-array domain (DESIGN.md 2.4).

An array is a length plus a function from an index term to a scalar value.
Derived arrays snapshot their operands (numpy computes eagerly); views write
through to their base; ``a[mask]`` is a compressed view that can only be
combined with values compressed by the same mask.
"""
from __future__ import annotations

from fractions import Fraction

import z3

from ..core import Unsupported
from .values import (SBool, SInt, SReal, SAtom, Sym, NAN, POW, SQRT, TAN, LOG, PI, Axioms,
                     rterm, iterm, bterm, nanflag, zor, znot, to_frac, is_concrete_num,
                     is_intlike, is_num, fresh, str_code, infsign)


def _fin(f):
    return isinstance(f, int) and f == 0


def _iz(f):
    return z3.IntVal(0) if (isinstance(f, int) and f == 0) else f


# ------------------------------------------------------------ scalar helpers
def _c(v):
    """normalise concrete floats"""
    if isinstance(v, float):
        return to_frac(v)
    return v


def kind_of(v):
    if isinstance(v, (bool, SBool)):
        return "bool"
    if isinstance(v, (int, SInt)):
        return "int"
    if isinstance(v, (Fraction, float, SReal)):
        return "real"
    raise Unsupported(f"kind_of {v!r}")


def ite_val(cond, a, b):
    """scalar if-then-else; cond is a z3 Bool"""
    if not (z3.is_true(cond) or z3.is_false(cond)) and cond.num_args() == 2 \
            and all(z3.is_int_value(c) for c in cond.children()):
        cond = z3.simplify(cond)
    if z3.is_true(cond):
        return a
    if z3.is_false(cond):
        return b
    ka, kb = kind_of(a), kind_of(b)
    if ka == kb == "bool":
        return SBool(z3.If(cond, bterm(a), bterm(b)))
    if ka in ("int", "bool") and kb in ("int", "bool"):
        return SInt(z3.If(cond, iterm(a), iterm(b)))
    na, nb = nanflag(a), nanflag(b)
    if na is False and nb is False:
        nan = False
    else:
        nan = z3.If(cond, _zb(na), _zb(nb))
    ia, ib = infsign(a), infsign(b)
    inf = 0 if (_fin(ia) and _fin(ib)) else z3.If(cond, _iz(ia), _iz(ib))
    return SReal(z3.If(cond, rterm(a), rterm(b)), nan, inf)


def _zb(f):
    return z3.BoolVal(f) if isinstance(f, bool) else f


def scalar_binop(I, op, a, b):
    a, b = _c(a), _c(b)
    if is_concrete_num(a) and is_concrete_num(b):
        return _concrete_binop(op, a, b)
    if not (is_num(a) and is_num(b)):
        raise Unsupported(f"binop {op} on {a!r}, {b!r}")
    both_int = is_intlike(a) and is_intlike(b) and not isinstance(a, Fraction) and not isinstance(b, Fraction)
    nan = zor(nanflag(a), nanflag(b))
    if op == "Pow":
        return scalar_pow(I, a, b)
    if both_int and op in ("Add", "Sub", "Mult", "FloorDiv", "Mod"):
        x, y = iterm(a), iterm(b)
        if op == "Add":
            return SInt(x + y)
        if op == "Sub":
            return SInt(x - y)
        if op == "Mult":
            return SInt(x * y)
        I.safety("div_zero", y != 0, "ZeroDivisionError")
        # python floor division == z3 div for positive divisor; only that case is supported
        if not I.valid(y > 0):
            raise Unsupported("floor division / modulo by a possibly negative number")
        return SInt(x / y) if op == "FloorDiv" else SInt(x % y)
    x, y = rterm(a), rterm(b)
    ia, ib = infsign(a), infsign(b)
    if not _fin(ia) or not _fin(ib):
        return _inf_arith(I, op, a, b, x, y, nan, _iz(ia), _iz(ib))
    if op == "Add":
        return SReal(x + y, nan)
    if op == "Sub":
        return SReal(x - y, nan)
    if op == "Mult":
        return SReal(x * y, nan)
    if op == "Div":
        # numpy/float semantics for symbolic divisor: treated as mathematical division;
        # a python-level ZeroDivisionError is only possible for python scalars
        if is_concrete_num(b):
            if to_frac(b) == 0:
                raise ZeroDivisionError
        elif I.python_float_division:
            I.safety("div_zero", y != 0, "ZeroDivisionError")
        else:
            # numpy semantics (inf/nan, no exception): outside the modelled reals (A1);
            # "the divisor is non-zero" becomes a domain obligation of the contract
            if getattr(I, "zero_over_zero_is_nan", False):
                # contracts about "NaN or finite" results: 0/0 is NaN (allowed), only x/0 with x != 0 (+-inf)
                # leaves the domain
                I.domain("div_nonzero_or_0_over_0", z3.Or(y != 0, x == 0))
                return SReal(x / y, zor(nan, z3.And(y == 0, x == 0)))
            I.domain("div_nonzero", y != 0)
        return SReal(x / y, nan)
    if op == "FloorDiv":
        if is_concrete_num(b) and to_frac(b) > 0:
            return SInt(z3.ToInt(x / y))
        raise Unsupported("real floor division")
    raise Unsupported(f"binop {op}")


def _inf_arith(I, op, a, b, x, y, nan, ia, ib):
    """IEEE rules for +-inf in sums / differences / scaling by a non-zero finite number"""
    if op in ("Add", "Sub"):
        jb = ib if op == "Add" else -ib
        clash = z3.And(ia != 0, jb != 0, ia != jb)          # inf - inf -> NaN
        inf = z3.If(ia != 0, ia, jb)
        val = (x + y) if op == "Add" else (x - y)
        return SReal(val, zor(nan, clash), z3.If(clash, 0, inf))
    if op == "Mult":
        sx_ = z3.If(ia != 0, ia, z3.If(x > 0, 1, z3.If(x < 0, -1, 0)))
        sy_ = z3.If(ib != 0, ib, z3.If(y > 0, 1, z3.If(y < 0, -1, 0)))
        anyinf = z3.Or(ia != 0, ib != 0)
        zero_times_inf = z3.And(anyinf, z3.Or(z3.And(ia == 0, x == 0), z3.And(ib == 0, y == 0)))
        return SReal(x * y, zor(nan, zero_times_inf), z3.If(z3.And(anyinf, z3.Not(zero_times_inf)), sx_ * sy_, 0))
    raise Unsupported(f"operation {op} on a possibly infinite value")


def _concrete_binop(op, a, b):
    if op == "Add":
        return a + b
    if op == "Sub":
        return a - b
    if op == "Mult":
        return a * b
    if op == "Div":
        if b == 0:
            raise ZeroDivisionError
        return Fraction(a) / Fraction(b) if not (isinstance(a, Fraction) or isinstance(b, Fraction)) \
            else to_frac(a) / to_frac(b)
    if op == "FloorDiv":
        return a // b
    if op == "Mod":
        return a % b
    if op == "Pow":
        if isinstance(b, int) or (isinstance(b, Fraction) and b.denominator == 1):
            return to_frac(a) ** int(b) if not isinstance(a, int) or b < 0 else a ** int(b)
        raise Unsupported("concrete fractional power")
    raise Unsupported(f"concrete binop {op}")


def scalar_pow(I, a, b):
    b = _c(b)
    if not is_concrete_num(b):
        raise Unsupported("symbolic exponent")
    p = to_frac(b)
    nan = nanflag(a)
    x = rterm(a)
    if p.denominator == 1 and 0 <= p <= 8:
        n = int(p)
        if n == 0:
            return SReal(z3.RealVal(1), nan)
        t = x
        for _ in range(n - 1):
            t = t * x
        if is_intlike(a):
            it = iterm(a)
            tt = it
            for _ in range(n - 1):
                tt = tt * it
            return SInt(tt)
        return SReal(t, nan)
    if p > 0:
        y = POW(x, z3.RealVal(str(p)))
        for ax in Axioms.pow(x, p, y):
            I.axiom("A4.pow", ax)
        # numpy: negative base with fractional exponent -> NaN
        neg = x < 0
        return SReal(y, zor(nan, neg))
    raise Unsupported(f"power with exponent {p}")


def scalar_unop(I, op, a):
    a = _c(a)
    if op == "USub":
        if is_concrete_num(a):
            return -a
        if isinstance(a, SInt):
            return SInt(-a.term)
        ia = infsign(a)
        return SReal(-rterm(a), nanflag(a), 0 if _fin(ia) else -ia)
    if op == "UAdd":
        return a
    if op == "Not":
        return I.not_(a)
    raise Unsupported(f"unop {op}")


_CMP = {"Lt": lambda x, y: x < y, "LtE": lambda x, y: x <= y, "Gt": lambda x, y: x > y,
        "GtE": lambda x, y: x >= y, "Eq": lambda x, y: x == y, "NotEq": lambda x, y: x != y}


def scalar_compare(op, a, b):
    """numeric comparison -> python bool or SBool (NaN compares false, != true)"""
    a, b = _c(a), _c(b)
    if is_concrete_num(a) and is_concrete_num(b):
        return _CMP[op](a, b)
    if is_intlike(a) and is_intlike(b) and not isinstance(a, Fraction) and not isinstance(b, Fraction):
        return SBool(_CMP[op](iterm(a), iterm(b)))
    t = _CMP[op](rterm(a), rterm(b))
    ia, ib = infsign(a), infsign(b)
    if not _fin(ia) or not _fin(ib):
        # IEEE order with +-inf: compare the signs of infinity first, the finite values only when both are finite
        sa, sb = _iz(ia), _iz(ib)
        both_fin = z3.And(sa == 0, sb == 0)
        if op in ("Lt", "LtE", "Gt", "GtE"):
            strict = {"Lt": sa < sb, "LtE": sa < sb, "Gt": sa > sb, "GtE": sa > sb}[op]
            same_inf = z3.And(sa == sb, sa != 0)
            t = z3.Or(strict, z3.And(both_fin, t), z3.And(same_inf, z3.BoolVal(op in ("LtE", "GtE"))))
        elif op == "Eq":
            t = z3.Or(z3.And(both_fin, t), z3.And(sa == sb, sa != 0))
        elif op == "NotEq":
            t = z3.Not(z3.Or(z3.And(both_fin, rterm(a) == rterm(b)), z3.And(sa == sb, sa != 0)))
    nan = zor(nanflag(a), nanflag(b))
    if nan is False:
        return SBool(t)
    if op == "NotEq":
        return SBool(z3.Or(_zb(nan), t))
    return SBool(z3.And(z3.Not(_zb(nan)), t))


def scalar_abs(a):
    a = _c(a)
    if is_concrete_num(a):
        return abs(a)
    if isinstance(a, SInt):
        return SInt(z3.If(a.term >= 0, a.term, -a.term))
    x = rterm(a)
    ia = infsign(a)
    return SReal(z3.If(x >= 0, x, -x), nanflag(a), 0 if _fin(ia) else z3.If(ia != 0, 1, 0))


def scalar_sqrt(I, a):
    a = _c(a)
    x = rterm(a)
    y = SQRT(x)
    for ax in Axioms.sqrt(x, y):
        I.axiom("A4.sqrt", ax)
    return SReal(y, zor(nanflag(a), x < 0))


def scalar_tan(I, a):
    return SReal(TAN(rterm(_c(a))), nanflag(a))


def scalar_log(I, a):
    x = rterm(_c(a))
    return SReal(LOG(x), zor(nanflag(a), x < 0))


# ------------------------------------------------------------ arrays
class SArray(Sym):
    """1-D pointwise array."""

    def __init__(self, length, fn, kind="real", origin=None, name=None):
        self.length = length          # python int or SInt
        self._fn = fn                 # z3 Int index term -> scalar value
        self.kind = kind
        self.origin = origin          # e.g. "arg:delta" for frame obligations
        self.name = name or fresh("arr")
        self.writable = True
        self.parent = None            # view support
        self.to_parent = None         # i -> j
        self.from_parent = None       # j -> i
        self.in_view = None           # j -> z3 Bool
        self.owner = None             # interp, for mutation log

    # -- reading
    def snap(self):
        """pure closure of the current contents"""
        hook = getattr(self, "snap_hook", None)
        if hook is not None:
            return hook()
        if self.parent is not None:
            ps = self.parent.snap()
            tp = self.to_parent
            return lambda i: ps(tp(i))
        return self._fn

    def at(self, i):
        return self.snap()(i)

    def len_term(self):
        return iterm(self.length)

    # -- writing
    def write(self, I, newfn):
        """replace contents by newfn (index -> value)"""
        if self.parent is not None:
            old = self.parent.snap()
            inv, fp = self.in_view, self.from_parent
            self.parent.write(I, lambda j: ite_val(inv(j), newfn(fp(j)), old(j)))
            return
        if not self.writable:
            I.raise_py("ValueError", "assignment destination is read-only")
        p2 = getattr(self, "parent2d", None)
        if p2 is not None:
            # a column of a matrix is a view: the store goes through to the matrix
            m, c = p2
            old2 = m.snap()
            m.write(I, lambda r, cc: newfn(r) if cc == c else old2(r, cc))
            return
        self._fn = newfn
        I.log_mutation(self)

    def root(self):
        a = self
        while a.parent is not None:
            a = a.parent
        return a

    def view(self, length, to_parent, from_parent, in_view):
        v = SArray(length, None, self.kind, origin=None, name=fresh("view"))
        v.parent, v.to_parent, v.from_parent, v.in_view = self, to_parent, from_parent, in_view
        return v

    def __repr__(self):
        return f"SArray({self.name}, len={self.length}, {self.kind})"


class SCompressed(Sym):
    """``src[mask]``: values of src at the positions where mask holds."""

    def __init__(self, fn, maskfn, length, kind="real", src=None):
        self.fn = fn            # index -> value (only meaningful where mask holds)
        self.maskfn = maskfn    # index -> z3 Bool
        self.length = length    # length of the *uncompressed* array
        self.kind = kind
        self.src = src          # array it was taken from (for write-through of a[m] op= ...)

    def __repr__(self):
        return "SCompressed(...)"


def same_mask(I, m1, m2):
    if m1 is m2:
        return True
    k = z3.Int(fresh("k"))
    a, b = m1(k), m2(k)
    if z3.eq(z3.simplify(a), z3.simplify(b)):
        return True
    return I.valid(a == b)


def new_array_input(I, name, kind="real", length=None, origin=None, nan=False):
    """symbolic input array backed by an uninterpreted function"""
    n = length if length is not None else SInt(z3.Int(f"len_{name}"))
    if isinstance(n, SInt):
        I.assume(n.term >= 0)
    if kind == "real":
        f = z3.Function(name, z3.IntSort(), z3.RealSort())
        if nan:
            fn_nan = z3.Function(name + "_isnan", z3.IntSort(), z3.BoolSort())
            fn = (lambda i: SReal(f(i), fn_nan(i)))
        else:
            fn = (lambda i: SReal(f(i)))
    elif kind == "bool":
        f = z3.Function(name, z3.IntSort(), z3.BoolSort())
        fn = (lambda i: SBool(f(i)))
    else:
        f = z3.Function(name, z3.IntSort(), z3.IntSort())
        fn = (lambda i: SInt(f(i)))
    arr = SArray(n, fn, kind, origin=origin or f"arg:{name}", name=name)
    arr.uf = f
    return arr


def is_arraylike(v):
    return isinstance(v, (SArray, SCompressed))


def elementwise(I, f, *ops, kind=None):
    """apply scalar function f pointwise over arrays/scalars"""
    comp = [o for o in ops if isinstance(o, SCompressed)]
    arrs = [o for o in ops if isinstance(o, SArray)]
    if comp:
        if arrs:
            raise Unsupported("mixing a compressed array with a full array")
        m0 = comp[0]
        for c in comp[1:]:
            if not same_mask(I, m0.maskfn, c.maskfn):
                raise Unsupported("compressed arrays with different masks")
        getters = [(o.fn if isinstance(o, SCompressed) else (lambda i, o=o: o)) for o in ops]
        fn = lambda i: f(*[g(i) for g in getters])
        k = kind
        if k is None:
            try:
                k = kind_of(fn(z3.Int(fresh("probe"))))
            except Unsupported:
                k = m0.kind
        return SCompressed(fn, m0.maskfn, m0.length, k)
    n = arrs[0].length
    for a in arrs[1:]:
        if a.length is not n and not _same_len(a.length, n):
            I.safety("shape", iterm(a.length) == iterm(n), "ValueError")
    getters = [(o.snap() if isinstance(o, SArray) else (lambda i, o=o: o)) for o in ops]
    fn = lambda i: f(*[g(i) for g in getters])
    k = kind
    if k is None:
        probe = fn(z3.Int(fresh("probe")))
        k = kind_of(probe)
    return SArray(n, fn, k)


def _same_len(a, b):
    if isinstance(a, int) and isinstance(b, int):
        return a == b
    if isinstance(a, SInt) and isinstance(b, SInt):
        return z3.eq(a.term, b.term)
    return False
