"""Value domains of the symbolic interpreter (see DESIGN.md 2.4).

Concrete Python values (int, Fraction, bool, str, None, list, dict, tuple, set)
are used as they are; floats are turned into exact Fractions (assumption A1:
machine arithmetic is treated as mathematical).  Symbolic values wrap z3 terms.
"""
from __future__ import annotations

import itertools
from fractions import Fraction  # noqa: F401

import z3

from ..core import Unsupported

_counter = itertools.count()


def fresh(prefix):
    return f"{prefix}!{next(_counter)}"


# ---------------------------------------------------------------- scalars
class Sym:
    pass


class SBool(Sym):
    def __init__(self, term):
        self.term = term

    def __repr__(self):
        return f"SBool({self.term})"


class SInt(Sym):
    def __init__(self, term):
        self.term = term

    def __repr__(self):
        return f"SInt({self.term})"


class SReal(Sym):
    """A float: a mathematical real plus a NaN flag (z3 Bool or python False)."""

    def __init__(self, term, nan=False, inf=0):
        self.term = term
        self.nan = nan
        self.inf = inf        # 0 (finite), or a z3 Int term in {-1, 0, 1}: sign of an infinity

    def __repr__(self):
        return f"SReal({self.term}, nan={self.nan}" + (f", inf={self.inf})" if not (isinstance(self.inf, int) and self.inf == 0) else ")")


class SAtom(Sym):
    """An opaque value that is only moved and compared (strings from a finite
    universe, identifiers, keys).  Encoded as a z3 Int; every concrete string
    that meets an atom gets a distinct non-negative code."""

    def __init__(self, term, label=""):
        self.term = term
        self.label = label

    def __repr__(self):
        return f"SAtom({self.term})"


_STR_CODES: dict = {}
_CODE_STRS: dict = {}


def str_code(s):
    if s not in _STR_CODES:
        c = len(_STR_CODES)
        _STR_CODES[s] = c
        _CODE_STRS[c] = s
    return _STR_CODES[s]


def code_str(c):
    return _CODE_STRS.get(c)


class Opaque(Sym):
    """Uninterpreted python object (e.g. a module function we never call):
    identity only."""

    def __init__(self, name):
        self.name = name

    def __repr__(self):
        return f"Opaque({self.name})"


NAN = SReal(z3.RealVal(0), nan=True)


def is_nan_const(v):
    return isinstance(v, SReal) and v.nan is True


def to_frac(x):
    if isinstance(x, bool):
        return Fraction(int(x))
    if isinstance(x, int):
        return Fraction(x)
    if isinstance(x, Fraction):
        return x
    if isinstance(x, float):
        if x != x:
            raise Unsupported("concrete NaN float")
        if x in (float("inf"), float("-inf")):
            raise Unsupported("concrete infinity")
        return Fraction(repr(x))
    raise TypeError(x)


def rterm(v):
    """z3 Real term of a numeric value."""
    if isinstance(v, SReal):
        return v.term
    if isinstance(v, SInt):
        return z3.ToReal(v.term)
    if isinstance(v, SBool):
        return z3.If(v.term, z3.RealVal(1), z3.RealVal(0))
    if isinstance(v, (bool, int, Fraction, float)):
        f = to_frac(v)
        return z3.RealVal(str(f))
    raise Unsupported(f"not numeric: {v!r}")


def iterm(v):
    if isinstance(v, SInt):
        return v.term
    if isinstance(v, bool):
        return z3.IntVal(int(v))
    if isinstance(v, int):
        return z3.IntVal(v)
    if isinstance(v, SBool):
        return z3.If(v.term, z3.IntVal(1), z3.IntVal(0))
    if isinstance(v, Fraction) and v.denominator == 1:
        return z3.IntVal(int(v))
    raise Unsupported(f"not an integer: {v!r}")


def bterm(v):
    if isinstance(v, SBool):
        return v.term
    if isinstance(v, bool):
        return z3.BoolVal(v)
    raise Unsupported(f"not a bool: {v!r}")


def nanflag(v):
    if isinstance(v, SReal):
        return v.nan
    return False


def infsign(v):
    return getattr(v, "inf", 0) if isinstance(v, SReal) else 0


def zor(*flags):
    fs = [f for f in flags if f is not False]
    if not fs:
        return False
    if any(f is True for f in fs):
        return True
    return fs[0] if len(fs) == 1 else z3.Or(*fs)


def znot(f):
    if f is False:
        return True
    if f is True:
        return False
    return z3.Not(f)


def zand_b(*ts):
    ts = [t for t in ts if t is not True]
    if any(t is False for t in ts):
        return z3.BoolVal(False)
    if not ts:
        return z3.BoolVal(True)
    return ts[0] if len(ts) == 1 else z3.And(*ts)


def is_concrete_num(v):
    return isinstance(v, (bool, int, Fraction, float))


def is_intlike(v):
    return isinstance(v, (bool, int, SInt, SBool)) or (isinstance(v, Fraction) and v.denominator == 1)


def is_num(v):
    return isinstance(v, (bool, int, Fraction, float, SInt, SReal, SBool))


# ---------------------------------------------------------------- elementary functions (A4)
REAL = z3.RealSort()
POW = z3.Function("u_pow", REAL, REAL, REAL)       # pow(x, p), real exponent
SQRT = z3.Function("u_sqrt", REAL, REAL)
TAN = z3.Function("u_tan", REAL, REAL)
LOG = z3.Function("u_log", REAL, REAL)
PI = z3.Real("c_pi")


class Axioms:
    """Instances of elementary-function axioms, added at the use site."""

    @staticmethod
    def pow(x, p, y):
        # y = pow(x, p) ; p is a concrete positive rational here.  For x < 0 numpy
        # yields NaN: the engine sets the NaN flag there and every consumer checks the
        # flag, so the term's value is immaterial and is fixed to 0.
        return [z3.Implies(x > 0, y > 0), z3.Implies(x <= 0, y == 0)]

    @staticmethod
    def sqrt(x, y):
        return [z3.Implies(x >= 0, z3.And(y >= 0, y * y == x))]

    @staticmethod
    def pi():
        return [PI > z3.RealVal("3.14159"), PI < z3.RealVal("3.1416")]


def auto_axioms(*terms):
    """A4 instances for every pow/sqrt application (and pi) occurring in the given terms"""
    out, seen = [], set()
    stack = list(terms)
    pi_seen = False
    while stack:
        t = stack.pop()
        if not z3.is_expr(t):
            continue
        tid = t.get_id()
        if tid in seen:
            continue
        seen.add(tid)
        if z3.is_quantifier(t):
            stack.append(t.body())
            continue
        if z3.is_app(t):
            d = t.decl()
            nm = d.name()
            if nm == "u_pow" and t.num_args() == 2 and z3.is_rational_value(t.arg(1)):
                pv = Fraction(t.arg(1).numerator_as_long(), t.arg(1).denominator_as_long())
                if pv > 0:
                    out += Axioms.pow(t.arg(0), pv, t)
            elif nm == "u_sqrt":
                out += Axioms.sqrt(t.arg(0), t)
            elif nm == "c_pi" and not pi_seen:
                pi_seen = True
                out += Axioms.pi()
            stack.extend(t.children())
    return out
