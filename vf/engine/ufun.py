"""Uninterpreted array functions: stand for *any* user-supplied model function
(the 'programs' quantifier of C13).  result[i] = G(i, <input array>, n): the value
may depend on the position and on the whole input (order-sensitive models)."""
from __future__ import annotations

import z3

from . import values as V
from .values import SReal, fresh
from .arrays import SArray


class ArrayUF:
    def __init__(self, name):
        self.name = name
        self.G = z3.Function(name, z3.IntSort(), z3.ArraySort(z3.IntSort(), z3.RealSort()),
                             z3.IntSort(), z3.RealSort())
        self.calls = []

    def apply_term(self, i, fn, n):
        """G(i, lambda j. fn(j), n) as a z3 term; fn maps index term -> z3 Real term"""
        j = z3.Int("uf_j")
        return self.G(i, z3.Lambda([j], fn(j)), n)

    def value(self, I, on_call=None):
        from .symex import Builtin

        def call(I, *args, **kwargs):
            delta = kwargs.pop("delta", None)
            if delta is None:
                delta, args = args[0], args[1:]
            snap = delta.snap()
            n = delta.len_term()
            self.calls.append({"delta": delta, "snap": snap, "n": n, "kwargs": dict(kwargs), "args": args})
            if on_call:
                on_call(I, self.calls[-1])
            j = z3.Int("uf_j")
            lam = z3.Lambda([j], V.rterm(snap(j)))
            G = self.G
            return SArray(delta.length, lambda i: SReal(G(i, lam, n)), "real")
        return Builtin(self.name, call)
