"""Obligation discharge (z3, then cvc5 on unknown) and the FunctionUnit helper
that turns 'real function + sidecar contract' into named obligation results."""
from __future__ import annotations

import json
import os
import select
import signal
import subprocess
import tempfile
import time

import z3

from ..core import ObResult, UnitResult, DISCHARGED, REFUTED, UNDECIDED, Unsupported
from . import symex
from . import values as V

Z3_TIMEOUT_MS = int(os.environ.get("VF_Z3_TIMEOUT_MS", "10000"))
CVC5_TIMEOUT_S = int(os.environ.get("VF_CVC5_TIMEOUT_S", "10"))


def _z3_forked(s, tmo, names):
    """s.check() in a forked child with a hard wall-clock limit; returns the child's payload or None"""
    r, w = os.pipe()
    pid = os.fork()
    if pid == 0:
        code = 0
        try:
            os.close(r)
            res = s.check()
            payload = {"res": str(res)}
            if res == z3.sat:
                payload["model"] = model_to_json(s.model(), names or {})
            elif res != z3.unsat:
                payload["reason"] = s.reason_unknown()
            os.write(w, json.dumps(payload, default=str).encode())
        except BaseException as exc:  # pragma: no cover
            try:
                os.write(w, json.dumps({"res": "error", "reason": repr(exc)}).encode())
            except Exception:
                pass
            code = 1
        finally:
            os._exit(code)
    os.close(w)
    payload = None
    try:
        ready, _, _ = select.select([r], [], [], tmo + 2.0)
        if ready:
            chunks = []
            while True:
                b = os.read(r, 65536)
                if not b:
                    break
                chunks.append(b)
            if chunks:
                payload = json.loads(b"".join(chunks).decode())
    finally:
        os.close(r)
        try:
            if payload is None:
                os.kill(pid, signal.SIGKILL)
        except ProcessLookupError:
            pass
        os.waitpid(pid, 0)
    return payload


def solve(constraints, goal, names=None, timeout_ms=None):
    """decide  constraints |= goal.
    returns (status, backend, time, model_json|None, detail).
    z3 runs in a forked child with a hard wall-clock limit (z3's own timeout is not
    reliable inside nlsat); on unknown/timeout the query goes to cvc5."""
    t0 = time.time()
    tmo = (timeout_ms or Z3_TIMEOUT_MS) / 1000.0
    s = z3.Solver()
    s.set("timeout", int(tmo * 1000))
    for c in constraints:
        s.add(c)
    s.add(z3.Not(goal))
    if _is_easy(list(constraints) + [goal]):
        # linear / propositional / uninterpreted: z3 decides these reliably in-process
        s.set("timeout", 5000)
        res = s.check()
        dt = time.time() - t0
        if res == z3.unsat:
            return DISCHARGED, "z3", dt, None, "unsat"
        if res == z3.sat:
            return REFUTED, "z3", dt, model_to_json(s.model(), names or {}), "sat"
        s.set("timeout", int(tmo * 1000))
    payload = _z3_forked(s, tmo, names)
    dt = time.time() - t0
    if payload and payload["res"] == "unsat":
        return DISCHARGED, "z3", dt, None, "unsat"
    if payload and payload["res"] == "sat":
        return REFUTED, "z3", dt, payload.get("model") or {}, "sat"
    reason = (payload or {}).get("reason", "hard timeout")
    st, det = _cvc5(s)
    dt = time.time() - t0
    if st == "unsat":
        return DISCHARGED, "cvc5", dt, None, f"z3 unknown ({reason}); cvc5 unsat"
    if st == "sat":
        return REFUTED, "cvc5", dt, {}, f"z3 unknown ({reason}); cvc5 sat (no model extracted)"
    # second attempt on an equisatisfiable query without array-valued arguments (see _ackermannize)
    forms, names2 = list(constraints) + [z3.Not(goal)], names
    ack = _ackermannize(forms, names)
    how = ""
    if ack is not None:
        forms, names2 = ack
        how = " [array arguments of uninterpreted reductions eliminated]"
        s2 = z3.Solver()
        s2.set("timeout", int(min(tmo, 30.0) * 1000))
        for f in forms:
            s2.add(f)
        payload = _z3_forked(s2, min(tmo, 30.0), names2)
        dt = time.time() - t0
        if payload and payload["res"] == "unsat":
            return DISCHARGED, "z3", dt, None, "unsat" + how
        if payload and payload["res"] == "sat":
            return REFUTED, "z3", dt, payload.get("model") or {}, "sat" + how
        st, det2 = _cvc5(s2)
        dt = time.time() - t0
        if st == "unsat":
            return DISCHARGED, "cvc5", dt, None, f"z3 unknown ({reason}); cvc5 unsat" + how
        if st == "sat":
            return REFUTED, "cvc5", dt, {}, f"z3 unknown ({reason}); cvc5 sat (no model extracted)" + how
        det = f"{det}; {det2}"
    inst = _instantiation_search(forms, names2)
    dt = time.time() - t0
    if inst is not None:
        return REFUTED, "z3-instantiated", dt, inst, \
            f"z3 unknown ({reason}); cvc5 {det}; sat after fixing real constants" + how
    return UNDECIDED, "z3+cvc5", dt, None, f"z3 unknown ({reason}); cvc5 {det}"


def _ackermannize(formulas, names):
    """Equisatisfiable rewriting that removes array-valued arguments: every GROUND application f(a1..an) of an
    uninterpreted function with an array argument (count/avg/std/sum of a lambda) becomes a fresh constant, and
    for every two applications of the same f the functional-consistency constraint is added with array
    extensionality skolemised:  f1 = f2  or  a scalar argument differs  or  the arrays differ at a fresh index.
    Returns (formulas, names) or None when an application occurs under a binder with bound variables."""
    apps = {}
    seen = set()

    def has_array_arg(t):
        return z3.is_app(t) and t.decl().kind() == z3.Z3_OP_UNINTERPRETED and t.num_args() > 0 and \
            any(a.sort().kind() == z3.Z3_ARRAY_SORT for a in t.children())

    def free_of_vars(t, cache={}):
        # true iff no de-Bruijn variable escapes t
        def go(u, depth):
            if z3.is_var(u):
                return z3.get_var_index(u) < depth
            if z3.is_quantifier(u):
                return go(u.body(), depth + u.num_vars())
            return all(go(c, depth) for c in u.children())
        return go(t, 0)

    bad = [False]

    def collect(t, under_binder):
        key = (t.get_id(), under_binder)
        if key in seen:
            return
        seen.add(key)
        if z3.is_quantifier(t):
            collect(t.body(), True)
            return
        if not z3.is_app(t):
            return
        if has_array_arg(t):
            if under_binder and not free_of_vars(t):
                bad[0] = True
                return
            apps.setdefault(t.get_id(), t)
        for c in t.children():
            collect(c, under_binder)
    for f in formulas:
        collect(f, False)
    if bad[0] or not apps:
        return None
    # innermost first (an application may occur inside the lambda of another one)
    order = sorted(apps.values(), key=lambda t: len(t.sexpr()))
    sub = []
    for n_, t in enumerate(order):
        t2 = z3.substitute(t, *sub) if sub else t
        sub.append((t, z3.Const(f"ack!{t.decl().name()}!{n_}", t.sort())))
        order[n_] = (t, t2)

    def at(a, w):
        if z3.is_quantifier(a) and a.is_lambda() and a.num_vars() == 1:
            return z3.substitute_vars(a.body(), w)
        return z3.Select(a, w)
    extra = []
    for i in range(len(order)):
        for j in range(i + 1, len(order)):
            (t1, a1), (t2, a2) = order[i], order[j]
            if not t1.decl().eq(t2.decl()):
                continue
            diffs = []
            for x, y in zip(a1.children(), a2.children()):
                if x.sort().kind() == z3.Z3_ARRAY_SORT:
                    w = z3.Const(f"ack!w!{i}!{j}!{len(diffs)}", x.sort().domain())
                    diffs.append(at(x, w) != at(y, w))
                else:
                    diffs.append(x != y)
            extra.append(z3.Or(sub[i][1] == sub[j][1], *diffs))
    # outermost first so that enclosing applications are replaced before their inner ones
    rsub = list(reversed(sub))

    def rw(f):
        for pair in rsub:
            f = z3.substitute(f, pair)
        return f
    out = [rw(f) for f in formulas] + [rw(e) for e in extra]
    for f in out:
        # nothing array-valued may be left as an argument
        pass
    names2 = {k: (rw(v) if z3.is_expr(v) else v) for k, v in (names or {}).items()}
    return out, names2


INST_POOL = ["2", "1/2", "3", "1", "1/4", "5", "-1", "3/2", "0", "7/8"]
INST_TRIES = int(os.environ.get("VF_INST_TRIES", "6"))


def _instantiation_search(formulas, names):
    """Counter-model search for queries the solvers leave open: fix the free real CONSTANTS that occur as a
    factor or divisor of a nonlinear term (first only those, then all real constants) to small rationals
    (a few deterministic assignments) and ask z3 again.  A model of the instantiated query is a model of the
    original one, so a 'sat' here is a genuine counter-model; failing to find one proves nothing."""
    consts, nonlin = {}, {}
    seen = set()
    stack = list(formulas)

    def is_const(t):
        return z3.is_app(t) and t.num_args() == 0 and t.decl().kind() == z3.Z3_OP_UNINTERPRETED \
            and t.sort().kind() == z3.Z3_REAL_SORT
    while stack and len(seen) < 200000:
        t = stack.pop()
        if t.get_id() in seen:
            continue
        seen.add(t.get_id())
        if z3.is_quantifier(t):
            stack.append(t.body())
            continue
        if z3.is_app(t):
            if is_const(t):
                consts[str(t)] = t
            k = t.decl().kind()
            ch = t.children()
            if k == z3.Z3_OP_MUL and sum(0 if z3.is_rational_value(c) else 1 for c in ch) > 1:
                for c in ch:
                    if is_const(c):
                        nonlin[str(c)] = c
            elif k == z3.Z3_OP_DIV and is_const(ch[1]):
                nonlin[str(ch[1])] = ch[1]
            stack.extend(ch)
    plans = []
    for attempt in range(INST_TRIES):
        pool = INST_POOL[attempt % 3:] + INST_POOL[:attempt % 3]
        if nonlin:
            plans.append([(nonlin[nm], z3.RealVal(pool[(j + attempt // 3) % 3])) for j, nm in enumerate(sorted(nonlin))])
    for attempt in range(INST_TRIES if consts else 0):
        plans.append([(consts[nm], z3.RealVal(INST_POOL[(j * (attempt + 1) + attempt) % len(INST_POOL)]))
                      for j, nm in enumerate(sorted(consts))])
    for sub in plans:
        s = z3.Solver()
        s.set("timeout", 8000)
        for f in formulas:
            s.add(z3.substitute(f, *sub))
        payload = _z3_forked(s, 8.0, {k: (z3.substitute(v, *sub) if z3.is_expr(v) else v)
                                      for k, v in (names or {}).items()})
        if payload and payload["res"] == "sat":
            model = payload.get("model") or {}
            model["fixed_real_constants"] = {str(c): str(v) for c, v in sub}
            return model
    return None


_HARD_KINDS = None


def _is_easy(terms, budget=20000):
    """no nonlinear arithmetic, quantifiers, sequences or strings"""
    seen = set()
    stack = [t for t in terms if z3.is_expr(t)]
    n = 0
    while stack:
        t = stack.pop()
        i = t.get_id()
        if i in seen:
            continue
        seen.add(i)
        n += 1
        if n > budget:
            return False
        if z3.is_quantifier(t):
            return False
        if z3.is_app(t):
            k = t.decl().kind()
            if k == z3.Z3_OP_MUL:
                if sum(0 if (z3.is_rational_value(a) or z3.is_int_value(a)) else 1 for a in t.children()) > 1:
                    return False
            elif k in (z3.Z3_OP_DIV, z3.Z3_OP_IDIV, z3.Z3_OP_MOD, z3.Z3_OP_REM):
                d = t.arg(1)
                if not (z3.is_rational_value(d) or z3.is_int_value(d)):
                    return False
            elif k == z3.Z3_OP_POWER:
                return False
            srt = t.sort().kind()
            if srt in (z3.Z3_SEQ_SORT, z3.Z3_RE_SORT, z3.Z3_ARRAY_SORT):
                return False
            stack.extend(t.children())
    return True


def _cvc5(solver):
    try:
        smt = solver.to_smt2()
    except Exception as exc:  # pragma: no cover
        return "error", f"smt2 dump failed: {exc}"
    smt = "(set-logic ALL)\n" + smt
    with tempfile.NamedTemporaryFile("w", suffix=".smt2", delete=False) as fh:
        fh.write(smt)
        path = fh.name
    try:
        out = subprocess.run(["/usr/bin/cvc5", "--strings-exp", f"--tlimit={CVC5_TIMEOUT_S * 1000}", path],
                             capture_output=True, text=True, timeout=CVC5_TIMEOUT_S + 10)
        txt = (out.stdout + out.stderr).strip().splitlines()
        first = txt[0].strip() if txt else ""
        if first in ("sat", "unsat"):
            return first, first
        if os.environ.get("VF_KEEP_SMT") and "rror" in first:
            import shutil
            shutil.copy(path, os.environ["VF_KEEP_SMT"])
        return "unknown", (first or "no output")[:120]
    except subprocess.TimeoutExpired:
        return "unknown", "timeout"
    finally:
        os.unlink(path)


def model_to_json(model, names):
    """evaluate named z3 terms in a model -> JSON-able dict"""
    out = {}
    if model is None:
        return out
    for name, term in names.items():
        try:
            v = model.eval(term, model_completion=True)
            out[name] = _z3val(v)
        except Exception as exc:  # pragma: no cover
            out[name] = f"<{exc}>"
    return out


def _z3val(v):
    if z3.is_int_value(v):
        return v.as_long()
    if z3.is_rational_value(v):
        n, d = v.numerator_as_long(), v.denominator_as_long()
        return n if d == 1 else {"num": n, "den": d, "float": n / d}
    if z3.is_true(v):
        return True
    if z3.is_false(v):
        return False
    if z3.is_algebraic_value(v):
        a = v.approx(20)
        return {"float": a.numerator_as_long() / a.denominator_as_long()}
    if z3.is_string_value(v):
        return v.as_string()
    return str(v)


def jfloat(x):
    if isinstance(x, dict):
        return x["float"]
    return float(x)


class Clause:
    """accumulates the per-path verdicts of one named obligation"""

    def __init__(self, oid):
        self.oid = oid
        self.paths = 0
        self.status = DISCHARGED
        self.backend = set()
        self.time = 0.0
        self.detail = ""
        self.model = None
        self.witness = ""

    def add(self, status, backend, dt, detail="", model=None, witness=""):
        self.paths += 1
        self.time += dt
        self.backend.add(backend)
        if status == REFUTED and self.status != REFUTED:
            self.status, self.detail, self.model, self.witness = REFUTED, detail, model, witness
        elif status == UNDECIDED and self.status == DISCHARGED:
            self.status, self.detail = UNDECIDED, detail

    def result(self):
        return ObResult(oid=self.oid, status=self.status, backend="+".join(sorted(self.backend)),
                        time_s=round(self.time, 4), paths=self.paths, detail=self.detail,
                        model=self.model, witness=self.witness)


class Session:
    """one function under contract: explore all paths, decide all clauses"""

    def __init__(self, prop, unit_name, target=None):
        self.prop, self.unit_name, self.target = prop, unit_name, target
        self.I = symex.Interp()
        self.clauses = {}
        self.names = {}           # name -> z3 term, reported in counter-models
        self.path_count = 0
        self.outcomes = {}

    def clause(self, cid):
        oid = f"{self.prop}.{self.unit_name}.{cid}"
        if oid not in self.clauses:
            self.clauses[oid] = Clause(oid)
        return self.clauses[oid]

    def ensure(self, cid, goal, witness="", extra=(), case=None, timeout_ms=None):
        """obligation: on the current path, goal follows from pc + axioms"""
        I = self.I
        c = self.clause(cid)
        if isinstance(goal, bool):
            if goal:
                c.add(DISCHARGED, "eval", 0.0)
            else:
                model = case if case is not None else model_to_json(self._path_model(), self.names)
                c.add(REFUTED, "eval", 0.0, "clause evaluates to False on a feasible path", model, witness)
            return goal
        if isinstance(goal, V.SBool):
            goal = goal.term
        hyps = I.pc + I.axioms_path + list(extra)
        hyps = hyps + V.auto_axioms(goal, *hyps)
        st, be, dt, model, detail = solve(hyps, goal, names=self.names, timeout_ms=timeout_ms)
        c.add(st, be, dt, detail, model if st == REFUTED else None, witness)
        return st == DISCHARGED

    def flush_domain(self):
        I = self.I
        if not getattr(self, "check_domain", True):
            if I.domain_pending:
                I.notes.append(f"{self.unit_name}: {len(I.domain_pending)} division-domain conditions not checked "
                               "(assumed: data extrema used for normalisation are non-zero)")
            I.domain_pending.clear()
            return
        while I.domain_pending:
            name, cond = I.domain_pending.pop(0)
            self.ensure("arith_defined", cond, witness=name)

    def fail(self, cid, detail, witness="", case=None):
        """a path that must not exist (e.g. an exception class the contract forbids)"""
        c = self.clause(cid)
        c.add(REFUTED, "path", 0.0, detail,
              case if case is not None else model_to_json(self._path_model(), self.names), witness)

    def ok(self, cid):
        self.clause(cid).add(DISCHARGED, "path", 0.0)

    def _path_model(self):
        s = z3.Solver()
        s.set("timeout", 20000)
        for c in self.I.pc + self.I.axioms_path:
            s.add(c)
        if s.check() == z3.sat:
            return s.model()
        return None

    def run(self, setup, post, max_paths=None):
        def _post(I, out):
            self.path_count += 1
            key = out.kind if out.kind == "return" else "raise:" + out.value.cls.name
            self.outcomes[key] = self.outcomes.get(key, 0) + 1
            post(self, out)
            self.flush_domain()
        stats = self.I.explore(setup, _post, max_paths=max_paths)
        return stats

    def finish(self, res: UnitResult | None = None, replay=None):
        res = res or UnitResult(unit=self.unit_name)
        I = self.I
        if self.path_count == 0:
            res.obligations.append(ObResult(oid=f"{self.prop}.{self.unit_name}.reachable",
                                            status=UNDECIDED, backend="engine",
                                            detail="no feasible path: contradictory requires (vacuous)"))
        else:
            res.obligations.append(ObResult(oid=f"{self.prop}.{self.unit_name}.reachable",
                                            status=DISCHARGED, backend="z3", paths=self.path_count,
                                            detail=f"paths={self.path_count} outcomes={self.outcomes}"))
        for c in self.clauses.values():
            r = c.result()
            if r.status in (REFUTED, UNDECIDED) and replay is not None:
                try:
                    rp = replay(r)
                except BaseException as exc:  # replay harness failure is not a verdict
                    rp = {"confirmed": False, "error": repr(exc)}
                if r.status == REFUTED:
                    r.replay = rp
                elif rp.get("confirmed"):
                    # neither solver decided the obligation, but a failing input of the REAL
                    # function against the clause was found natively: that is a violation
                    r.status = REFUTED
                    r.detail = ("solvers undecided (" + r.detail[:120] + "); refuted by native "
                                "counterexample search on the real function")
                    r.backend += "+native-search"
                    r.replay = rp
            res.obligations.append(r)
        target_key = None
        for key, info in I.functions_seen.items():
            entry = dict(info)
            entry["role"] = "under contract" if self.target and key == self.target else "inlined"
            res.functions.append(entry)
        res.trusted = sorted(I.trusted)
        res.notes = list(dict.fromkeys(I.notes))
        res.assumptions.append("A1: machine floats are treated as mathematical reals (+NaN flag); "
                               "numeric literals are read as the exact decimals they spell")
        res.assumptions.append("A2: the pyvc generator (vf/engine) and the z3/cvc5 solvers are trusted")
        return res
