"""2-D pointwise arrays (rows x concrete number of columns) with optional row compression,
as needed by IndentationRater.load_training_set (C15)."""
from __future__ import annotations

import z3

from ..core import Unsupported
from . import values as V
from .values import SBool, SInt, SReal, Sym, fresh
from . import arrays as A
from .arrays import SArray, SCompressed


class S2D(Sym):
    """matrix[r, c]; rows symbolic (0 <= r < nrows), ncols concrete.  ``rowmask`` (r -> z3 Bool) marks
    the rows that exist after boolean row selection (numpy compacts them; order is preserved)."""

    def __init__(self, nrows, ncols, fn, rowmask=None, kind="real"):
        self.nrows, self.ncols, self._fn, self.rowmask, self.kind = nrows, ncols, fn, rowmask, kind

    def at(self, r, c):
        return self.snap()(r, c)

    def snap(self):
        """pure closure of the current contents (a view reads the contents its base has NOW)"""
        base = getattr(self, "view_of", None)
        if base is not None:
            return base.snap()
        return self._fn

    def column(self, c):
        """1-D view of column c (live: reads the current contents)"""
        if self.rowmask is None:
            a = SArray(self.nrows, None, self.kind)
            a.parent2d = (self, c)

            def snap_now(m=self, c=c):
                f = m.snap()         # contents at the time of the read (numpy evaluates eagerly)
                return lambda r: f(r, c)
            a.snap_hook = snap_now
            return a
        f = self.snap()
        return SCompressed(lambda r: f(r, c), self.rowmask, self.nrows, self.kind, src=(self, c))

    def write(self, I, newfn):
        self._fn = newfn
        I.mutations.append(self)

    def __repr__(self):
        return f"S2D({self.nrows} x {self.ncols}{', row-masked' if self.rowmask is not None else ''})"


def getitem2d(I, m, idx):
    if isinstance(idx, SArray) and idx.kind == "bool":
        # m[rows] is m[rows, :]
        idx = (idx, slice(None, None, None))
    if isinstance(idx, tuple) and len(idx) == 2:
        r, c = idx
        if isinstance(r, slice) and r == slice(None, None, None) and isinstance(c, int):
            return m.column(c)
        if isinstance(c, slice) and c == slice(None, None, None) and isinstance(r, SArray) and r.kind == "bool":
            if m.rowmask is not None:
                raise Unsupported("second row selection")
            rs = r.snap()
            return S2D(m.nrows, m.ncols, m.snap(), rowmask=lambda i: V.bterm(rs(i)), kind=m.kind)
        if isinstance(r, slice) and r == slice(None, None, None) and isinstance(c, slice) and c.step is None \
                and c.start in (None, 0) and isinstance(c.stop, int) and 0 <= c.stop <= m.ncols:
            # leading columns, for reading only (numpy would give a view; a store through it is not modelled)
            v = S2D(m.nrows, c.stop, None, rowmask=m.rowmask, kind=m.kind)
            v.view_of = m
            v.read_only_view = True
            return v
    raise Unsupported(f"2-D index {idx!r}")


def setitem2d(I, m, idx, value):
    if getattr(m, "read_only_view", False):
        raise Unsupported("store through a column-range view")
    if isinstance(idx, tuple) and len(idx) == 2 and isinstance(idx[1], int):
        sel, c = idx
        old = m.snap()
        if isinstance(sel, slice) and sel == slice(None, None, None):
            # m[:, c] = <whole column>
            if isinstance(value, SArray) and m.rowmask is None:
                vs = value.snap()
                m.write(I, lambda r, cc: vs(r) if cc == c else old(r, cc))
                return
            if isinstance(value, SCompressed) and m.rowmask is not None and A.same_mask(I, value.maskfn, m.rowmask):
                vf = value.fn
                m.write(I, lambda r, cc: vf(r) if cc == c else old(r, cc))
                return
            if not A.is_arraylike(value):
                m.write(I, lambda r, cc: value if cc == c else old(r, cc))
                return
            raise Unsupported("whole-column store of this value")
        if isinstance(sel, SArray) and sel.kind == "bool" and m.rowmask is None:
            ss = sel.snap()
            if isinstance(value, SCompressed):
                # m[sel, c] = <selection with the same mask>: row r gets the value computed for row r
                if not A.same_mask(I, value.maskfn, lambda r: V.bterm(ss(r))):
                    raise Unsupported("store of a selection with a different mask")
                vf = value.fn
                m.write(I, lambda r, cc: A.ite_val(V.bterm(ss(r)), vf(r), old(r, cc)) if cc == c else old(r, cc))
                return
            if A.is_arraylike(value):
                raise Unsupported("2-D store of an array value")
            m.write(I, lambda r, cc: A.ite_val(V.bterm(ss(r)), value, old(r, cc)) if cc == c else old(r, cc))
            return
        if isinstance(sel, SCompressed) and sel.kind == "bool" and m.rowmask is not None:
            if not A.same_mask(I, sel.maskfn, m.rowmask):
                raise Unsupported("row selection with a different mask")
            sf, rm = sel.fn, m.rowmask
            if isinstance(value, SCompressed):
                # the value is itself a selection (of the selected rows where sel holds): row r gets its own value
                if not A.same_mask(I, value.maskfn, lambda r: z3.And(rm(r), V.bterm(sf(r)))):
                    raise Unsupported("store of a selection with a different mask")
                vf = value.fn
                m.write(I, lambda r, cc: A.ite_val(z3.And(rm(r), V.bterm(sf(r))), vf(r), old(r, cc)) if cc == c else old(r, cc))
                return
            if A.is_arraylike(value):
                raise Unsupported("2-D store of an array value")
            m.write(I, lambda r, cc: A.ite_val(z3.And(rm(r), V.bterm(sf(r))), value, old(r, cc)) if cc == c else old(r, cc))
            return
    raise Unsupported(f"2-D store {idx!r}")


def install(I):
    L = I.lib
    MEANM = z3.Function("mean_masked", z3.ArraySort(z3.IntSort(), z3.RealSort()),
                        z3.ArraySort(z3.IntSort(), z3.BoolSort()), z3.IntSort(), z3.RealSort())
    I.MEANM = MEANM

    def isinf_kind(which):
        def f(I, x):
            def one(v):
                s = V.infsign(v)
                if isinstance(s, int) and s == 0:
                    return False
                return SBool({"any": s != 0, "pos": s == 1, "neg": s == -1}[which])
            if isinstance(x, S2D):
                fm = x.snap()

                def cell(r, c):
                    v = one(fm(r, c))
                    return v if isinstance(v, SBool) else SBool(z3.BoolVal(bool(v)))
                return S2D(x.nrows, x.ncols, cell, x.rowmask, "bool")
            if A.is_arraylike(x):
                return A.elementwise(I, one, x, kind="bool")
            return one(x)
        return f
    L["numpy.isinf"] = isinf_kind("any")
    L["numpy.isposinf"] = isinf_kind("pos")
    L["numpy.isneginf"] = isinf_kind("neg")

    def logical_and(I, a, b):
        return A.elementwise(I, lambda x, y: SBool(z3.And(V.bterm(x), V.bterm(y))), a, b, kind="bool")
    L["numpy.logical_and"] = logical_and

    old_isnan = L["numpy.isnan"]

    def isnan(I, x):
        if isinstance(x, S2D):
            f = x.snap()
            return S2D(x.nrows, x.ncols, lambda r, c: SBool(A._zb(V.nanflag(f(r, c)))), x.rowmask, "bool")
        return old_isnan(I, x)
    L["numpy.isnan"] = isnan

    old_sum = L["numpy.sum"]

    def np_sum(I, x, axis=None, **k):
        if isinstance(x, S2D):
            if axis != 1:
                raise Unsupported("2-D sum along this axis")
            f = x.snap()

            def row(r):
                acc = 0
                for c in range(x.ncols):
                    acc = I.binop("Add", acc, f(r, c))
                return acc
            if x.rowmask is not None:
                return SCompressed(row, x.rowmask, x.nrows, "int" if x.kind == "bool" else "real")
            return SArray(x.nrows, row, "int" if x.kind == "bool" else "real")
        return old_sum(I, x, **k)
    L["numpy.sum"] = np_sum

    def any2d(I, self, axis=None, **k):
        f = self.snap()
        if axis == 0:
            # one truth value per column (the number of columns is concrete): "some existing row has it"
            out = []
            n = V.iterm(self.nrows)
            for c in range(self.ncols):
                r = z3.Int(fresh("anyrow"))
                inrow = z3.And(r >= 0, r < n) if self.rowmask is None else z3.And(r >= 0, r < n, self.rowmask(r))
                out.append(SBool(z3.Exists([r], z3.And(inrow, V.bterm(f(r, c))))))
            return out
        if axis != 1:
            raise Unsupported("2-D any along this axis")

        def row(r):
            return SBool(z3.Or(*[V.bterm(f(r, c)) for c in range(self.ncols)]))
        if self.rowmask is not None:
            return SCompressed(row, self.rowmask, self.nrows, "bool")
        return SArray(self.nrows, row, "bool")
    L["ndarray2d.any"] = any2d
    L["ndarray2d.sum"] = lambda I, self, axis=None, **k: np_sum(I, self, axis=axis)

    old_array = L["numpy.array"]

    def np_array(I, a, dtype=None, copy=True, **k):
        if isinstance(a, (SArray, SCompressed)) and isinstance(dtype, type(I.builtins["bool"])) and dtype.name == "bool":
            def tb(v):
                if isinstance(v, (SBool, bool)):
                    return v
                if isinstance(v, SReal):
                    return SBool(z3.Or(A._zb(V.nanflag(v)), V.rterm(v) != 0))
                return SBool(V.iterm(v) != 0)
            return A.elementwise(I, tb, a, kind="bool")
        return old_array(I, a, copy=copy, dtype=dtype, **k)
    L["numpy.array"] = np_array

    old_mean = L["numpy.mean"]

    def np_mean(I, a, **k):
        if isinstance(a, SCompressed):
            kk = z3.Int("mm_k")
            n = V.iterm(a.length)
            val = MEANM(z3.Lambda([kk], V.rterm(a.fn(kk))), z3.Lambda([kk], a.maskfn(kk)), n)
            I.ghost.setdefault("masked_means", []).append((a.fn, a.maskfn, val))
            # NaN / inf members are the caller's business: the reference set excludes NaN by construction
            return SReal(val)
        return old_mean(I, a, **k)
    L["numpy.mean"] = np_mean

    def nanmax(I, a):
        if not isinstance(a, SCompressed):
            raise Unsupported("nanmax of this value")
        n = V.iterm(a.length)
        m = z3.Real(fresh("nanmax"))
        j = z3.Int(fresh("nanmax_at"))
        i = z3.Int(fresh("i"))
        inset = lambda q: z3.And(q >= 0, q < n, a.maskfn(q), z3.Not(A._zb(V.nanflag(a.fn(q)))))
        nonempty = z3.Exists([i], inset(i))
        I.safety("nanmax-empty", nonempty, "ValueError")
        I.axiom("def:nanmax", z3.ForAll([i], z3.Implies(inset(i), V.rterm(a.fn(i)) <= m)))
        I.axiom("def:nanmax", z3.And(inset(j), V.rterm(a.fn(j)) == m))
        I.ghost.setdefault("reductions", []).append(("nanmax", m, j))
        I.ghost.setdefault("nanmax_sets", []).append((a.fn, a.maskfn, m))
        return SReal(m)
    L["numpy.nanmax"] = nanmax

    old_any = L["numpy.any"]

    def np_any(I, a, axis=None, **k):
        if isinstance(a, S2D):
            return any2d(I, a, axis=axis)
        if axis is not None or k:
            raise Unsupported("np.any with axis / keywords on this value")
        if isinstance(a, SCompressed):
            k = z3.Int(fresh("any"))
            n = V.iterm(a.length)
            return SBool(z3.Exists([k], z3.And(k >= 0, k < n, a.maskfn(k), V.bterm(a.fn(k)))))
        return old_any(I, a)
    L["numpy.any"] = np_any
