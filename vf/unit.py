"""A verification unit: a named callable run in its own worker process."""


class Unit:
    def __init__(self, name, fn, **kw):
        self.name, self.fn, self.kw = name, fn, kw

    def run(self, tier, seed):
        return self.fn(tier=tier, seed=seed, **self.kw)
