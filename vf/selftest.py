"""Canary patches (DESIGN.md 2.10c): property-breaking edits applied to a scratch
copy of /repo (outside /repo and /verif); the quick check must report a violation.
Missed canaries are a weakness of the check, reported in the evidence; they are
never a violation of the property."""
from __future__ import annotations

import os
import pathlib
import shutil
import subprocess
import tempfile
import time

from .core import HERE, REPO, UnitResult


def run_canaries(prop, canaries, jobs=4):
    """canaries: list of dicts {name, file (relative to src/nanite), old, new, expect (substring of an obligation id)}"""
    res = UnitResult(unit="selftest.canaries")
    out = []
    for c in canaries:
        t0 = time.time()
        tmp = pathlib.Path(tempfile.mkdtemp(prefix="vf-canary-"))
        try:
            shutil.copytree(REPO / "src", tmp / "repo" / "src")
            if (REPO / "tests" / "data").exists():
                os.makedirs(tmp / "repo" / "tests", exist_ok=True)
                os.symlink(REPO / "tests" / "data", tmp / "repo" / "tests" / "data")
            f = tmp / "repo" / "src" / "nanite" / c["file"]
            txt = f.read_text()
            if txt.count(c["old"]) != 1:
                out.append({"canary": c["name"], "result": "not-applicable",
                            "why": f"anchor text occurs {txt.count(c['old'])} times"})
                continue
            f.write_text(txt.replace(c["old"], c["new"]))
            env = dict(os.environ, VF_REPO=str(tmp / "repo"), VF_JOBS=str(jobs))
            env.pop("PYTHONPATH", None)
            try:
                p = subprocess.run([str(HERE / "check"), prop, "--tier", "quick"], cwd=HERE, env=env,
                                   capture_output=True, text=True, timeout=1500)
            except subprocess.TimeoutExpired:
                # (a planted defect can send several obligations through the whole fall-back chain of solvers)
                out.append({"canary": c["name"], "result": "timeout", "time_s": round(time.time() - t0, 1)})
                continue
            lines = [ln for ln in p.stdout.splitlines() if ln.startswith(("VIOLATION", "UNDECIDED", "INTERNAL"))]
            caught = p.returncode == 1 and any("VIOLATION" in ln for ln in lines)
            named = any(c.get("expect", "") in ln for ln in lines if ln.startswith("VIOLATION"))
            out.append({"canary": c["name"], "result": "caught" if caught else "missed",
                        "expected_obligation_named": bool(named), "exit": p.returncode,
                        "lines": lines[:4], "time_s": round(time.time() - t0, 1)})
        except Exception as exc:      # a canary is a self-test: it never turns a check into an error
            out.append({"canary": c["name"], "result": "error", "why": repr(exc)[:200]})
        finally:
            shutil.rmtree(tmp, ignore_errors=True)
    res.notes.append({"canaries": out,
                      "caught": sum(1 for o in out if o["result"] == "caught"),
                      "missed": [o["canary"] for o in out if o["result"] == "missed"]})
    return res
